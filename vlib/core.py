"""Verdict / evidence discipline shared by all checks (DESIGN §3.1, §3.2).

A check module (checks/cNN_*.py) provides

    ID, LEVEL, RULE, ASSUMPTIONS, REQUIRED_HITS (monitor counters that must be > 0)
    plan(tier)            -> {'shards': n, 'budget_s': soft wall budget per shard}
    gen_cases(rng, tier, shard, nshards)  -> iterator of JSON-able case descriptors
    execute(rec, case)    -> runs ONE case against the real code, reports through `rec`

`execute` is also what `--replay` calls, so every violation witness replays exactly.
Verdicts are three-valued: exit 0 held on what was observed, exit 1 violated (VIOLATION
line, replay file), exit 2 inconclusive (a deciding monitor was never reached, a shard
died or the wall-clock watchdog fired).  Inconclusive is never folded into the others.
"""
import collections
import hashlib
import importlib
import json
import os
import random
import subprocess
import sys
import time
import traceback

from vlib import boot

MAX_SIGS_PER_SHARD = 200_000
MAX_WITNESS_PER_KEY = 3


def _h(sig) -> int:
    if not isinstance(sig, (bytes, str)):
        sig = json.dumps(sig, sort_keys=True, default=repr)
    if isinstance(sig, str):
        sig = sig.encode('utf8', 'surrogatepass')
    return int.from_bytes(hashlib.blake2b(sig, digest_size=8).digest(), 'big')


def jsonable(x, depth=0):
    if depth > 12:
        return repr(x)[:200]
    if isinstance(x, (bytes, bytearray, memoryview)):
        b = bytes(x)
        return {'hex': b.hex()} if len(b) <= 4096 else {'hex_prefix': b[:256].hex(), 'len': len(b),
                                                          'sha256': hashlib.sha256(b).hexdigest()}
    if isinstance(x, (str, int, float, bool)) or x is None:
        if isinstance(x, float) and (x != x or x in (float('inf'), float('-inf'))):
            return repr(x)
        return x
    if isinstance(x, dict):
        return {str(k) if not isinstance(k, (bytes, bytearray)) else 'hex:' + bytes(k).hex():
                jsonable(v, depth + 1) for k, v in x.items()}
    if isinstance(x, (list, tuple, set, frozenset)):
        seq = sorted(x, key=repr) if isinstance(x, (set, frozenset)) else x
        return [jsonable(v, depth + 1) for v in seq]
    return repr(x)[:500]


def unjson_bytes(x):
    """inverse of jsonable for the {'hex': ..} form (used by replay)."""
    if isinstance(x, dict) and set(x) == {'hex'}:
        return bytes.fromhex(x['hex'])
    if isinstance(x, dict):
        return {k: unjson_bytes(v) for k, v in x.items()}
    if isinstance(x, list):
        return [unjson_bytes(v) for v in x]
    return x


class Recorder:
    def __init__(self, prop, tier, seed, shard=0, nshards=1, budget_s=60.0):
        self.prop, self.tier, self.seed, self.shard, self.nshards = prop, tier, seed, shard, nshards
        self.t0 = time.monotonic()
        self.c0 = time.process_time()
        self.budget_s = budget_s
        self.evaluations = 0
        self.sigs = set()
        self.sig_overflow = 0
        self.hits = collections.Counter()
        self.samples = []
        self.violations = []          # [{key, what, case, witness}]
        self.violation_counts = collections.Counter()
        self.notes = {}
        self.exhaustive = {}
        self.current_case = None
        self.logged = collections.Counter()   # things seen but not judged

    # ---- coverage -------------------------------------------------------------------
    def case(self, sig, nontrivial=True, sample=None):
        self.evaluations += 1
        if nontrivial:
            if len(self.sigs) < MAX_SIGS_PER_SHARD:
                self.sigs.add(_h(sig))
            else:
                self.sig_overflow += 1
        if sample is not None and len(self.samples) < 4:
            self.samples.append(jsonable(sample))

    def hit(self, name, n=1):
        self.hits[name] += n

    def log(self, name, n=1):
        """observed but deliberately not judged (see DESIGN interpretation notes)"""
        self.logged[name] += n

    def note(self, key, value):
        self.notes[key] = jsonable(value)

    def time_left(self):
        # the budget is counted in CPU seconds of this shard, so that a loaded machine does not silently shrink the
        # workload; wall time is capped separately at 2.5x the budget (the parent's watchdog is 3x + 120 s)
        cpu = time.process_time() - self.c0
        wall = time.monotonic() - self.t0
        return min(self.budget_s - cpu, 2.5 * self.budget_s - wall)

    def out_of_time(self):
        return self.time_left() <= 0

    # ---- verdicts -------------------------------------------------------------------
    def violation(self, key, what, witness=None, case=None):
        """key: mechanism key (stable across seeds), what: one line, witness: JSON-able."""
        self.violation_counts[key] += 1
        if self.violation_counts[key] <= MAX_WITNESS_PER_KEY:
            self.violations.append({
                'key': key, 'what': what,
                'case': jsonable(case if case is not None else self.current_case),
                'witness': jsonable(witness),
            })

    def dump(self):
        return {
            'shard': self.shard, 'evaluations': self.evaluations, 'sigs': sorted(self.sigs),
            'sig_overflow': self.sig_overflow, 'hits': dict(self.hits), 'logged': dict(self.logged),
            'samples': self.samples, 'violations': self.violations,
            'violation_counts': dict(self.violation_counts), 'notes': self.notes,
            'exhaustive': self.exhaustive, 'wall_s': time.monotonic() - self.t0,
        }


class CallTimeout(Exception):
    """the call under test did not return within its (generous) wall-clock limit: for a pure computation on a small input
    this is a hang / runaway loop and is reported as a violation by the check, not as an inconclusive run"""


class time_limit:
    """with time_limit(10): call()  - SIGALRM based, main thread only (shards run their cases in the main thread)"""
    def __init__(self, seconds):
        self.seconds = seconds

    def __enter__(self):
        import signal

        def on_alarm(signum, frame):
            raise CallTimeout(f'no return within {self.seconds} s')
        self._old = signal.signal(signal.SIGALRM, on_alarm)
        signal.setitimer(signal.ITIMER_REAL, self.seconds)
        return self

    def __exit__(self, *exc):
        import signal
        signal.setitimer(signal.ITIMER_REAL, 0)
        signal.signal(signal.SIGALRM, self._old)
        return False


def load_check(prop):
    boot.setup_path()
    cdir = os.path.join(boot.VERIF, 'checks')
    for fn in sorted(os.listdir(cdir)):
        if fn.lower().startswith(prop.lower()) and fn.endswith('.py'):
            return importlib.import_module('checks.' + fn[:-3])
    raise SystemExit(f"no check module for {prop}")


# ------------------------------------------------------------------------------ shard
def shard_main(argv):
    prop, tier, seed, shard, nshards, budget, outfile = argv
    seed, shard, nshards, budget = int(seed), int(shard), int(nshards), float(budget)
    import faulthandler
    faulthandler.enable()
    mod = load_check(prop)
    rec = Recorder(prop, tier, seed, shard, nshards, budget)
    rng = random.Random(seed * 1000 + shard)
    status = 'ok'
    err = None
    slow = []
    try:
        if hasattr(mod, 'shard_setup'):
            mod.shard_setup(rec, tier)
        for case in mod.gen_cases(rng, tier, shard, nshards):
            if rec.out_of_time():
                rec.note('stopped_on_budget', True)
                break
            rec.current_case = case
            t_case = time.monotonic()
            mod.execute(rec, case)
            dt_case = time.monotonic() - t_case
            if dt_case > 3.0:
                slow.append((round(dt_case, 1), jsonable(case)))
        rec.current_case = None
        if hasattr(mod, 'shard_finish'):
            mod.shard_finish(rec, tier)
    except BaseException:  # harness failure, not a verdict
        status = 'harness-error'
        err = traceback.format_exc()
    if slow:
        rec.note('slow_cases_shard_%d' % shard, sorted(slow, key=lambda x: -x[0])[:3])
    out = rec.dump()
    out['status'] = status
    out['error'] = err
    out['failing_case'] = jsonable(rec.current_case) if status != 'ok' else None
    with open(outfile, 'w') as f:
        json.dump(out, f)
    return 0


# ------------------------------------------------------------------------------ parent
def _known_findings():
    p = os.path.join(boot.VERIF, 'known_findings.json')
    if not os.path.exists(p):
        return []
    with open(p) as f:
        return json.load(f).get('findings', [])


def _slug(s):
    return ''.join(c if c.isalnum() else '_' for c in s)[:60]


def parent_main(prop, tier, seed, replay=None):
    import concurrent.futures
    import tempfile
    t0 = time.monotonic()
    mod = load_check(prop)
    prop = mod.ID
    evdir = os.environ.get('VERIF_EVIDENCE_DIR') or os.path.join(boot.VERIF, 'evidence')
    os.makedirs(os.path.join(evdir, 'replay'), exist_ok=True)
    if replay:
        return replay_main(mod, replay)
    plan = mod.plan(tier)
    nshards = int(os.environ.get('VERIF_SHARDS', plan.get('shards', 8)))
    budget = float(plan.get('budget_s', 60))
    hard = budget * 3 + 120
    env = boot.child_env({'VERIF_TIER': tier, 'VERIF_SEED': str(seed)})
    tmp = tempfile.mkdtemp(prefix=f'verif-{prop}-')
    results, problems = [], []

    def run_one(i):
        out = os.path.join(tmp, f'shard{i}.json')
        cmd = [sys.executable, '-B', '-X', 'faulthandler', '-m', 'vlib.core', '--shard',
               prop, tier, str(seed), str(i), str(nshards), str(budget), out]
        try:
            p = subprocess.run(cmd, env=env, cwd=boot.VERIF, timeout=hard,
                               stdout=subprocess.PIPE, stderr=subprocess.STDOUT)
        except subprocess.TimeoutExpired:
            return i, None, f'shard {i}: wall-clock watchdog ({hard:.0f}s) fired'
        if not os.path.exists(out):
            return i, None, f'shard {i}: died rc={p.returncode}: {p.stdout.decode(errors="replace")[-2000:]}'
        with open(out) as f:
            return i, json.load(f), None

    try:
        workers = min(nshards, int(os.environ.get('VERIF_JOBS', os.cpu_count() or 4)))
        with concurrent.futures.ThreadPoolExecutor(workers) as ex:
            for i, res, prob in ex.map(run_one, range(nshards)):
                if prob:
                    problems.append(prob)
                if res is not None:
                    results.append(res)
                    if res['status'] != 'ok':
                        problems.append(f"shard {i}: harness error on case "
                                        f"{json.dumps(res.get('failing_case'))[:600]}\n{res['error']}")
    finally:
        import shutil
        shutil.rmtree(tmp, ignore_errors=True)

    return finish(mod, tier, seed, results, problems, time.monotonic() - t0)


def finish(mod, tier, seed, results, problems, wall):
    prop = mod.ID
    evdir = os.environ.get('VERIF_EVIDENCE_DIR') or os.path.join(boot.VERIF, 'evidence')
    sigs, hits, logged = set(), collections.Counter(), collections.Counter()
    vcounts = collections.Counter()
    evaluations = overflow = 0
    samples, violations, notes, exhaustive = [], [], {}, {}
    for r in results:
        evaluations += r['evaluations']
        overflow += r['sig_overflow']
        sigs.update(r['sigs'])
        hits.update(r['hits'])
        logged.update(r['logged'])
        vcounts.update(r['violation_counts'])
        samples.extend(r['samples'][:2])
        violations.extend(r['violations'])
        for k, v in r['notes'].items():
            notes.setdefault(k, v)
        for k, v in r['exhaustive'].items():
            exhaustive[k] = exhaustive.get(k, True) and v
    known = {k['key']: k for k in _known_findings() if k['property'] == prop}
    open_keys = {k for k, v in known.items() if v.get('status') == 'open'}
    # --- classify violations by mechanism key
    new_by_key, known_seen = collections.OrderedDict(), collections.OrderedDict()
    for v in violations:
        (known_seen if v['key'] in open_keys else new_by_key).setdefault(v['key'], []).append(v)
    lines = []
    for key, vs in known_seen.items():
        lines.append(f"KNOWN-FINDING: property={prop} {key}: {known[key]['what_fails']} "
                     f"(seen {vcounts[key]}x this run)")
    # clear old replay files of this property
    rdir = os.path.join(evdir, 'replay')
    for fn in os.listdir(rdir):
        if fn.startswith(prop + '-'):
            os.unlink(os.path.join(rdir, fn))
    nviol = 0
    for key, vs in new_by_key.items():
        for n, v in enumerate(vs[:MAX_WITNESS_PER_KEY]):
            path = os.path.join(rdir, f'{prop}-{_slug(key)}-{n}.json')
            with open(path, 'w') as f:
                json.dump({'property': prop, 'key': key, 'what': v['what'], 'tier': tier, 'seed': seed,
                           'case': v['case'], 'witness': v['witness'],
                           'fixed_entry': known.get(key)}, f, indent=1)
            if n == 0:
                lines.append(f"VIOLATION property={prop} replay={path}")
                lines.append(f"  key={key} count={vcounts[key]} what={v['what']}")
        nviol += vcounts[key]
    missing = [h for h in getattr(mod, 'REQUIRED_HITS', []) if hits.get(h, 0) == 0]
    if hasattr(mod, 'required_hits'):
        missing = [h for h in mod.required_hits(tier) if hits.get(h, 0) == 0]
    inconclusive = []
    if problems:
        inconclusive.extend(problems)
    if missing:
        inconclusive.append('monitor counters never reached: ' + ', '.join(missing))
    if evaluations == 0:
        inconclusive.append('no case was evaluated')
    distinct = len(sigs)
    coverage = {
        'evaluations': evaluations,
        'distinct_nontrivial': distinct,
        'rule': mod.RULE + (f' [signature table capped: {overflow} further non-trivial cases not '
                            f'de-duplicated, not counted]' if overflow else ''),
        'samples': samples[:10],
        'monitor_hits': dict(sorted(hits.items())),
        'logged_not_judged': dict(sorted(logged.items())),
        'exhaustive': bool(exhaustive) and all(exhaustive.values()) and bool(getattr(mod, 'EXHAUSTIVE_WHOLE', False)),
        'exhaustive_subspaces': exhaustive,
        'notes': notes,
        'known_findings_seen': {k: vcounts[k] for k in known_seen},
        'violation_keys': {k: vcounts[k] for k in new_by_key},
        'shards': len(results),
        'inconclusive_reasons': inconclusive,
        'verdict': 'violated' if new_by_key else ('inconclusive' if inconclusive else 'held-on-observed'),
    }
    ev = {
        'property_id': prop, 'tier': tier, 'seed': seed, 'level': mod.LEVEL,
        'coverage': coverage,
        'assumptions': list(mod.ASSUMPTIONS) + [
            'pure-Python protobuf runtime (PROTOCOL_BUFFERS_PYTHON_IMPLEMENTATION=python); CPython 3.12; '
            'coincurve/cryptography/ecdsa newer than setup.py pins',
            'inert stand-ins for absent packages filetype/appdirs/yaml/colorama/distro/aioupnp (not on any property path)',
        ],
        'wall_s': round(wall, 2), 'violations': nviol,
    }
    with open(os.path.join(evdir, f'{prop}.json'), 'w') as f:
        json.dump(ev, f, indent=1, sort_keys=True)
        f.write('\n')
    for ln in lines:
        print(ln)
    print(f"{prop} tier={tier} seed={seed}: evaluations={evaluations} distinct_nontrivial={distinct} "
          f"violations={nviol} known_seen={sum(vcounts[k] for k in known_seen)} wall={wall:.1f}s")
    print("  monitor_hits: " + ', '.join(f'{k}={v}' for k, v in sorted(hits.items())))
    if new_by_key:
        return 1
    if inconclusive:
        for p in inconclusive:
            print('INCONCLUSIVE: ' + p)
        return 2
    print(f"HELD property={prop} on everything explored")
    return 0


def replay_main(mod, path):
    with open(path) as f:
        doc = json.load(f)
    rec = Recorder(mod.ID, doc.get('tier', 'quick'), doc.get('seed', 0), budget_s=3600)
    if hasattr(mod, 'shard_setup'):
        mod.shard_setup(rec, rec.tier)
    case = doc['case']
    rec.current_case = case
    mod.execute(rec, case)
    if rec.violations:
        for v in rec.violations:
            print(f"VIOLATION property={mod.ID} replay={path}")
            print(f"  key={v['key']} what={v['what']}")
            print('  witness=' + json.dumps(v['witness'])[:2000])
        return 1
    print(f"replay of {path}: no violation (evaluations={rec.evaluations})")
    return 0


if __name__ == '__main__':
    if len(sys.argv) > 1 and sys.argv[1] == '--shard':
        sys.exit(shard_main(sys.argv[2:]))
    raise SystemExit('use bin/check')

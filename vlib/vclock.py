"""Virtual-clock event loop (DESIGN §3.3).

A SelectorEventLoop whose time() is a virtual counter.  The selector wrapper polls real readiness with
timeout 0; when nothing is ready and no executor job is outstanding the clock JUMPS to the next
scheduled timer instead of sleeping, so 24 h of DHT time or a 30 s blob-exchange timeout cost
milliseconds and every deadline in an oracle is expressed in virtual seconds.  While executor jobs
(sqlite statements, blob file I/O) are outstanding the loop waits in real time WITHOUT advancing the
virtual clock: such jobs take zero virtual time and a timeout can never fire before their result
is delivered."""
import asyncio


class _VSelector:
    def __init__(self, real, loop):
        self._real, self._loop = real, loop

    def select(self, timeout=None):
        events = self._real.select(0)
        if events or (timeout is not None and timeout <= 0):
            return events
        lp = self._loop
        if lp._outstanding > 0:
            return self._real.select(0.002 if timeout is None else min(timeout, 0.002))
        if timeout is None:
            # nothing scheduled at all: only an external wake-up (thread-safe call) can make progress
            lp._idle_spins += 1
            return self._real.select(0.005)
        lp._vt += timeout
        lp._jumps += 1
        return []

    def __getattr__(self, name):
        return getattr(self._real, name)


class VirtualClockLoop(asyncio.SelectorEventLoop):
    def __init__(self, start=1_000_000.0):
        super().__init__()
        self._vt = float(start)
        self._outstanding = 0
        self._idle_spins = 0
        self._jumps = 0
        self._selector = _VSelector(self._selector, self)

    def time(self):
        return self._vt

    def _dec(self, _fut):
        self._outstanding -= 1

    def run_in_executor(self, executor, func, *args):
        fut = super().run_in_executor(executor, func, *args)
        self._outstanding += 1
        fut.add_done_callback(self._dec)
        return fut


def run(coro_factory, timeout_virtual=None, wall_timeout=600):
    """runs coro_factory(loop) to completion on a fresh virtual-clock loop; a wall-clock watchdog (inconclusive, raises
    RuntimeError in the harness) guards against the loop spinning forever."""
    import threading
    loop = VirtualClockLoop()
    asyncio.set_event_loop(loop)
    fired = []

    def watchdog():
        fired.append(True)
        loop.call_soon_threadsafe(lambda: [t.cancel() for t in asyncio.all_tasks(loop)])
    timer = threading.Timer(wall_timeout, watchdog)
    timer.daemon = True
    timer.start()
    try:
        return loop.run_until_complete(coro_factory(loop))
    except asyncio.CancelledError:
        if fired:
            raise RuntimeError(f'harness wall-clock watchdog ({wall_timeout}s) fired: inconclusive')
        raise
    finally:
        timer.cancel()
        try:
            pending = [t for t in asyncio.all_tasks(loop) if not t.done()]
            for t in pending:
                t.cancel()
            if pending:
                loop.run_until_complete(asyncio.gather(*pending, return_exceptions=True))
            loop.run_until_complete(loop.shutdown_asyncgens())
            loop.run_until_complete(loop.shutdown_default_executor())
        finally:
            asyncio.set_event_loop(None)
            loop.close()

"""Crash engine (DESIGN §3.5): process death at chosen points of REAL code, no source edits.

The caller (single-threaded, no running event loop) forks; the child arms ONE failpoint and
runs the scenario; at the failpoint the child reports which point fired on a pipe and calls
`os._exit(137)` (no atexit handlers, no buffered-file flushing, no `finally` blocks: what a
SIGKILL leaves behind).  The parent waits with a hard timeout (kill + `ChildTimeout`, which
callers let propagate -> harness error -> verdict *inconclusive*, never *violated*) and then
inspects the disk.

Failpoint kinds (all generic, reused by C13 and C18):

* `arm_line_failpoint(code, k)`     die immediately BEFORE the k-th (0-based) `sys.monitoring`
                                    LINE event inside code object `code` executes.
  `trace_lines(code)`               record the LINE events of a complete run (to enumerate k).
* `arm_call_failpoint(module, name, nth, when)`
                                    replace attribute `name` of `module` by a wrapper that dies
                                    'before' or 'after' the nth (0-based) call of the real function.
* `OpTrace`                         one ordered index space over SEVERAL wrapped functions plus
                                    the methods of files returned by a wrapped `open`
                                    (`file.write/flush/close`): die before/after op #i, or
                                    short-write a prefix of the data and die ("torn write").
* `fork_run(fn, timeout)`           run `fn()` in a forked child, return a `ChildResult`.

Everything that patches or monitors is meant to be called INSIDE the child (after the fork), so
the parent's interpreter is never modified.
"""
import json
import os
import select
import signal
import sys
import threading
import time
import traceback

EXIT_FAILPOINT = 137
EXIT_CHILD_ERROR = 3
TOOL_ID = 4          # a free sys.monitoring tool slot (0 debugger, 1 coverage, 2 profiler, 5 optimizer)

_report_fd = None    # write end of the report pipe; only set in a forked child
_os_write, _os_exit = os.write, os._exit      # bound now: children may patch attributes of `os`


class CrashEngineError(RuntimeError):
    """harness-side failure of the crash engine (never a verdict)"""


class ChildTimeout(CrashEngineError):
    pass


class ForkUnsafe(CrashEngineError):
    pass


class ChildResult:
    __slots__ = ('exitcode', 'signal', 'fired', 'payload', 'error', 'messages', 'wall_s')

    def __init__(self):
        self.exitcode = None      # exit status if the child exited
        self.signal = None        # signal number if it was killed by a signal
        self.fired = None         # tag of the failpoint that fired, else None
        self.payload = None       # JSON-able return value of fn() if it returned
        self.error = None         # traceback text if fn() raised
        self.messages = []        # every other JSON line the child emitted
        self.wall_s = 0.0

    @property
    def died_at_failpoint(self):
        return self.exitcode == EXIT_FAILPOINT and self.fired is not None

    @property
    def completed(self):
        return self.exitcode == 0 and self.error is None

    def __repr__(self):
        return (f'ChildResult(exit={self.exitcode}, sig={self.signal}, fired={self.fired!r}, '
                f'error={"yes" if self.error else None})')


# ------------------------------------------------------------------------------ child side
def emit(obj):
    """child -> parent: one JSON line on the report pipe (unbuffered os.write)."""
    if _report_fd is None:
        return
    data = (json.dumps(obj, default=repr) + '\n').encode()
    while data:
        n = _os_write(_report_fd, data)
        data = data[n:]


def die(tag):
    """report which failpoint fired, then die like a killed process."""
    emit({'failpoint': tag})
    _os_exit(EXIT_FAILPOINT)


# ------------------------------------------------------------------------------ parent side
def assert_fork_safe():
    if threading.active_count() != 1:
        raise ForkUnsafe(f'{threading.active_count()} threads alive: fork only from a single-threaded process '
                         f'({[t.name for t in threading.enumerate()]})')
    try:
        import asyncio
        running = asyncio._get_running_loop()
    except Exception:  # noqa
        running = None
    if running is not None:
        raise ForkUnsafe('an event loop is running in the forking process')


def fork_run(fn, timeout=30.0):
    """Run fn() in a forked child.  The child always leaves through os._exit: 0 after fn returned
    (its JSON-able return value is reported), EXIT_CHILD_ERROR after fn raised (traceback reported),
    EXIT_FAILPOINT when a failpoint fired.  Raises ChildTimeout after killing a child that neither
    finished nor died within `timeout` seconds."""
    global _report_fd
    assert_fork_safe()
    sys.stdout.flush()
    sys.stderr.flush()
    rfd, wfd = os.pipe()
    t0 = time.monotonic()
    pid = os.fork()
    if pid == 0:                                            # ---- child
        code = EXIT_CHILD_ERROR
        try:
            os.close(rfd)
            _report_fd = wfd
            try:
                payload = fn()
                emit({'return': payload})
                code = 0
            except BaseException:  # noqa  (reported to the parent, which raises)
                emit({'error': traceback.format_exc()})
        finally:
            _os_exit(code)
    os.close(wfd)                                           # ---- parent
    res = ChildResult()
    buf = bytearray()
    deadline = t0 + timeout
    try:
        eof = False
        while not eof:
            left = deadline - time.monotonic()
            if left <= 0:
                break
            r, _, _ = select.select([rfd], [], [], min(left, 1.0))
            if r:
                chunk = os.read(rfd, 65536)
                if not chunk:
                    eof = True
                else:
                    buf += chunk
        status = None
        while True:
            wpid, st = os.waitpid(pid, os.WNOHANG)
            if wpid == pid:
                status = st
                break
            if time.monotonic() > deadline:
                break
            time.sleep(0.001)
        if status is None:
            try:
                os.kill(pid, signal.SIGKILL)
            finally:
                os.waitpid(pid, 0)
            raise ChildTimeout(f'forked child {pid} exceeded {timeout}s and was killed (inconclusive)')
    finally:
        os.close(rfd)
    if os.WIFEXITED(status):
        res.exitcode = os.WEXITSTATUS(status)
    elif os.WIFSIGNALED(status):
        res.signal = os.WTERMSIG(status)
    for line in bytes(buf).split(b'\n'):
        if not line.strip():
            continue
        try:
            msg = json.loads(line)
        except ValueError:
            res.messages.append({'unparsed': line[:200].decode('latin-1')})
            continue
        if isinstance(msg, dict) and 'failpoint' in msg:
            res.fired = msg['failpoint']
        elif isinstance(msg, dict) and 'return' in msg:
            res.payload = msg['return']
        elif isinstance(msg, dict) and 'error' in msg:
            res.error = msg['error']
        else:
            res.messages.append(msg)
    res.wall_s = time.monotonic() - t0
    return res


def expect_clean(res, what='child'):
    """raise (harness error) unless the child returned normally"""
    if not res.completed:
        raise CrashEngineError(f'{what} did not complete: {res!r}\n{res.error or ""}')
    return res.payload


# ------------------------------------------------------------------------------ LINE failpoints
def _monitoring():
    mon = getattr(sys, 'monitoring', None)
    if mon is None:
        raise CrashEngineError('sys.monitoring needs CPython >= 3.12')
    if mon.get_tool(TOOL_ID) is None:
        mon.use_tool_id(TOOL_ID, 'verif-crash')
    return mon


def arm_line_failpoint(code, k, tag=None):
    """Die immediately before the k-th (0-based) LINE event inside `code` (a code object, e.g.
    `WalletStorage.write.__code__`) executes.  Call inside the forked child."""
    mon = _monitoring()
    state = {'n': 0}

    def on_line(c, line):
        if c is code:
            if state['n'] == k:
                die(tag or f'line-event#{k}@L{line}')
            state['n'] += 1

    mon.register_callback(TOOL_ID, mon.events.LINE, on_line)
    mon.set_local_events(TOOL_ID, code, mon.events.LINE)
    return state


def trace_lines(code):
    """Record (into the returned list) the line number of every LINE event inside `code`."""
    mon = _monitoring()
    seen = []

    def on_line(c, line):
        if c is code:
            seen.append(line)

    mon.register_callback(TOOL_ID, mon.events.LINE, on_line)
    mon.set_local_events(TOOL_ID, code, mon.events.LINE)
    return seen


def disarm_lines(code):
    mon = _monitoring()
    mon.set_local_events(TOOL_ID, code, 0)
    mon.register_callback(TOOL_ID, mon.events.LINE, None)


# ------------------------------------------------------------------------------ call failpoints
def arm_call_failpoint(module, name, nth, when='before', tag=None):
    """Replace `module.name` by a wrapper that dies 'before' or 'after' the nth (0-based) call of
    the real function.  Call inside the forked child.  Returns the counter dict {'n': calls}."""
    if when not in ('before', 'after'):
        raise ValueError(when)
    real = getattr(module, name)
    state = {'n': 0}
    label = tag or f'{getattr(module, "__name__", module)}.{name}#{nth}:{when}'

    def wrapper(*a, **kw):
        i = state['n']
        state['n'] += 1
        if i == nth and when == 'before':
            die(label)
        try:
            r = real(*a, **kw)
        except BaseException:
            if i == nth and when == 'after':
                die(label + ':raised')
            raise
        if i == nth and when == 'after':
            die(label)
        return r

    wrapper.__wrapped__ = real
    setattr(module, name, wrapper)
    return state


class _FileProxy:
    """stands for the file object returned by a wrapped open(); write/flush/close are traced ops."""

    def __init__(self, trace, real, path):
        self._t, self._f, self._path = trace, real, path

    def write(self, data):
        return self._t._op('file.write', self._f.write, (data,), {}, short_write=self._short)

    def _short(self, data, n):
        self._f.write(data[:n])
        self._f.flush()          # the prefix really reaches the file before the process dies

    def flush(self):
        return self._t._op('file.flush', self._f.flush, (), {})

    def close(self):
        return self._t._op('file.close', self._f.close, (), {})

    def fileno(self):
        return self._f.fileno()

    def __enter__(self):
        return self

    def __exit__(self, *exc):
        self.close()
        return False

    def __getattr__(self, item):
        return getattr(self._f, item)


class OpTrace:
    """Ordered trace of wrapped operations with at most one failpoint.

        t = OpTrace(die_at=7, when='after')          # die after op #7 returned
        t = OpTrace(die_at=1, short_write=120)       # op #1 must be a file.write: write 120 chars, die
        t = OpTrace()                                # only record (t.log = ['open', 'file.write', ...])
        t.patch(os, 'rename'); t.patch(os.path, 'exists', 'os.path.exists'); t.patch_open(wallet_module)

    `fail` maps an op label to a callable(real, *args) used INSTEAD of the real function (to
    simulate e.g. a rename that refuses to overwrite); it is still a traced op."""

    def __init__(self, die_at=None, when='before', short_write=None, fail=None):
        self.die_at, self.when, self.short_write = die_at, when, short_write
        self.fail = fail or {}
        self.log = []

    def _op(self, label, real, a, kw, short_write=None):
        i = len(self.log)
        self.log.append(label)
        hit = (i == self.die_at)
        if hit and self.short_write is not None:
            if short_write is None:
                raise CrashEngineError(f'short_write requested at op #{i} which is {label}, not file.write')
            short_write(a[0], self.short_write)
            die(f'op#{i}:{label}:short-write:{self.short_write}')
        if hit and self.when == 'before':
            die(f'op#{i}:{label}:before')
        try:
            if label in self.fail:
                r = self.fail[label](real, *a, **kw)
            else:
                r = real(*a, **kw)
        except BaseException:
            if hit and self.when == 'after':
                die(f'op#{i}:{label}:after-raise')
            raise
        if hit and self.when == 'after':
            die(f'op#{i}:{label}:after')
        return r

    def patch(self, module, name, label=None):
        real = getattr(module, name)
        label = label or f'{getattr(module, "__name__", module)}.{name}'
        trace = self

        def wrapper(*a, **kw):
            return trace._op(label, real, a, kw)

        wrapper.__wrapped__ = real
        setattr(module, name, wrapper)

    def patch_builtin_open_under(self, dirpath):
        """the builtin open() itself, for every module that does not shadow it (shutil, tempfile, io users ...): opens of paths under
        `dirpath` become traced ops returning a proxy, all other opens pass through untraced.  Call AFTER patch_open(module) so that a
        module-level wrapper keeps calling the real builtin."""
        import builtins
        real = builtins.open
        trace = self
        prefix = os.path.realpath(dirpath) + os.sep

        def wrapper(path, *a, **kw):
            try:
                p = os.path.realpath(os.fspath(path)) if not isinstance(path, int) else None
            except TypeError:
                p = None
            if p is None or not p.startswith(prefix):
                return real(path, *a, **kw)
            f = trace._op('open', real, (path,) + a, kw)
            return _FileProxy(trace, f, path)

        wrapper.__wrapped__ = real
        builtins.open = wrapper

    def patch_open(self, module, name='open'):
        """`module.open(...)` (module global shadows the builtin) -> traced op returning a proxy."""
        import builtins
        real = getattr(module, name, builtins.open)
        trace = self

        def wrapper(path, *a, **kw):
            f = trace._op('open', real, (path,) + a, kw)
            return _FileProxy(trace, f, path)

        wrapper.__wrapped__ = real
        setattr(module, name, wrapper)

"""Process bootstrap shared by every check process.

* re-points sys.path at the tree under test (VERIF_REPO, default /repo — the current
  working tree; Python needs no build step), at /verif, at /verif/.deps (icontract/deal
  installed offline by bin/setup) and, LAST, at /verif/shims (inert stand-ins for
  third-party packages that are absent from this sandbox; a real package would win).
* sets PROTOCOL_BUFFERS_PYTHON_IMPLEMENTATION=python (the repo's protoc-3 *_pb2 files
  cannot be loaded by the C/upb runtime of protobuf 7).
* imports lbry.wallet before lbry.conf (circular import otherwise).
"""
import os
import sys

VERIF = os.path.dirname(os.path.dirname(os.path.abspath(__file__)))
REPO = os.environ.get('VERIF_REPO', '/repo')
GUARD = 'LBRY_SDK_VERIF'


def child_env(extra=None):
    env = dict(os.environ)
    env.update({
        'PROTOCOL_BUFFERS_PYTHON_IMPLEMENTATION': 'python',
        'PYTHONHASHSEED': '0',
        'PYTHONDONTWRITEBYTECODE': '1',
        'PIP_NO_INDEX': '1',
        'VERIF_REPO': REPO,
        GUARD: '1',
        'PYTHONPATH': os.pathsep.join([REPO, VERIF, os.path.join(VERIF, '.deps'),
                                       os.path.join(VERIF, 'shims')]),
        'HOME': os.environ.get('HOME', '/root'),
    })
    env.pop('PYTHONSTARTUP', None)
    if extra:
        env.update(extra)
    return env


def setup_path():
    os.environ.setdefault('PROTOCOL_BUFFERS_PYTHON_IMPLEMENTATION', 'python')
    os.environ.setdefault(GUARD, '1')
    want = [REPO, VERIF, os.path.join(VERIF, '.deps')]
    for p in reversed(want):
        if p in sys.path:
            sys.path.remove(p)
        sys.path.insert(0, p)
    shim = os.path.join(VERIF, 'shims')
    if shim in sys.path:
        sys.path.remove(shim)
    sys.path.append(shim)


def import_lbry():
    setup_path()
    import logging
    logging.disable(logging.CRITICAL)
    import lbry.wallet  # noqa: F401  (must precede lbry.conf)
    import lbry
    here = os.path.realpath(os.path.dirname(os.path.dirname(lbry.__file__)))
    if here != os.path.realpath(REPO):
        raise RuntimeError(f"lbry imported from {here}, expected {REPO}")
    return lbry

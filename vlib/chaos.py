"""Chaos scheduler (DESIGN §3.4): seeded yields at EXISTING suspension points only.

`install_db(chaos)` wraps lbry.wallet.database.AIOSQLite.run (every sqlite statement of the wallet
goes through it and it already awaits) with `await chaos.point()` before and after the real call, so
the select / reserve / release / save calls of concurrent tasks complete in seed-chosen orders.
Each completion is appended to an interleaving signature (task name + label)."""
import asyncio
import hashlib
import random


class Chaos:
    def __init__(self, seed, max_yields=6, decisions=None):
        self.rng = random.Random(seed)
        self.max_yields = max_yields
        self.sig = hashlib.blake2b(digest_size=8)
        self.points = 0
        self.trace = []
        self.decisions = decisions      # replayed decision list (optional)
        self.enabled = True

    async def point(self, label):
        if not self.enabled:
            return
        self.points += 1
        if self.decisions is not None:
            n = self.decisions.pop(0) if self.decisions else 0
        else:
            n = self.rng.choice([0, 0, 0, 1, 1, 2, 3, self.max_yields])
        for _ in range(n):
            await asyncio.sleep(0)
        t = asyncio.current_task()
        name = t.get_name() if t else '-'
        if name.startswith('Task-'):
            name = 'T'
        self.sig.update(f'{name}|{label};'.encode())
        if len(self.trace) < 400:
            self.trace.append(f'{name}|{label}')

    def signature(self):
        return self.sig.hexdigest()


_installed = {}


def install_db(chaos):
    """patch AIOSQLite.run on the class (looked up at call time by all callers)."""
    from lbry.wallet.database import AIOSQLite
    if 'orig_run' not in _installed:
        _installed['orig_run'] = AIOSQLite.run
    orig = _installed['orig_run']

    async def run(self, fun, *args, **kwargs):
        label = getattr(fun, '__name__', 'fn')
        await chaos.point('db:' + label + ':pre')
        try:
            return await orig(self, fun, *args, **kwargs)
        finally:
            await chaos.point('db:' + label + ':post')
    AIOSQLite.run = run


def uninstall_db():
    if 'orig_run' in _installed:
        from lbry.wallet.database import AIOSQLite
        AIOSQLite.run = _installed['orig_run']

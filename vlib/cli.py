import argparse
import os
import sys

sys.path.insert(0, os.path.dirname(os.path.dirname(os.path.abspath(__file__))))
from vlib import core  # noqa: E402


def main():
    ap = argparse.ArgumentParser()
    ap.add_argument('prop')
    ap.add_argument('--tier', default=os.environ.get('VERIF_TIER', 'quick'), choices=['quick', 'thorough'])
    ap.add_argument('--seed', type=int, default=int(os.environ.get('VERIF_SEED', '0')))
    ap.add_argument('--replay')
    a = ap.parse_args()
    sys.exit(core.parent_main(a.prop, a.tier, a.seed, a.replay))


main()

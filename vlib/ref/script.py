"""Independent reference for Bitcoin/LBRY script *structure* (DESIGN §3.6, used by C15).

Written from the public specifications only (Bitcoin script wire format: opcode byte,
direct pushes 0x01..0x4b, OP_PUSHDATA1/2/4 with little-endian length; LBRY claim-script
forms from spec.lbry.com / lbrycrd nameclaim: OP_CLAIM_NAME <name> <value> OP_2DROP OP_DROP
<pay>, OP_UPDATE_CLAIM <name> <claimId> <value> OP_2DROP OP_2DROP <pay>,
OP_SUPPORT_CLAIM <name> <claimId> [<data> OP_2DROP] OP_2DROP|OP_DROP <pay>).
It imports nothing from lbry and shares no code with it.

Conventions (as in Bitcoin's GetOp / lbrycrd DecodeClaimScript):
  * a *data push* is any opcode 0x00..0x4e; OP_0 (0x00) pushes the empty string;
    OP_1NEGATE / OP_1..OP_16 are ordinary opcodes, NOT data pushes;
  * a push whose length field or payload runs past the end of the script makes the whole
    script malformed (no opcode sequence) -> it matches no pattern;
  * non-minimal pushes are still data pushes (they carry the same payload);
  * minimal = the shortest push *form for that length*: <=75 direct, <=255 PUSHDATA1,
    <=65535 PUSHDATA2, else PUSHDATA4 (the property speaks of "minimal push encoding at
    every data length"; BIP62's OP_n rule for one-byte values is deliberately not applied).
"""
import struct

# opcode numbers from the Bitcoin wiki "Script" page and LBRY's lbrycrd script.h
OP_0 = 0x00
OP_PUSHDATA1, OP_PUSHDATA2, OP_PUSHDATA4 = 0x4c, 0x4d, 0x4e
OP_1NEGATE, OP_RESERVED, OP_1, OP_16 = 0x4f, 0x50, 0x51, 0x60
OP_VERIFY, OP_RETURN = 0x69, 0x6a
OP_2DROP, OP_DROP, OP_DUP = 0x6d, 0x75, 0x76
OP_EQUAL, OP_EQUALVERIFY = 0x87, 0x88
OP_HASH160 = 0xa9
OP_CHECKSIG, OP_CHECKMULTISIG = 0xac, 0xae
OP_CHECKLOCKTIMEVERIFY = 0xb1
OP_CLAIM_NAME, OP_SUPPORT_CLAIM, OP_UPDATE_CLAIM = 0xb5, 0xb6, 0xb7

FORMS = ('direct', 'pd1', 'pd2', 'pd4')


class Malformed(Exception):
    def __init__(self, reason, offset):
        super().__init__(f'{reason} at offset {offset}')
        self.reason, self.offset = reason, offset


class Tok:
    """one script element: op (int); data (bytes) and form for data pushes, else None."""
    __slots__ = ('op', 'data', 'form', 'start', 'end')

    def __init__(self, op, data, form, start, end):
        self.op, self.data, self.form, self.start, self.end = op, data, form, start, end

    @property
    def is_push(self):
        return self.data is not None

    @property
    def minimal(self):
        return self.is_push and self.form == minimal_form(len(self.data))

    def __repr__(self):
        if self.is_push:
            d = self.data.hex() if len(self.data) <= 12 else f'{self.data[:6].hex()}..({len(self.data)}B)'
            return f'<{self.form}:{d}>'
        return f'0x{self.op:02x}'


def minimal_form(n):
    if n <= 75:
        return 'direct'
    if n <= 0xff:
        return 'pd1'
    if n <= 0xffff:
        return 'pd2'
    if n <= 0xffffffff:
        return 'pd4'
    raise ValueError('too long for a script push')


def form_allows(form, n):
    return {'direct': n <= 75, 'pd1': n <= 0xff, 'pd2': n <= 0xffff, 'pd4': n <= 0xffffffff}[form]


def push(data, form=None):
    """bytes of a data push of `data`; minimal form for its length unless `form` is given."""
    data = bytes(data)
    n = len(data)
    form = form or minimal_form(n)
    if not form_allows(form, n):
        raise ValueError(f'{form} cannot carry {n} bytes')
    if form == 'direct':
        return bytes([n]) + data
    if form == 'pd1':
        return bytes([OP_PUSHDATA1, n]) + data
    if form == 'pd2':
        return bytes([OP_PUSHDATA2]) + struct.pack('<H', n) + data
    return bytes([OP_PUSHDATA4]) + struct.pack('<I', n) + data


def tokenize(src):
    """-> [Tok]; raises Malformed if a push runs past the end."""
    src = bytes(src)
    out, i, n = [], 0, len(src)
    while i < n:
        start = i
        op = src[i]
        i += 1
        if op > OP_PUSHDATA4:
            out.append(Tok(op, None, None, start, i))
            continue
        if op < OP_PUSHDATA1:
            size, form = op, 'direct'
        else:
            width = {OP_PUSHDATA1: 1, OP_PUSHDATA2: 2, OP_PUSHDATA4: 4}[op]
            if i + width > n:
                raise Malformed('truncated-length', start)
            size = int.from_bytes(src[i:i + width], 'little')
            i += width
            form = {1: 'pd1', 2: 'pd2', 4: 'pd4'}[width]
        if i + size > n:
            raise Malformed('truncated-data', start)
        out.append(Tok(op, src[i:i + size], form, start, i + size))
        i += size
    return out


def scriptnum_encode(n):
    """Bitcoin CScriptNum serialisation (minimal little-endian sign-magnitude)."""
    if n == 0:
        return b''
    neg, a = n < 0, abs(n)
    out = bytearray()
    while a:
        out.append(a & 0xff)
        a >>= 8
    if out[-1] & 0x80:
        out.append(0x80 if neg else 0x00)
    elif neg:
        out[-1] |= 0x80
    return bytes(out)


def scriptnum_decode(b):
    """inverse of scriptnum_encode, tolerant of padding (sign-magnitude, little-endian)."""
    if not b:
        return 0
    v = int.from_bytes(b, 'little')
    if b[-1] & 0x80:
        return -(v & ~(0x80 << (8 * (len(b) - 1))))
    return v


# ---------------------------------------------------------------- pattern tables
P = 'P'   # any data push (opcode 0x00..0x4e)

PAY_TAILS = {
    'pay_pubkey_hash': ((OP_DUP, OP_HASH160, P, OP_EQUALVERIFY, OP_CHECKSIG), ('pubkey_hash',)),
    'pay_script_hash': ((OP_HASH160, P, OP_EQUAL), ('script_hash',)),
}
CLAIM_HEADS = {
    'claim_name': ((OP_CLAIM_NAME, P, P, OP_2DROP, OP_DROP), ('claim_name', 'claim')),
    'support_claim': ((OP_SUPPORT_CLAIM, P, P, OP_2DROP, OP_DROP), ('claim_name', 'claim_id')),
    'support_claim+data': ((OP_SUPPORT_CLAIM, P, P, P, OP_2DROP, OP_2DROP), ('claim_name', 'claim_id', 'support')),
    'update_claim': ((OP_UPDATE_CLAIM, P, P, P, OP_2DROP, OP_2DROP), ('claim_name', 'claim_id', 'claim')),
}
OUTPUT_PATTERNS = {
    'pay_pubkey_full': ((P, OP_CHECKSIG), ('pubkey',)),
    'pay_script_hash+segwit': ((OP_0, P), ('script_hash',)),
    'return_data': ((OP_RETURN, P), ('data',)),
}
OUTPUT_PATTERNS.update(PAY_TAILS)
for _h, (_hp, _hn) in CLAIM_HEADS.items():
    for _t, (_tp, _tn) in PAY_TAILS.items():
        OUTPUT_PATTERNS[f'{_h}+{_t}'] = (_hp + _tp, _hn + _tn)

TIMELOCK_PATTERN = ((P, OP_CHECKLOCKTIMEVERIFY, OP_DROP, OP_DUP, OP_HASH160, P, OP_EQUALVERIFY, OP_CHECKSIG),
                    ('height', 'pubkey_hash'))
INPUT_PATTERNS = {
    'pubkey': ((P,), ('signature',)),
    'pubkey_hash': ((P, P), ('signature', 'pubkey')),
    'script_hash+timelock': ((P, P, P), ('signature', 'pubkey', 'script')),
}


def match(pattern, toks):
    """exact, whole-script match of a token list against a pattern -> list of push payloads or None."""
    if len(pattern) != len(toks):
        return None
    pushes = []
    for want, t in zip(pattern, toks):
        if want == P:
            if not t.is_push:
                return None
            pushes.append(t.data)
        elif t.op != want:
            return None
    return pushes


class Verdict:
    """result of classify_*: name (pattern name or None), values {slot: bytes}, malformed reason or None,
    all matching names (len > 1 would mean the pattern table itself is ambiguous)."""
    __slots__ = ('name', 'values', 'malformed', 'all_names', 'tokens')

    def __init__(self, name, values, malformed, all_names, tokens):
        self.name, self.values, self.malformed, self.all_names, self.tokens = name, values, malformed, all_names, tokens

    # ---- what the opcodes say (derived from structure, not from the name string)
    @property
    def head(self):
        if self.name is None:
            return None
        for h in sorted(CLAIM_HEADS, key=len, reverse=True):
            if self.name.startswith(h + '+pay_'):
                return h
        return None

    @property
    def tail(self):
        if self.name is None:
            return None
        for t in PAY_TAILS:
            if self.name == t or self.name.endswith('+' + t):
                return t
        return None

    def predicates(self):
        h, t = self.head, self.tail
        return {
            'is_claim_name': h == 'claim_name',
            'is_update_claim': h == 'update_claim',
            'is_support_claim': h in ('support_claim', 'support_claim+data'),
            'is_support_claim_data': h == 'support_claim+data',
            'is_claim_involved': h is not None,
            'is_return_data': self.name == 'return_data',
            'is_pay_pubkey_hash': t == 'pay_pubkey_hash',
            'is_pay_script_hash': t == 'pay_script_hash',
            'is_pay_pubkey': self.name == 'pay_pubkey_full',
        }

    @property
    def kind(self):
        """claim | update | support | purchase-or-data | payment | none  (the property's five words)."""
        h = self.head
        if h == 'claim_name':
            return 'claim'
        if h == 'update_claim':
            return 'update'
        if h in ('support_claim', 'support_claim+data'):
            return 'support'
        if self.name == 'return_data':
            return 'data'
        if self.name in ('pay_pubkey_hash', 'pay_script_hash', 'pay_pubkey_full', 'pay_script_hash+segwit'):
            return 'payment'
        return 'none'


def _classify(src, table):
    try:
        toks = tokenize(src)
    except Malformed as e:
        return Verdict(None, {}, e.reason, [], None)
    hits = []
    for name, (pattern, slots) in table.items():
        pushes = match(pattern, toks)
        if pushes is not None:
            hits.append((name, dict(zip(slots, pushes))))
    if not hits:
        return Verdict(None, {}, None, [], toks)
    return Verdict(hits[0][0], hits[0][1], None, [h[0] for h in hits], toks)


def classify_output(src):
    return _classify(src, OUTPUT_PATTERNS)


def classify_input(src):
    """pubkey / pubkey_hash / script_hash+timelock (third push must itself be a time-lock script whose
    height is a non-empty push); multi-signature forms are outside the property and not modelled."""
    v = _classify(src, INPUT_PATTERNS)
    if v.name == 'script_hash+timelock':
        sub = classify_timelock(v.values['script'])
        if sub.name is None:
            return Verdict(None, {}, None, [], v.tokens)
        v.values = dict(v.values, script=sub.values)
    return v


def classify_timelock(src):
    v = _classify(src, {'timelock': TIMELOCK_PATTERN})
    if v.name:
        v.values = {'height': scriptnum_decode(v.values['height']), 'height_raw': v.values['height'],
                    'pubkey_hash': v.values['pubkey_hash']}
    return v


def build(pattern, pushes, forms=None):
    """assemble a script from a pattern and payloads (minimal pushes unless forms[i] given)."""
    out, k = bytearray(), 0
    for want in pattern:
        if want == P:
            out += push(pushes[k], forms[k] if forms else None)
            k += 1
        else:
            out.append(want)
    return bytes(out)


def reencode(toks, forms):
    """re-serialise tokens using forms[i] for the i-th push (None = keep)."""
    out, k = bytearray(), 0
    for t in toks:
        if t.is_push:
            f = forms[k] if k < len(forms) else None
            k += 1
            if f is None:
                f = t.form
            if f == 'direct' and len(t.data) == 0:
                out.append(OP_0)
            else:
                out += push(t.data, f)
        else:
            out.append(t.op)
    return bytes(out)


# ---------------------------------------------------------------- self check
def self_check(vectors):
    """vectors: list of dicts {script, side: 'output'|'input', name, values{slot: hex|int}, minimal: bool}.
    Raises AssertionError on any disagreement between this module and the fixed public vectors."""
    # push-form boundaries from the Bitcoin script specification
    for n, head in ((0, b'\x00'), (1, b'\x01'), (75, b'\x4b'), (76, b'\x4c\x4c'), (255, b'\x4c\xff'),
                    (256, b'\x4d\x00\x01'), (65535, b'\x4d\xff\xff'), (65536, b'\x4e\x00\x00\x01\x00')):
        enc = push(b'\xaa' * n)
        assert enc[:len(head)] == head and len(enc) == len(head) + n, ('push boundary', n)
        t = tokenize(enc)
        assert len(t) == 1 and t[0].data == b'\xaa' * n and t[0].minimal, ('tokenize boundary', n)
    assert not tokenize(b'\x4c\x01\xaa')[0].minimal and not tokenize(b'\x4d\x4c\x00' + b'a' * 76)[0].minimal
    for bad in (b'\x05\x01', b'\x4c', b'\x4d\x01', b'\x4e\x01\x00\x00', b'\x4c\x02\x00', b'\x6a\x4c'):
        try:
            tokenize(bad)
        except Malformed:
            pass
        else:
            raise AssertionError(('truncated push accepted', bad.hex()))
    # CScriptNum vectors (Bitcoin Core script_tests / BIP65 examples)
    for n, enc in ((0, ''), (1, '01'), (127, '7f'), (128, '8000'), (255, 'ff00'), (256, '0001'), (32767, 'ff7f'),
                   (32768, '008000'), (717738, 'aaf30a'), (500000000, '0065cd1d'), (2147483647, 'ffffff7f'),
                   (2147483648, '0000008000'), (-1, '81'), (-128, '8080')):
        assert scriptnum_encode(n).hex() == enc, ('scriptnum', n)
        assert scriptnum_decode(bytes.fromhex(enc)) == n, ('scriptnum decode', n)
    # the pattern table must be unambiguous by construction
    names = list(OUTPUT_PATTERNS)
    assert len(names) == 13, names
    for v in vectors:
        src = bytes.fromhex(v['script'])
        got = classify_output(src) if v['side'] == 'output' else classify_input(src)
        assert got.name == v['name'], ('vector class', v['script'][:40], got.name, v['name'])
        assert len(got.all_names) <= 1, ('ambiguous', got.all_names)
        for slot, want in v.get('values', {}).items():
            have = got.values[slot]
            if isinstance(have, dict):
                for s2, w2 in want.items():
                    h2 = have[s2]
                    assert (h2 == w2) if isinstance(w2, int) else (h2.hex() == w2), ('vector sub value', slot, s2)
            else:
                assert have.hex() == want, ('vector value', v['script'][:40], slot)
        if 'minimal' in v and got.tokens is not None:
            assert all(t.minimal for t in got.tokens if t.is_push) == v['minimal'], ('vector minimal', v['script'][:40])
        if v.get('kind'):
            assert got.kind == v['kind'], ('vector kind', v['script'][:40], got.kind)
    return len(vectors)

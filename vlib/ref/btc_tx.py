"""Independent reference for the Bitcoin/LBRY transaction wire format.

Written for this harness from the public specifications only (Bitcoin developer
reference "Raw Transaction Format" / "CompactSize Unsigned Integers", BIP141/BIP144 for
the marker/flag/witness layout, the legacy signature-hash algorithm of OP_CHECKSIG, the
script push-data rules, and spec.lbry.com for the three LBRY claim opcodes).  It shares NO
code with lbry: plain `int.to_bytes`, `hashlib`, explicit offsets.

Public API
----------
  compact_size(n) -> bytes                     read via Reader.compact()
  TxIn(prev_hash, prev_index, script, sequence) · TxOut(amount, script)
  Tx(version, inputs, outputs, locktime, witnesses=None)
  encode_legacy(tx, layout=None) -> bytes      (layout: list that receives (offset, label))
  encode_bip144(tx) -> bytes                   (tx.witnesses: one list of byte strings per input)
  decode(raw, strict=True) -> Tx               (auto-detects BIP144 marker 00 / flag 01)
  txid(tx) -> str · tx_hash(tx) -> bytes · wtxid(tx) -> str
  sighash_all_preimage(tx, input_index, spent_script) -> bytes     (re-used by C04)
  sighash_all_digest(tx, input_index, spent_script) -> bytes      (SHA256d of the preimage)
  script assembly: push, script_num, p2pkh, p2sh, p2pk, witness_program, op_return,
                   claim_name, update_claim, support_claim, support_claim_data,
                   redeem_p2pkh, timelock_script, redeem_timelock, multisig_script, redeem_multisig
  selftest() -> int      cross-checks this module against fixed public vectors, raises on mismatch
"""
import hashlib

U32_MAX = 0xFFFFFFFF
U64_MAX = 0xFFFFFFFFFFFFFFFF
SIGHASH_ALL = 1


class TxDecodeError(ValueError):
    pass


def sha256d(data: bytes) -> bytes:
    return hashlib.sha256(hashlib.sha256(data).digest()).digest()


def _le(n: int, width: int) -> bytes:
    if not isinstance(n, int) or isinstance(n, bool) or n < 0 or n >= 1 << (8 * width):
        raise ValueError(f'{n!r} does not fit an unsigned {8 * width}-bit field')
    return n.to_bytes(width, 'little')


def compact_size(n: int) -> bytes:
    """CompactSize: <=252 one byte; <=0xffff 0xfd+2; <=0xffffffff 0xfe+4; else 0xff+8."""
    if not isinstance(n, int) or n < 0 or n > U64_MAX:
        raise ValueError(f'compact size out of range: {n!r}')
    if n <= 252:
        return bytes([n])
    if n <= 0xFFFF:
        return b'\xfd' + n.to_bytes(2, 'little')
    if n <= 0xFFFFFFFF:
        return b'\xfe' + n.to_bytes(4, 'little')
    return b'\xff' + n.to_bytes(8, 'little')


class Reader:
    __slots__ = ('buf', 'pos', 'strict')

    def __init__(self, buf: bytes, strict=True):
        self.buf, self.pos, self.strict = bytes(buf), 0, strict

    def take(self, n: int) -> bytes:
        if n < 0 or self.pos + n > len(self.buf):
            raise TxDecodeError(f'truncated: need {n} bytes at offset {self.pos}, have {len(self.buf) - self.pos}')
        out = self.buf[self.pos:self.pos + n]
        self.pos += n
        return out

    def uint(self, width: int) -> int:
        return int.from_bytes(self.take(width), 'little')

    def compact(self) -> int:
        at = self.pos
        first = self.uint(1)
        if first <= 252:
            return first
        width, floor = {253: (2, 253), 254: (4, 0x10000), 255: (8, 0x100000000)}[first]
        n = self.uint(width)
        if self.strict and n < floor:
            raise TxDecodeError(f'non-canonical compact size at offset {at}: {n} encoded with prefix {first:#x}')
        return n

    def remaining(self) -> int:
        return len(self.buf) - self.pos


class TxIn:
    __slots__ = ('prev_hash', 'prev_index', 'script', 'sequence')

    def __init__(self, prev_hash: bytes, prev_index: int, script: bytes, sequence: int = U32_MAX):
        self.prev_hash, self.prev_index, self.script, self.sequence = bytes(prev_hash), prev_index, bytes(script), sequence

    def key(self):
        return (self.prev_hash, self.prev_index, self.script, self.sequence)

    def __eq__(self, other):
        return isinstance(other, TxIn) and self.key() == other.key()

    def __repr__(self):
        return f'TxIn({self.prev_hash.hex()}:{self.prev_index}, script[{len(self.script)}], seq={self.sequence:#x})'


class TxOut:
    __slots__ = ('amount', 'script')

    def __init__(self, amount: int, script: bytes):
        self.amount, self.script = amount, bytes(script)

    def key(self):
        return (self.amount, self.script)

    def __eq__(self, other):
        return isinstance(other, TxOut) and self.key() == other.key()

    def __repr__(self):
        return f'TxOut({self.amount}, script[{len(self.script)}])'


class Tx:
    __slots__ = ('version', 'inputs', 'outputs', 'locktime', 'witnesses')

    def __init__(self, version, inputs, outputs, locktime, witnesses=None):
        self.version, self.inputs, self.outputs, self.locktime = version, list(inputs), list(outputs), locktime
        self.witnesses = None if witnesses is None else [[bytes(i) for i in st] for st in witnesses]

    def core(self):
        return (self.version, [i.key() for i in self.inputs], [o.key() for o in self.outputs], self.locktime)

    def __eq__(self, other):
        return isinstance(other, Tx) and self.core() == other.core() and self.witnesses == other.witnesses

    def __repr__(self):
        return (f'Tx(v={self.version}, in={len(self.inputs)}, out={len(self.outputs)}, lock={self.locktime}, '
                f'witness={"yes" if self.witnesses is not None else "no"})')


# ------------------------------------------------------------------------------ encoding
class _Out:
    """byte accumulator that can record (offset, label) marks for a field layout"""
    __slots__ = ('parts', 'pos', 'layout')

    def __init__(self, layout=None):
        self.parts, self.pos, self.layout = [], 0, layout

    def put(self, data: bytes, label=None):
        if label is not None and self.layout is not None:
            self.layout.append((self.pos, label))
        self.parts.append(data)
        self.pos += len(data)

    def done(self) -> bytes:
        return b''.join(self.parts)


def _emit_inputs(tx, out, script_override=None):
    out.put(compact_size(len(tx.inputs)), 'input-count')
    for k, txin in enumerate(tx.inputs):
        if len(txin.prev_hash) != 32:
            raise ValueError('previous tx hash must be 32 bytes')
        script = txin.script if script_override is None else script_override(k, txin)
        out.put(txin.prev_hash, f'in[{k}].prev-hash')
        out.put(_le(txin.prev_index, 4), f'in[{k}].prev-index')
        out.put(compact_size(len(script)), f'in[{k}].script-length')
        out.put(script, f'in[{k}].script')
        out.put(_le(txin.sequence, 4), f'in[{k}].sequence')


def _emit_outputs(tx, out):
    out.put(compact_size(len(tx.outputs)), 'output-count')
    for k, txout in enumerate(tx.outputs):
        out.put(_le(txout.amount, 8), f'out[{k}].amount')
        out.put(compact_size(len(txout.script)), f'out[{k}].script-length')
        out.put(txout.script, f'out[{k}].script')


def encode_legacy(tx: Tx, layout=None) -> bytes:
    """version(4 LE) | #in | {hash32 index4 scriptlen script seq4}* | #out | {amount8 scriptlen script}* | locktime(4)"""
    out = _Out(layout)
    out.put(_le(tx.version, 4), 'version')
    _emit_inputs(tx, out)
    _emit_outputs(tx, out)
    out.put(_le(tx.locktime, 4), 'locktime')
    return out.done()


def encode_bip144(tx: Tx, layout=None) -> bytes:
    """version | 00 (marker) | 01 (flag) | inputs | outputs | per input: #items {len item}* | locktime"""
    if tx.witnesses is None or len(tx.witnesses) != len(tx.inputs):
        raise ValueError('BIP144 needs exactly one witness stack per input')
    out = _Out(layout)
    out.put(_le(tx.version, 4), 'version')
    out.put(b'\x00\x01', 'marker-flag')
    _emit_inputs(tx, out)
    _emit_outputs(tx, out)
    for k, stack in enumerate(tx.witnesses):
        out.put(compact_size(len(stack)), f'witness[{k}]')
        for item in stack:
            out.put(compact_size(len(item)))
            out.put(item)
    out.put(_le(tx.locktime, 4), 'locktime')
    return out.done()


def region_of(layout, offset):
    """label of the field that contains byte `offset` in an encoding produced with layout=[]"""
    label = 'before-start'
    for off, name in layout:
        if off <= offset:
            label = name
        else:
            break
    return label


def field_class(label):
    """'in[17].script' -> 'in.script' (stable mechanism class)"""
    if '[' in label:
        return label[:label.index('[')] + label[label.index(']') + 1:]
    return label


def first_difference(expected: bytes, got: bytes, layout):
    """(offset, field label, field class) of the first differing byte, None if equal."""
    if expected == got:
        return None
    n = min(len(expected), len(got))
    off = next((i for i in range(n) if expected[i] != got[i]), n)
    label = region_of(layout, off) if off < len(expected) else 'beyond-end'
    return off, label, field_class(label)


# ------------------------------------------------------------------------------ decoding
def decode(raw: bytes, strict=True) -> Tx:
    r = Reader(raw, strict)
    version = r.uint(4)
    segwit = False
    if r.remaining() >= 2 and r.buf[r.pos] == 0 and r.buf[r.pos + 1] == 1:
        segwit = True
        r.take(2)
    n_in = r.compact()
    if n_in > r.remaining() // 41 + 1:
        raise TxDecodeError(f'input count {n_in} impossible for {r.remaining()} remaining bytes')
    inputs = []
    for _ in range(n_in):
        prev_hash = r.take(32)
        prev_index = r.uint(4)
        script = r.take(r.compact())
        sequence = r.uint(4)
        inputs.append(TxIn(prev_hash, prev_index, script, sequence))
    n_out = r.compact()
    if n_out > r.remaining() // 9 + 1:
        raise TxDecodeError(f'output count {n_out} impossible for {r.remaining()} remaining bytes')
    outputs = []
    for _ in range(n_out):
        amount = r.uint(8)
        script = r.take(r.compact())
        outputs.append(TxOut(amount, script))
    witnesses = None
    if segwit:
        witnesses = []
        for _ in range(n_in):
            n_items = r.compact()
            if n_items > r.remaining() + 1:
                raise TxDecodeError('witness item count impossible')
            witnesses.append([r.take(r.compact()) for _ in range(n_items)])
    locktime = r.uint(4)
    if strict and r.remaining():
        raise TxDecodeError(f'{r.remaining()} trailing bytes after locktime')
    return Tx(version, inputs, outputs, locktime, witnesses)


# ------------------------------------------------------------------------------ ids
def tx_hash(tx: Tx) -> bytes:
    """SHA256d of the serialisation WITHOUT marker, flag and witnesses (internal byte order)."""
    return sha256d(encode_legacy(tx))


def txid(tx: Tx) -> str:
    return tx_hash(tx)[::-1].hex()


def wtxid(tx: Tx) -> str:
    return sha256d(encode_bip144(tx) if tx.witnesses is not None else encode_legacy(tx))[::-1].hex()


# ------------------------------------------------------------------------------ signature hash
def sighash_all_preimage(tx: Tx, input_index: int, spent_script: bytes) -> bytes:
    """Legacy (pre-segwit) signature-hash preimage for hash type SIGHASH_ALL.

    Copy of the transaction in which every input script is emptied, the script of input
    `input_index` is replaced by the script code of the output being spent (`spent_script`:
    the previous scriptPubKey, or the redeem script for P2SH — the caller passes it as is; no
    OP_CODESEPARATOR / FindAndDelete processing is applied because the standard templates
    contain neither), all sequences and outputs kept, followed by the 4-byte little-endian
    hash type 0x00000001.  The message that is signed is SHA256d of these bytes."""
    if not 0 <= input_index < len(tx.inputs):
        raise IndexError('input_index out of range')
    spent_script = bytes(spent_script)
    out = _Out()
    out.put(_le(tx.version, 4))
    _emit_inputs(tx, out, script_override=lambda k, txin: spent_script if k == input_index else b'')
    _emit_outputs(tx, out)
    out.put(_le(tx.locktime, 4))
    out.put(_le(SIGHASH_ALL, 4))
    return out.done()


def sighash_all_digest(tx: Tx, input_index: int, spent_script: bytes) -> bytes:
    return sha256d(sighash_all_preimage(tx, input_index, spent_script))


# ------------------------------------------------------------------------------ script assembly
OP_0, OP_PUSHDATA1, OP_PUSHDATA2, OP_PUSHDATA4 = 0x00, 0x4c, 0x4d, 0x4e
OP_RETURN, OP_2DROP, OP_DROP, OP_DUP, OP_EQUAL, OP_EQUALVERIFY = 0x6a, 0x6d, 0x75, 0x76, 0x87, 0x88
OP_HASH160, OP_CHECKSIG, OP_CHECKMULTISIG, OP_CHECKLOCKTIMEVERIFY = 0xa9, 0xac, 0xae, 0xb1
OP_CLAIM_NAME, OP_SUPPORT_CLAIM, OP_UPDATE_CLAIM = 0xb5, 0xb6, 0xb7      # spec.lbry.com (OP_NOP6..8)


def push(data: bytes) -> bytes:
    """direct push: len<76 -> len byte; <=0xff -> 4c len8; <=0xffff -> 4d len16; else 4e len32 (empty -> OP_0)"""
    data = bytes(data)
    n = len(data)
    if n < 0x4c:
        return bytes([n]) + data
    if n <= 0xFF:
        return bytes([OP_PUSHDATA1, n]) + data
    if n <= 0xFFFF:
        return bytes([OP_PUSHDATA2]) + n.to_bytes(2, 'little') + data
    return bytes([OP_PUSHDATA4]) + n.to_bytes(4, 'little') + data


def script_num(n: int) -> bytes:
    """CScriptNum byte vector: little-endian magnitude, sign in the top bit of the last byte."""
    if n == 0:
        return b''
    mag, out = abs(n), bytearray()
    while mag:
        out.append(mag & 0xFF)
        mag >>= 8
    if out[-1] & 0x80:
        out.append(0x80 if n < 0 else 0x00)
    elif n < 0:
        out[-1] |= 0x80
    return bytes(out)


def small_int(n: int) -> bytes:
    if not 1 <= n <= 16:
        raise ValueError('OP_1..OP_16 only')
    return bytes([0x50 + n])


def p2pkh(pubkey_hash):
    return bytes([OP_DUP, OP_HASH160]) + push(pubkey_hash) + bytes([OP_EQUALVERIFY, OP_CHECKSIG])


def p2sh(script_hash):
    return bytes([OP_HASH160]) + push(script_hash) + bytes([OP_EQUAL])


def p2pk(pubkey):
    return push(pubkey) + bytes([OP_CHECKSIG])


def witness_program(program):
    return bytes([OP_0]) + push(program)


def op_return(data):
    return bytes([OP_RETURN]) + push(data)


def claim_name(name: bytes, value: bytes, tail: bytes):
    return bytes([OP_CLAIM_NAME]) + push(name) + push(value) + bytes([OP_2DROP, OP_DROP]) + tail


def update_claim(name: bytes, claim_id: bytes, value: bytes, tail: bytes):
    return bytes([OP_UPDATE_CLAIM]) + push(name) + push(claim_id) + push(value) + bytes([OP_2DROP, OP_2DROP]) + tail


def support_claim(name: bytes, claim_id: bytes, tail: bytes):
    return bytes([OP_SUPPORT_CLAIM]) + push(name) + push(claim_id) + bytes([OP_2DROP, OP_DROP]) + tail


def support_claim_data(name: bytes, claim_id: bytes, value: bytes, tail: bytes):
    return bytes([OP_SUPPORT_CLAIM]) + push(name) + push(claim_id) + push(value) + bytes([OP_2DROP, OP_2DROP]) + tail


def redeem_p2pkh(signature, pubkey):
    return push(signature) + push(pubkey)


def timelock_script(height: int, pubkey_hash):
    return push(script_num(height)) + bytes([OP_CHECKLOCKTIMEVERIFY, OP_DROP]) + p2pkh(pubkey_hash)


def redeem_timelock(signature, pubkey, script):
    return push(signature) + push(pubkey) + push(script)


def multisig_script(m: int, pubkeys):
    return small_int(m) + b''.join(push(p) for p in pubkeys) + small_int(len(pubkeys)) + bytes([OP_CHECKMULTISIG])


def redeem_multisig(signatures, script):
    return bytes([OP_0]) + b''.join(push(s) for s in signatures) + push(script)


def hash160(data: bytes) -> bytes:
    return hashlib.new('ripemd160', hashlib.sha256(data).digest()).digest()


# ------------------------------------------------------------------------------ self test
# Bitcoin main-net genesis coinbase transaction and its id (public constants).
_BTC_GENESIS_TX = (
    '01000000010000000000000000000000000000000000000000000000000000000000000000ffffffff4d04ffff001d01044554'
    '68652054696d65732030332f4a616e2f32303039204368616e63656c6c6f72206f6e206272696e6b206f66207365636f6e6420'
    '6261696c6f757420666f722062616e6b73ffffffff0100f2052a01000000434104678afdb0fe5548271967f1a67130b7105cd6'
    'a828e03909a67962e0ea1f61deb649f6bc3f4cef38c4f35504e51ec112de5c384df7ba0b8d578a4c702b6bf11d5fac00000000')
_BTC_GENESIS_TXID = '4a5e1e4baab89f3a32518a88c31bc87f618f76673e2cc77ab2127b7afdeda33b'
# BIP143 "Native P2WPKH" example: unsigned legacy serialisation, signed BIP144 serialisation, and the
# published sighash preimage-independent facts (input 0 is P2PK with a scriptSig, input 1 is P2WPKH).
_BIP143_UNSIGNED = (
    '0100000002fff7f7881a8099afa6940d42d1e7f6362bec38171ea3edf433541db4e4ad969f0000000000eeffffffef51e1b804'
    'cc89d182d279655c3aa89e815b1b309fe287d9b2b55d57b90ec68a0100000000ffffffff02202cb206000000001976a9148280'
    'b37df378db99f66f85c95a783a76ac7a6d5988ac9093510d000000001976a9143bde42dbee7e4dbe6a21b2d50ce2f0167faa81'
    '5988ac11000000')
_BIP143_SIGNED = (
    '01000000000102fff7f7881a8099afa6940d42d1e7f6362bec38171ea3edf433541db4e4ad969f00000000494830450221008b'
    '9d1dc26ba6a9cb62127b02742fa9d754cd3bebf337f7a55d114c8e5cdd30be022040529b194ba3f9281a99f2b1c0a19c0489bc'
    '22ede944ccf4ecbab4cc618ef3ed01eeffffffef51e1b804cc89d182d279655c3aa89e815b1b309fe287d9b2b55d57b90ec68a'
    '0100000000ffffffff02202cb206000000001976a9148280b37df378db99f66f85c95a783a76ac7a6d5988ac9093510d000000'
    '001976a9143bde42dbee7e4dbe6a21b2d50ce2f0167faa815988ac000247304402203609e17b84f6a7d30c80bfa610b5b4542f'
    '32a8a0d5447a12fb1366d7f01cc44a0220573a954c4518331561406f90300e8f3358f51928d43c212a8caed02de67eebee0121'
    '025476c2e83188368da1ff3e292e7acafcdb3566bb0ad253f62fc70f07aeee635711000000')
_BIP143_P2PK_PUBKEY = '03c9f4836b9a4f77fc0d81f7bcb01b7f1b35916864b9476c241ce9fc198bd25432'
_COMPACT_VECTORS = [(0, '00'), (1, '01'), (252, 'fc'), (253, 'fdfd00'), (254, 'fdfe00'), (255, 'fdff00'), (256, 'fd0001'),
                    (515, 'fd0302'), (65535, 'fdffff'), (65536, 'fe00000100'), (0xFFFFFFFF, 'feffffffff'),
                    (0x100000000, 'ff0000000001000000'), (U64_MAX, 'ffffffffffffffffff')]
_PUSH_VECTORS = [(0, '00'), (1, '01'), (75, '4b'), (76, '4c4c'), (255, '4cff'), (256, '4d0001'), (65535, '4dffff'),
                 (65536, '4e00000100')]
_SCRIPTNUM_VECTORS = [(0, ''), (1, '01'), (127, '7f'), (128, '8000'), (255, 'ff00'), (256, '0001'), (32767, 'ff7f'),
                      (32768, '008000'), (717738, 'aaf30a'), (-1, '81'), (-128, '8080'), (2 ** 31 - 1, 'ffffff7f')]


def selftest() -> int:
    """cross-check against fixed public vectors; returns the number of assertions made."""
    n = 0

    def ensure(cond, what):
        nonlocal n
        n += 1
        if not cond:
            raise AssertionError('vlib.ref.btc_tx self-test failed: ' + what)

    for value, hx in _COMPACT_VECTORS:
        ensure(compact_size(value).hex() == hx, f'compact_size({value})')
        ensure(Reader(bytes.fromhex(hx)).compact() == value, f'read compact {hx}')
    for bad in ('fd0000', 'fdfc00', 'feffff0000', 'ffffffffff00000000'):
        try:
            Reader(bytes.fromhex(bad)).compact()
            ensure(False, f'non-canonical {bad} accepted')
        except TxDecodeError:
            ensure(True, '')
    for size, hx in _PUSH_VECTORS:
        ensure(push(b'\xaa' * size)[:len(hx) // 2].hex() == hx and len(push(b'\xaa' * size)) == len(hx) // 2 + size,
               f'push prefix for {size} bytes')
    for value, hx in _SCRIPTNUM_VECTORS:
        ensure(script_num(value).hex() == hx, f'script_num({value})')
    # Bitcoin genesis coinbase: decode, re-encode, id
    raw = bytes.fromhex(_BTC_GENESIS_TX)
    tx = decode(raw)
    ensure(encode_legacy(tx) == raw, 'genesis re-encode')
    ensure(txid(tx) == _BTC_GENESIS_TXID, 'genesis txid')
    ensure(tx.version == 1 and tx.locktime == 0 and len(tx.inputs) == 1 and len(tx.outputs) == 1, 'genesis fields')
    ensure(tx.inputs[0].prev_hash == bytes(32) and tx.inputs[0].prev_index == U32_MAX, 'genesis prevout')
    ensure(tx.outputs[0].amount == 50 * 10 ** 8 and len(tx.outputs[0].script) == 67, 'genesis output')
    ensure(tx.witnesses is None, 'genesis is legacy')
    # BIP143 example: BIP144 decode -> strip witness -> the legacy bytes with input 0's scriptSig removed
    signed = decode(bytes.fromhex(_BIP143_SIGNED))
    unsigned = decode(bytes.fromhex(_BIP143_UNSIGNED))
    ensure(signed.witnesses is not None and [len(s) for s in signed.witnesses] == [0, 2], 'bip143 witness shape')
    ensure(encode_bip144(signed).hex() == _BIP143_SIGNED, 'bip143 signed re-encode')
    ensure(encode_legacy(unsigned).hex() == _BIP143_UNSIGNED, 'bip143 unsigned re-encode')
    stripped = Tx(signed.version, [TxIn(i.prev_hash, i.prev_index, b'', i.sequence) for i in signed.inputs],
                  signed.outputs, signed.locktime)
    ensure(encode_legacy(stripped).hex() == _BIP143_UNSIGNED, 'bip143 signed minus witness/scriptSig == unsigned')
    ensure(signed.locktime == 0x11 and signed.inputs[0].sequence == 0xFFFFFFEE, 'bip143 fields')
    ensure(txid(signed) != wtxid(signed), 'txid and wtxid differ for a segwit transaction')
    # legacy SIGHASH_ALL on the BIP143 example's first input (P2PK, signed the legacy way): verify the published
    # signature with the pure-Python ecdsa library over SHA256d(preimage)
    try:
        import ecdsa
        from ecdsa.util import sigdecode_der
    except ImportError:  # pragma: no cover
        ecdsa = None
    if ecdsa is not None:
        sig = signed.inputs[0].script[1:-1]     # <0x48 push> DER sig ‖ 0x01
        ensure(signed.inputs[0].script[0] == len(sig) + 1 and signed.inputs[0].script[-1] == SIGHASH_ALL, 'bip143 scriptSig shape')
        vk = ecdsa.VerifyingKey.from_string(bytes.fromhex(_BIP143_P2PK_PUBKEY), curve=ecdsa.SECP256k1)
        digest = sighash_all_digest(signed, 0, p2pk(bytes.fromhex(_BIP143_P2PK_PUBKEY)))
        try:
            ok = vk.verify_digest(sig, digest, sigdecode=sigdecode_der)
        except ecdsa.BadSignatureError:
            ok = False
        ensure(ok, 'bip143 input 0 legacy SIGHASH_ALL signature verifies over the reference preimage')
    return n

"""Independent reference for the wallet secret formats checked by C13 (DESIGN §3.6).

Written from the public texts only, sharing no code with lbry:

* AES (FIPS-197) in pure Python: S-box derived from the GF(2^8) inverse + affine map, key
  expansion, Cipher / InvCipher; CBC mode (NIST SP 800-38A §6.2); PKCS#7 padding (RFC 5652 §6.3)
  checked by hand.
* account field format (as documented by the wallet JSON and the repo's public test vectors):
      base64( IV[16] || AES-256-CBC( key = SHA256(SHA256(utf8(password))), PKCS7(utf8(text)) ) )
* sync blob format:
      base64( b's:' N b':' r b':' p b':' || IV[16] || AES-256-CBC( key = scrypt(utf8(password),
      salt=IV, N, r, p, dkLen=32), PKCS7(zlib(json)) ) )        scrypt = RFC 7914 via hashlib (OpenSSL)

`fast_*` helpers use the `cryptography` package's raw AES-CBC primitive (no padding layer) for
bulk classification of wrong-password trials; `self_check()` proves them equal to the pure
implementation on random data, and proves the pure implementation against FIPS-197 C.3,
SP 800-38A F.2.5/F.2.6, RFC 7914 §12 and the fixed wallet vectors in fixtures/c13_vectors.json.
"""
import base64
import hashlib
import json
import os
import zlib

# ------------------------------------------------------------------------------ AES (FIPS-197)


def _build_tables():
    exp, log = [0] * 512, [0] * 256
    x = 1
    for i in range(255):
        exp[i] = x
        log[x] = i
        x2 = (x << 1) ^ (0x11b if x & 0x80 else 0)     # x * 2
        x = x2 ^ x                                     # x * 3 (3 generates GF(2^8)*)
    for i in range(255, 512):
        exp[i] = exp[i - 255]
    sbox = [0] * 256
    for a in range(256):
        inv = 0 if a == 0 else exp[255 - log[a]]
        s = inv
        r = inv
        for _ in range(4):
            r = ((r << 1) | (r >> 7)) & 0xff
            s ^= r
        sbox[a] = s ^ 0x63
    inv_sbox = [0] * 256
    for a, s in enumerate(sbox):
        inv_sbox[s] = a
    return exp, log, sbox, inv_sbox


_EXP, _LOG, SBOX, INV_SBOX = _build_tables()


def _mul(a, b):
    if a == 0 or b == 0:
        return 0
    return _EXP[_LOG[a] + _LOG[b]]


def expand_key(key):
    nk = len(key) // 4
    if len(key) not in (16, 24, 32):
        raise ValueError('AES key must be 16/24/32 bytes')
    nr = nk + 6
    w = [list(key[4 * i:4 * i + 4]) for i in range(nk)]
    rcon = 1
    for i in range(nk, 4 * (nr + 1)):
        t = list(w[i - 1])
        if i % nk == 0:
            t = t[1:] + t[:1]
            t = [SBOX[b] for b in t]
            t[0] ^= rcon
            rcon = (rcon << 1) ^ (0x11b if rcon & 0x80 else 0)
        elif nk > 6 and i % nk == 4:
            t = [SBOX[b] for b in t]
        w.append([w[i - nk][j] ^ t[j] for j in range(4)])
    # round keys as flat 16-byte lists (column-major, like the state)
    return [sum((w[4 * r + c] for c in range(4)), []) for r in range(nr + 1)]


def _add(state, rk):
    return [s ^ k for s, k in zip(state, rk)]


# state layout: index = 4*col + row (bytes in input order)
_SHIFT = [(4 * ((c + r) % 4) + r) for c in range(4) for r in range(4)]          # new[4c+r] = old[4((c+r)%4)+r]
_INV_SHIFT = [(4 * ((c - r) % 4) + r) for c in range(4) for r in range(4)]


def encrypt_block(rks, block):
    s = _add(list(block), rks[0])
    nr = len(rks) - 1
    for rnd in range(1, nr + 1):
        s = [SBOX[b] for b in s]
        s = [s[i] for i in _SHIFT]
        if rnd != nr:
            n = []
            for c in range(4):
                a0, a1, a2, a3 = s[4 * c:4 * c + 4]
                n += [_mul(a0, 2) ^ _mul(a1, 3) ^ a2 ^ a3,
                      a0 ^ _mul(a1, 2) ^ _mul(a2, 3) ^ a3,
                      a0 ^ a1 ^ _mul(a2, 2) ^ _mul(a3, 3),
                      _mul(a0, 3) ^ a1 ^ a2 ^ _mul(a3, 2)]
            s = n
        s = _add(s, rks[rnd])
    return bytes(s)


def decrypt_block(rks, block):
    nr = len(rks) - 1
    s = _add(list(block), rks[nr])
    for rnd in range(nr - 1, -1, -1):
        s = [s[i] for i in _INV_SHIFT]
        s = [INV_SBOX[b] for b in s]
        s = _add(s, rks[rnd])
        if rnd != 0:
            n = []
            for c in range(4):
                a0, a1, a2, a3 = s[4 * c:4 * c + 4]
                n += [_mul(a0, 14) ^ _mul(a1, 11) ^ _mul(a2, 13) ^ _mul(a3, 9),
                      _mul(a0, 9) ^ _mul(a1, 14) ^ _mul(a2, 11) ^ _mul(a3, 13),
                      _mul(a0, 13) ^ _mul(a1, 9) ^ _mul(a2, 14) ^ _mul(a3, 11),
                      _mul(a0, 11) ^ _mul(a1, 13) ^ _mul(a2, 9) ^ _mul(a3, 14)]
            s = n
    return bytes(s)


def cbc_encrypt(key, iv, data):
    if len(data) % 16 or len(iv) != 16:
        raise ValueError('CBC needs whole blocks and a 16-byte IV')
    rks = expand_key(key)
    out, prev = bytearray(), iv
    for i in range(0, len(data), 16):
        prev = encrypt_block(rks, bytes(a ^ b for a, b in zip(data[i:i + 16], prev)))
        out += prev
    return bytes(out)


def cbc_decrypt(key, iv, data):
    if len(data) % 16 or len(iv) != 16:
        raise ValueError('CBC needs whole blocks and a 16-byte IV')
    rks = expand_key(key)
    out, prev = bytearray(), iv
    for i in range(0, len(data), 16):
        blk = data[i:i + 16]
        out += bytes(a ^ b for a, b in zip(decrypt_block(rks, blk), prev))
        prev = blk
    return bytes(out)


# ------------------------------------------------------------------------------ PKCS#7
def pkcs7_pad(data, block=16):
    n = block - len(data) % block
    return data + bytes([n]) * n


def pkcs7_unpad(data, block=16):
    """-> unpadded bytes, or None when the padding is not well formed"""
    if not data or len(data) % block:
        return None
    n = data[-1]
    if n < 1 or n > block or data[-n:] != bytes([n]) * n:
        return None
    return data[:-n]


# ------------------------------------------------------------------------------ account fields
def field_key(password):
    return hashlib.sha256(hashlib.sha256(password.encode('utf-8')).digest()).digest()


def field_encrypt(password, text, iv):
    return base64.b64encode(iv + cbc_encrypt(field_key(password), iv, pkcs7_pad(text.encode('utf-8')))).decode()


def field_decrypt(password, value, fast=False):
    """-> (text or None, iv, padding_ok).  text is None when padding or UTF-8 is invalid."""
    raw = base64.b64decode(value.encode())
    iv, data = raw[:16], raw[16:]
    dec = (fast_cbc_decrypt if fast else cbc_decrypt)(field_key(password), iv, data)
    body = pkcs7_unpad(dec)
    if body is None:
        return None, iv, False
    try:
        return body.decode('utf-8'), iv, True
    except UnicodeDecodeError:
        return None, iv, True


# ------------------------------------------------------------------------------ sync blob
def scrypt_key(password, salt, n=8192, r=16, p=1):
    return hashlib.scrypt(password.encode('utf-8'), salt=salt, n=n, r=r, p=p,
                          maxmem=128 * r * (n + p + 2) * 2 + (1 << 20), dklen=32)


def blob_encrypt(password, plaintext, iv, n=8192, r=16, p=1):
    key = scrypt_key(password, iv, n, r, p)
    header = b's:%d:%d:%d:' % (n, r, p)
    return base64.b64encode(header + iv + cbc_encrypt(key, iv, pkcs7_pad(plaintext)))


def blob_split(blob):
    raw = base64.b64decode(blob)
    tag, n, r, p, rest = raw.split(b':', 4)
    if tag != b's':
        raise ValueError('not an scrypt blob')
    return int(n), int(r), int(p), rest[:16], rest[16:]


def blob_decrypt(password, blob, fast=False):
    """-> (plaintext bytes or None when padding invalid)"""
    n, r, p, iv, data = blob_split(blob)
    key = scrypt_key(password, iv, n, r, p)
    return pkcs7_unpad((fast_cbc_decrypt if fast else cbc_decrypt)(key, iv, data))


def pack_json(password, obj, iv, n=8192, r=16, p=1):
    return blob_encrypt(password, zlib.compress(json.dumps(obj).encode()), iv, n, r, p)


def unpack_json(password, blob):
    """-> parsed JSON or None (padding invalid / not zlib / not JSON)"""
    body = blob_decrypt(password, blob)
    if body is None:
        return None
    try:
        return json.loads(zlib.decompress(body))
    except (zlib.error, ValueError):
        return None


# ------------------------------------------------------------------------------ fast path
def fast_cbc_decrypt(key, iv, data):
    from cryptography.hazmat.primitives.ciphers import Cipher, modes
    from cryptography.hazmat.primitives.ciphers.algorithms import AES
    d = Cipher(AES(key), modes.CBC(iv)).decryptor()
    return d.update(data) + d.finalize()


def fast_padding_valid(key, raw):
    """raw = IV || ciphertext: is the PKCS#7 padding valid under `key`?  (only the last block matters)"""
    if len(raw) < 32 or len(raw) % 16:
        return False
    from cryptography.hazmat.primitives.ciphers import Cipher, modes
    from cryptography.hazmat.primitives.ciphers.algorithms import AES
    d = Cipher(AES(key), modes.CBC(raw[-32:-16])).decryptor()
    last = d.update(raw[-16:]) + d.finalize()
    return pkcs7_unpad(last) is not None


# ------------------------------------------------------------------------------ self check
_checked = False


def self_check(fixture_path=None):
    global _checked
    if _checked:
        return
    h = bytes.fromhex
    # FIPS-197 appendix B / C.1 / C.3
    assert SBOX[0x00] == 0x63 and SBOX[0x53] == 0xed and SBOX[0xff] == 0x16, 'S-box'
    rk = expand_key(h('000102030405060708090a0b0c0d0e0f'))
    assert encrypt_block(rk, h('00112233445566778899aabbccddeeff')) == h('69c4e0d86a7b0430d8cdb78070b4c55a'), 'FIPS-197 C.1'
    rk = expand_key(h('000102030405060708090a0b0c0d0e0f101112131415161718191a1b1c1d1e1f'))
    ct = h('8ea2b7ca516745bfeafc49904b496089')
    assert encrypt_block(rk, h('00112233445566778899aabbccddeeff')) == ct, 'FIPS-197 C.3 enc'
    assert decrypt_block(rk, ct) == h('00112233445566778899aabbccddeeff'), 'FIPS-197 C.3 dec'
    # SP 800-38A F.2.5 / F.2.6 (CBC-AES256)
    key = h('603deb1015ca71be2b73aef0857d77811f352c073b6108d72d9810a30914dff4')
    iv = h('000102030405060708090a0b0c0d0e0f')
    pt = h('6bc1bee22e409f96e93d7e117393172aae2d8a571e03ac9c9eb76fac45af8e51'
           '30c81c46a35ce411e5fbc1191a0a52eff69f2445df4f9b17ad2b417be66c3710')
    ct = h('f58c4c04d6e5f1ba779eabfb5f7bfbd69cfc4e967edb808d679f777bc6702c7d'
           '39f23369a9d9bacfa530e26304231461b2eb05e2c39be9fcda6c19078c6a9d1b')
    assert cbc_encrypt(key, iv, pt) == ct, 'SP800-38A F.2.5'
    assert cbc_decrypt(key, iv, ct) == pt, 'SP800-38A F.2.6'
    # pure == fast on random data
    import random
    r = random.Random(13)
    for _ in range(20):
        k = r.randbytes(32)
        v = r.randbytes(16)
        d = r.randbytes(16 * r.randrange(1, 9))
        assert fast_cbc_decrypt(k, v, d) == cbc_decrypt(k, v, d), 'fast != pure AES-CBC'
        assert cbc_decrypt(k, v, cbc_encrypt(k, v, d)) == d
        assert fast_padding_valid(k, v + d) == (pkcs7_unpad(cbc_decrypt(k, v, d)) is not None)
    # PKCS#7
    assert pkcs7_pad(b'') == b'\x10' * 16 and pkcs7_unpad(b'\x10' * 16) == b''
    assert pkcs7_unpad(b'a' * 15 + b'\x01') == b'a' * 15
    assert pkcs7_unpad(b'a' * 14 + b'\x02\x01') == b'a' * 14 + b'\x02' and pkcs7_unpad(b'a' * 14 + b'\x01\x02') is None
    assert pkcs7_unpad(b'a' * 15 + b'\x00') is None and pkcs7_unpad(b'a' * 15 + b'\x11') is None
    # RFC 7914 §12 scrypt vectors
    assert hashlib.scrypt(b'', salt=b'', n=16, r=1, p=1, dklen=64).hex().startswith('77d6576238657b203b19ca42c18a0497'), 'RFC7914 #1'
    assert hashlib.scrypt(b'password', salt=b'NaCl', n=1024, r=8, p=16, maxmem=1 << 26, dklen=64).hex().startswith(
        'fdbabe1c9d3472007856e7190d01e9fe'), 'RFC7914 #2'
    # fixed wallet vectors (public test vectors of the format)
    fixture_path = fixture_path or os.path.join(os.path.dirname(os.path.dirname(os.path.dirname(
        os.path.abspath(__file__)))), 'fixtures', 'c13_vectors.json')
    with open(fixture_path) as f:
        fx = json.load(f)
    for v in fx['field_vectors']:
        iv = v['iv_ascii'].encode()
        assert field_encrypt(v['password'], v['plaintext'], iv) == v['ciphertext'], 'field vector enc ' + v['name']
        text, iv2, ok = field_decrypt(v['password'], v['ciphertext'])
        assert (text, iv2, ok) == (v['plaintext'], iv, True), 'field vector dec ' + v['name']
    for v in fx['field_wrong_password_vectors']:
        text, _, ok = field_decrypt(v['password'], v['ciphertext'])
        assert text is None and ok == v['padding_valid'], 'field wrong-password vector ' + v['name']
    for v in fx['blob_vectors']:
        assert blob_decrypt(v['password'], v['blob'].encode()) == v['plaintext_ascii'].encode(), 'blob vector ' + v['name']
        n, r_, p, iv, _ = blob_split(v['blob'].encode())
        assert blob_encrypt(v['password'], v['plaintext_ascii'].encode(), iv, n, r_, p) == v['blob'].encode()
    _checked = True

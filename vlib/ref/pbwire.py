"""Minimal protobuf wire-format reader/writer written from the public encoding document
(developers.google.com/protocol-buffers/docs/encoding).  Shares no code with lbry and does
not use the google.protobuf runtime, so it can show what the bytes of a claim contain
independently of the generated *_pb2 classes.

decode(b) -> list of (field_number, wire_type, value) in wire order
    wire type 0 -> int (unsigned varint), 1 -> 8 raw bytes, 2 -> bytes, 5 -> 4 raw bytes
encode(items) -> bytes, items = [(field_number, wire_type, value)]
"""
import struct


class WireError(ValueError):
    pass


def read_varint(b, pos):
    shift = result = 0
    while True:
        if pos >= len(b):
            raise WireError('truncated varint')
        c = b[pos]
        pos += 1
        result |= (c & 0x7F) << shift
        if not c & 0x80:
            break
        shift += 7
        if shift > 63:
            raise WireError('varint too long')
    return result & 0xFFFFFFFFFFFFFFFF, pos


def write_varint(n):
    if n < 0:
        n += 1 << 64
    out = bytearray()
    while True:
        c = n & 0x7F
        n >>= 7
        if n:
            out.append(c | 0x80)
        else:
            out.append(c)
            return bytes(out)


def decode(b):
    b = bytes(b)
    pos, out = 0, []
    while pos < len(b):
        key, pos = read_varint(b, pos)
        num, wt = key >> 3, key & 7
        if num == 0:
            raise WireError('field number 0')
        if wt == 0:
            v, pos = read_varint(b, pos)
        elif wt == 1:
            v, pos = b[pos:pos + 8], pos + 8
            if len(v) != 8:
                raise WireError('truncated fixed64')
        elif wt == 2:
            ln, pos = read_varint(b, pos)
            v, pos = b[pos:pos + ln], pos + ln
            if len(v) != ln:
                raise WireError('truncated length-delimited field')
        elif wt == 5:
            v, pos = b[pos:pos + 4], pos + 4
            if len(v) != 4:
                raise WireError('truncated fixed32')
        else:
            raise WireError(f'unsupported wire type {wt}')
        out.append((num, wt, v))
    return out


def encode(items):
    out = bytearray()
    for num, wt, v in items:
        out += write_varint((num << 3) | wt)
        if wt == 0:
            out += write_varint(v)
        elif wt == 2:
            v = bytes(v)
            out += write_varint(len(v)) + v
        elif wt in (1, 5):
            out += bytes(v)
        else:
            raise WireError(f'unsupported wire type {wt}')
    return bytes(out)


def fields(b, num):
    """all values of field `num`, wire order."""
    return [v for n, _, v in decode(b) if n == num]


def last(b, num, default=None):
    """proto semantics for a singular field: last occurrence wins."""
    vs = fields(b, num)
    return vs[-1] if vs else default


def zigzag_decode(n):
    return (n >> 1) ^ -(n & 1)


def to_int64(n):
    return n - (1 << 64) if n >= 1 << 63 else n


def float32(v):
    return struct.unpack('<f', v)[0]


def self_check():
    # vectors from the encoding document
    assert encode([(1, 0, 150)]) == bytes.fromhex('089601')
    assert decode(bytes.fromhex('089601')) == [(1, 0, 150)]
    assert encode([(2, 2, b'testing')]) == bytes.fromhex('120774657374696e67')
    assert decode(bytes.fromhex('1a03089601')) == [(3, 2, bytes.fromhex('089601'))]
    assert write_varint(-1) == b'\xff' * 9 + b'\x01' and to_int64(read_varint(write_varint(-1), 0)[0]) == -1
    assert [zigzag_decode(x) for x in (0, 1, 2, 3, 4294967294, 4294967295)] == [0, -1, 1, -2, 2147483647, -2147483648]
    assert write_varint(300) == bytes.fromhex('ac02')
    return 7

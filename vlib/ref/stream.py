"""Independent reference for LBRY streams (property C02).  Shares no code with lbry and
imports nothing from it.

Written from the public description of the stream format (spec.lbry.com, "Data" chapter;
lbry.tech "stream descriptor" / "manifest"):

* a stream is a list of data blobs followed by a *terminator* entry (length 0, no hash);
  every data blob is AES-128-CBC (PKCS#7 padded) ciphertext of one plaintext chunk, at
  most 2 MiB, addressed by the hex SHA-384 of the ciphertext;
* the descriptor is a JSON object {stream_type, stream_name(hex), key(hex),
  suggested_file_name(hex), stream_hash, blobs:[{length, blob_num, iv, blob_hash?}]} and is
  itself a blob addressed by the SHA-384 of its bytes (sd hash);
* stream hash = SHA384( stream_name_hex + key_hex + suggested_file_name_hex +
                        SHA384( concat_i SHA384( blob_hash_i? + str(blob_num_i) + iv_i + str(length_i) ) ) )
  all operands being the ASCII strings that appear in the JSON.

AES: only the raw single-block primitive (ECB) is taken from `cryptography`; CBC chaining
and PKCS#7 are done here by hand.
"""
import hashlib
import json

from cryptography.hazmat.primitives.ciphers import Cipher, algorithms, modes

MAX_BLOB = 2 * 1024 * 1024
BLOCK = 16
HEXDIGITS = '0123456789abcdef'


def sha384_hex(data: bytes) -> str:
    return hashlib.sha384(data).hexdigest()


# ------------------------------------------------------------------------- AES-CBC/PKCS7
def _xor(a: bytes, b: bytes) -> bytes:
    return (int.from_bytes(a, 'big') ^ int.from_bytes(b, 'big')).to_bytes(len(a), 'big')


def cbc_decrypt_raw(key: bytes, iv: bytes, ct: bytes) -> bytes:
    """P_i = D_k(C_i) xor C_{i-1}, C_0 = IV   (NIST SP 800-38A 6.2)"""
    if len(iv) != BLOCK:
        raise ValueError('iv must be 16 bytes')
    if len(ct) == 0 or len(ct) % BLOCK:
        raise ValueError('ciphertext is not a positive multiple of the block size')
    d = Cipher(algorithms.AES(key), modes.ECB()).decryptor()
    blocks = d.update(ct) + d.finalize()
    return _xor(blocks, iv + ct[:-BLOCK])


def cbc_encrypt_raw(key: bytes, iv: bytes, padded: bytes) -> bytes:
    """C_i = E_k(P_i xor C_{i-1}); sequential, only for small inputs (self-test, tiny fixtures)."""
    if len(padded) % BLOCK:
        raise ValueError('not block aligned')
    prev, out = iv, []
    for i in range(0, len(padded), BLOCK):
        e = Cipher(algorithms.AES(key), modes.ECB()).encryptor()
        prev = e.update(_xor(padded[i:i + BLOCK], prev)) + e.finalize()
        out.append(prev)
    return b''.join(out)


def pkcs7_pad(data: bytes) -> bytes:
    n = BLOCK - len(data) % BLOCK
    return data + bytes([n]) * n


def pkcs7_unpad(padded: bytes) -> bytes:
    """RFC 5652 6.3: the last byte n (1..16) says how many bytes, all equal to n, were appended."""
    if len(padded) == 0 or len(padded) % BLOCK:
        raise ValueError('padded length is not a positive multiple of 16')
    n = padded[-1]
    if n < 1 or n > BLOCK:
        raise ValueError(f'bad padding byte {n}')
    if padded[-n:] != bytes([n]) * n:
        raise ValueError('padding bytes differ')
    return padded[:-n]


def decrypt_blob(key: bytes, iv: bytes, ct: bytes) -> bytes:
    return pkcs7_unpad(cbc_decrypt_raw(key, iv, ct))


def ciphertext_length(plain_len: int) -> int:
    return (plain_len // BLOCK + 1) * BLOCK


# --------------------------------------------------------------------------- commitments
def blob_hashsum(blob: dict, include_hash=None) -> bytes:
    """SHA384(blob_hash? + str(blob_num) + iv + str(length)).  `include_hash`: None = the hash is
    an operand iff the entry carries one (a well-formed entry carries one iff length != 0)."""
    if include_hash is None:
        include_hash = 'blob_hash' in blob
    h = hashlib.sha384()
    if include_hash:
        h.update(str(blob['blob_hash']).encode())
    h.update(str(blob['blob_num']).encode())
    h.update(str(blob['iv']).encode())
    h.update(str(blob['length']).encode())
    return h.digest()


def stream_hash(hex_stream_name: str, key_hex: str, hex_suggested_file_name: str, blobs, rule='present') -> str:
    """rule 'present': blob_hash is hashed iff present in the entry; 'nonzero': iff length != 0.
    The two agree on every well-formed descriptor."""
    inner = hashlib.sha384()
    for b in blobs:
        inc = ('blob_hash' in b) if rule == 'present' else (b['length'] != 0 and 'blob_hash' in b)
        inner.update(blob_hashsum(b, inc))
    outer = hashlib.sha384()
    outer.update(hex_stream_name.encode())
    outer.update(key_hex.encode())
    outer.update(hex_suggested_file_name.encode())
    outer.update(inner.digest())
    return outer.hexdigest()


def build_descriptor(stream_name: str, key_hex: str, suggested_file_name: str, blobs, style='sorted') -> bytes:
    """serialise a descriptor the way publishers do (sorted keys; or the historic key order)."""
    hn = stream_name.encode('utf8').hex()
    hs = suggested_file_name.encode('utf8').hex()
    sh = stream_hash(hn, key_hex, hs, blobs)
    return serialise({'stream_type': 'lbryfile', 'stream_name': hn, 'key': key_hex, 'suggested_file_name': hs,
                      'stream_hash': sh, 'blobs': blobs}, style)


def serialise(doc: dict, style='sorted') -> bytes:
    if style == 'sorted':
        return json.dumps(doc, sort_keys=True).encode()
    if style == 'old':
        order = ['stream_name', 'blobs', 'stream_type', 'key', 'suggested_file_name', 'stream_hash']
        border = ['length', 'blob_num', 'blob_hash', 'iv']
        out = {}
        for k in order + [k for k in doc if k not in order]:
            if k not in doc:
                continue
            v = doc[k]
            if k == 'blobs' and isinstance(v, list):
                v = [({kk: b[kk] for kk in border + [x for x in b if x not in border] if kk in b}
                      if isinstance(b, dict) else b) for b in v]
            out[k] = v
        return json.dumps(out).encode()
    if style == 'compact':
        return json.dumps(doc, separators=(',', ':')).encode()
    if style == 'indent':
        return json.dumps(doc, indent=2).encode()
    raise ValueError(style)


def _is_int(x):
    return isinstance(x, int) and not isinstance(x, bool)


def _hexname_class(s: str):
    """'canonical' (lowercase even-length hex of valid UTF-8), 'noncanonical' (valid hex that a lenient
    decoder maps to a different canonical string, e.g. upper case), 'malformed'."""
    low = s.lower()
    if len(low) % 2 or any(c not in HEXDIGITS for c in low):
        return 'malformed'
    try:
        bytes.fromhex(low).decode('utf8')
    except UnicodeDecodeError:
        return 'malformed'
    return 'canonical' if low == s else 'noncanonical'


def classify(sd_bytes: bytes):
    """-> (verdict, reason, doc).  verdict:
      'inconsistent'  JSON invalid, or a needed field absent, or numbering / terminator rule broken,
                      or the stream hash recomputed from the literal field values differs from the stated one
      'consistent'    none of the above
      'unjudged'      JSON-type confusion or non-canonical hex spelling: the committed *value* may be
                      unchanged although the text differs; the statement does not decide these."""
    try:
        text = sd_bytes.decode('utf8')
    except UnicodeDecodeError:
        return 'inconsistent', 'not-utf8', None
    odd = []
    try:
        doc = json.loads(text, parse_constant=lambda c: odd.append(c) or 0.0)
    except (ValueError, RecursionError):
        return 'inconsistent', 'invalid-json', None
    if odd:
        return 'unjudged', 'non-rfc-json-constant', doc
    if not isinstance(doc, dict):
        return 'inconsistent', 'json-not-an-object', doc
    for f in ('stream_name', 'key', 'suggested_file_name', 'stream_hash', 'blobs'):
        if f not in doc:
            return 'inconsistent', 'missing-field', doc
    for f in ('stream_name', 'key', 'suggested_file_name', 'stream_hash'):
        if not isinstance(doc[f], str):
            return 'unjudged', 'type', doc
    blobs = doc['blobs']
    if not isinstance(blobs, list):
        return 'unjudged', 'type', doc
    if not blobs:
        return 'inconsistent', 'terminator', doc
    for b in blobs:
        if not isinstance(b, dict):
            return 'unjudged', 'type', doc
        for f in ('length', 'blob_num', 'iv'):
            if f not in b:
                return 'inconsistent', 'missing-field', doc
        if not _is_int(b['length']) or not _is_int(b['blob_num']) or not isinstance(b['iv'], str):
            return 'unjudged', 'type', doc
        if 'blob_hash' in b and not isinstance(b['blob_hash'], str):
            return 'unjudged', 'type', doc
    # terminator rule
    if blobs[-1]['length'] != 0 or 'blob_hash' in blobs[-1]:
        return 'inconsistent', 'terminator', doc
    if any(b['length'] == 0 for b in blobs[:-1]):
        return 'inconsistent', 'terminator', doc
    # numbering rule
    if any(b['blob_num'] != i for i, b in enumerate(blobs)):
        return 'inconsistent', 'numbering', doc
    if any('blob_hash' not in b for b in blobs[:-1]):
        return 'inconsistent', 'missing-field', doc
    classes = {_hexname_class(doc['stream_name']), _hexname_class(doc['suggested_file_name'])}
    if 'noncanonical' in classes:
        return 'unjudged', 'hex-spelling', doc
    recomputed = stream_hash(doc['stream_name'], doc['key'], doc['suggested_file_name'], blobs)
    if recomputed != doc['stream_hash']:
        return 'inconsistent', 'stream-hash', doc
    if 'malformed' in classes:
        return 'unjudged', 'malformed-hex-name-with-matching-hash', doc
    return 'consistent', 'ok', doc


# ------------------------------------------------------------------------------ self-test
NIST_CBC_AES128 = {   # NIST SP 800-38A F.2.1 / F.2.2
    'key': '2b7e151628aed2a6abf7158809cf4f3c', 'iv': '000102030405060708090a0b0c0d0e0f',
    'plain': '6bc1bee22e409f96e93d7e117393172aae2d8a571e03ac9c9eb76fac45af8e51'
             '30c81c46a35ce411e5fbc1191a0a52eff69f2445df4f9b17ad2b417be66c3710',
    'cipher': '7649abac8119b246cee98e9b12e9197d5086cb9b507219ee95db113a917678b2'
              '73bed6b8e3c1743b7116e69e222295163ff1caa1681fac09120eca307586e1a7',
}
NIST_CBC_AES256 = {   # NIST SP 800-38A F.2.5
    'key': '603deb1015ca71be2b73aef0857d77811f352c073b6108d72d9810a30914dff4', 'iv': '000102030405060708090a0b0c0d0e0f',
    'plain': '6bc1bee22e409f96e93d7e117393172aae2d8a571e03ac9c9eb76fac45af8e51'
             '30c81c46a35ce411e5fbc1191a0a52eff69f2445df4f9b17ad2b417be66c3710',
    'cipher': 'f58c4c04d6e5f1ba779eabfb5f7bfbd69cfc4e967edb808d679f777bc6702c7d'
              '39f23369a9d9bacfa530e26304231461b2eb05e2c39be9fcda6c19078c6a9d1b',
}
SHA384_ABC = 'cb00753f45a35e8bb5a03d699ac65007272c32ab0eded1631a8b605a43ff5bed8086072ba1e7cc2358baeca134c825a7'


def selftest(fixture_path=None):
    """raises AssertionError when the reference disagrees with fixed public vectors."""
    assert sha384_hex(b'abc') == SHA384_ABC, 'sha384 vector'
    for v in (NIST_CBC_AES128, NIST_CBC_AES256):
        k, iv, p, c = (bytes.fromhex(v[x]) for x in ('key', 'iv', 'plain', 'cipher'))
        assert cbc_decrypt_raw(k, iv, c) == p, 'NIST CBC decrypt vector'
        assert cbc_encrypt_raw(k, iv, p) == c, 'NIST CBC encrypt vector'
    for n in list(range(0, 50)) + [255, 256, 257]:
        d = bytes((i * 7 + 3) % 256 for i in range(n))
        pd = pkcs7_pad(d)
        assert len(pd) == ciphertext_length(n) and len(pd) % 16 == 0 and len(pd) > n
        assert pkcs7_unpad(pd) == d
    for bad in (b'', b'\x00' * 16, b'\x11' * 16, b'a' * 14 + b'\x01\x02', b'a' * 15, b'a' * 13 + b'\x03\x02\x03'):
        try:
            pkcs7_unpad(bad)
        except ValueError:
            continue
        raise AssertionError(f'pkcs7_unpad accepted {bad!r}')
    n = 0
    if fixture_path:
        with open(fixture_path) as f:
            vectors = json.load(f)['sd_vectors']
        for v in vectors:
            raw = v['sd_bytes'].encode()
            assert sha384_hex(raw) == v['sd_hash'], 'sd hash vector'
            doc = json.loads(raw)
            got = stream_hash(doc['stream_name'], doc['key'], doc['suggested_file_name'], doc['blobs'])
            assert got == v['stream_hash'] == doc['stream_hash'], 'stream hash vector'
            assert stream_hash(doc['stream_name'], doc['key'], doc['suggested_file_name'], doc['blobs'],
                               'nonzero') == got
            assert classify(raw)[:2] == ('consistent', 'ok'), classify(raw)[:2]
            n += 1
    return n

"""Independent Bitcoin block Merkle tree (duplicate-last rule), branch builder and folder. No lbry imports.
Hashes are handled in internal byte order; *_hex helpers use display (reversed) order as Electrum servers do."""
import hashlib


def sha256d(b):
    return hashlib.sha256(hashlib.sha256(b).digest()).digest()


def levels(leaves):
    lv = [list(leaves)]
    while len(lv[-1]) > 1:
        cur = lv[-1]
        if len(cur) % 2:
            cur = cur + [cur[-1]]
        lv.append([sha256d(cur[i] + cur[i + 1]) for i in range(0, len(cur), 2)])
    return lv


def root(leaves):
    return levels(leaves)[-1][0]


def branch(leaves, index):
    out = []
    for lv in levels(leaves)[:-1]:
        if len(lv) % 2:
            lv = lv + [lv[-1]]
        out.append(lv[index ^ 1])
        index >>= 1
    return out


def fold(leaf, branch_, pos):
    h = leaf
    for i, other in enumerate(branch_):
        h = sha256d(other + h) if (pos >> i) & 1 else sha256d(h + other)
    return h


def selftest():
    # Bitcoin block 170 (2 txs) — public vector
    t1 = bytes.fromhex('b1fea52486ce0c62bb442b530a3f0132b826c74e473d1f2c220bfa78111c5082')[::-1]
    t2 = bytes.fromhex('f4184fc596403b9d638783cf57adfe4c75c605f6356fbc91338530e9831e9e16')[::-1]
    want = bytes.fromhex('7dac2c5666815c17a3b36427de37bb9d2e2c5ccec3f8633eb91a4205cb4c10ff')[::-1]
    assert root([t1, t2]) == want
    assert fold(t1, branch([t1, t2], 0), 0) == want and fold(t2, branch([t1, t2], 1), 1) == want
    for n in range(1, 40):
        ls = [sha256d(bytes([i])) for i in range(n)]
        r = root(ls)
        for i in range(n):
            assert fold(ls[i], branch(ls, i), i) == r

"""Independent reference for LBRY channel signatures (claims / supports signed by a channel).
Written for this harness from the LBRY specification (spec.lbry.com, "Claim Signing") and the
historical lbryschema signing rule; shares no code with lbry and does not use the
google.protobuf runtime (a ten-line wire reader is enough) nor libsecp256k1 (pure-Python `ecdsa`).

Current format (since protocol "v2"), value stored in the claim script:
    0x01 | channel claim hash (20 bytes, internal byte order) | signature r‖s (64 bytes) | protobuf message
    signed digest = SHA256( first input outpoint (tx hash 32 bytes internal order ‖ index 4 bytes LE)
                            ‖ channel claim hash (20) ‖ protobuf message bytes )
    unsigned value:  0x00 | protobuf message
Historical format ("v1", lbryschema): the claim value IS a protobuf message whose field 5
(publisherSignature{version=1, signatureType=2, signature=3, certificateId=4}) carries the signature;
    signed digest = SHA256( claim address as 25 raw bytes (prefix ‖ hash160 ‖ checksum)
                            ‖ the message serialised without field 5 ‖ certificateId (20 bytes) )
A claim id is hash160( tx hash (internal order) ‖ output index as 4 bytes BIG endian ) and is shown reversed in hex.
Channel public key: field 2 (channel) → field 1 of the v2 message, field 4 (certificate) → field 4 of a v1
message; either 33 bytes compressed SEC1 or a DER SubjectPublicKeyInfo (88 bytes for secp256k1).
"""
import hashlib

N = 0xFFFFFFFFFFFFFFFFFFFFFFFFFFFFFFFEBAAEDCE6AF48A03BBFD25E8CD0364141
MAINNET_P2PKH_PREFIX = 0x55
MAINNET_P2SH_PREFIX = 0x7a
# DER SubjectPublicKeyInfo header of an uncompressed secp256k1 point (what python-ecdsa's to_der() of the earlier releases produced)
SPKI_SECP256K1_PREFIX = bytes.fromhex('3056301006072a8648ce3d020106052b8104000a034200')


def sha256(b):
    return hashlib.sha256(b).digest()


def hash160(b):
    return hashlib.new('ripemd160', hashlib.sha256(b).digest()).digest()


# ------------------------------------------------------------------------------ protobuf wire (reader only)
def _varint(b, o):
    shift = val = 0
    while True:
        if o >= len(b):
            raise ValueError('truncated varint')
        c = b[o]
        o += 1
        val |= (c & 0x7F) << shift
        if not c & 0x80:
            return val, o
        shift += 7
        if shift > 63:
            raise ValueError('varint too long')


def wire_fields(b):
    """[(field number, wire type, value, start offset, end offset)] in wire order"""
    b = bytes(b)
    o, out = 0, []
    while o < len(b):
        start = o
        key, o = _varint(b, o)
        num, wt = key >> 3, key & 7
        if wt == 0:
            v, o = _varint(b, o)
        elif wt == 1:
            v, o = b[o:o + 8], o + 8
        elif wt == 2:
            ln, o = _varint(b, o)
            v, o = b[o:o + ln], o + ln
            if len(v) != ln:
                raise ValueError('truncated field')
        elif wt == 5:
            v, o = b[o:o + 4], o + 4
        else:
            raise ValueError('unsupported wire type')
        if o > len(b):
            raise ValueError('truncated field')
        out.append((num, wt, v, start, o))
    return out


def wire_varint(n: int) -> bytes:
    out = bytearray()
    while True:
        c = n & 0x7F
        n >>= 7
        out.append(c | (0x80 if n else 0))
        if not n:
            return bytes(out)


def wire_varint_field(num: int, value: int) -> bytes:
    return wire_varint(num << 3) + wire_varint(value)


def wire_bytes_field(num: int, payload: bytes) -> bytes:
    return wire_varint(num << 3 | 2) + wire_varint(len(payload)) + bytes(payload)


def _last(b, num):
    vs = [v for n, wt, v, _, _ in wire_fields(b) if n == num]
    return vs[-1] if vs else None


# ------------------------------------------------------------------------------ envelopes
def envelope(value: bytes):
    """-> dict(format='v2-signed'|'v2-unsigned'|'v1', channel_hash, signature, message, [unsigned_payload])"""
    value = bytes(value)
    if not value:
        raise ValueError('empty claim value')
    if value[0] == 1:
        if len(value) < 85:
            raise ValueError('signed claim value shorter than its header')
        return {'format': 'v2-signed', 'channel_hash': value[1:21], 'signature': value[21:85], 'message': value[85:]}
    if value[0] == 0:
        return {'format': 'v2-unsigned', 'channel_hash': None, 'signature': None, 'message': value[1:]}
    # v1: strip field 5 from the top-level message
    fs = wire_fields(value)
    sigs = [f for f in fs if f[0] == 5]
    if not sigs:
        return {'format': 'v1', 'channel_hash': None, 'signature': None, 'message': value, 'unsigned_payload': value}
    unsigned = b''.join(value[s:e] for n, _, _, s, e in fs if n != 5)
    sig_msg = sigs[-1][2]
    return {'format': 'v1', 'signature': _last(sig_msg, 3), 'certificate_id': _last(sig_msg, 4),
            'channel_hash': (_last(sig_msg, 4) or b'')[::-1], 'message': value, 'unsigned_payload': unsigned}


def channel_public_key(value: bytes) -> bytes:
    env = envelope(value)
    if env['format'] == 'v1':
        cert = _last(env['message'], 4)
        if cert is None:
            raise ValueError('v1 claim has no certificate')
        return _last(cert, 4)
    chan = _last(env['message'], 2)
    if chan is None:
        raise ValueError('claim is not a channel')
    return _last(chan, 1) or b''


def claim_hash(tx_hash_internal: bytes, nout: int) -> bytes:
    return hash160(bytes(tx_hash_internal) + nout.to_bytes(4, 'big'))


def outpoint(txid_hex: str, nout: int) -> bytes:
    return bytes.fromhex(txid_hex)[::-1] + nout.to_bytes(4, 'little')


def digest_v2(first_input_outpoint: bytes, channel_hash: bytes, message: bytes) -> bytes:
    return sha256(bytes(first_input_outpoint) + bytes(channel_hash) + bytes(message))


def address_bytes(pubkey_hash: bytes, prefix: int) -> bytes:
    body = bytes([prefix]) + bytes(pubkey_hash)
    return body + sha256(sha256(body))[:4]


def digest_v1(address25: bytes, unsigned_payload: bytes, certificate_id: bytes) -> bytes:
    return sha256(bytes(address25) + bytes(unsigned_payload) + bytes(certificate_id))


# ------------------------------------------------------------------------------ ECDSA through the pure-Python library
def verifying_key(pubkey: bytes):
    import ecdsa
    pubkey = bytes(pubkey)
    if len(pubkey) in (33, 65):
        return ecdsa.VerifyingKey.from_string(pubkey, curve=ecdsa.SECP256k1)
    return ecdsa.VerifyingKey.from_der(pubkey)


def compressed(pubkey: bytes) -> bytes:
    return verifying_key(pubkey).to_string('compressed')


def public_from_secret(secret32: bytes) -> bytes:
    import ecdsa
    return ecdsa.SigningKey.from_string(bytes(secret32), curve=ecdsa.SECP256k1).verifying_key.to_string('compressed')


def verify_compact(pubkey: bytes, sig64: bytes, digest: bytes) -> bool:
    """plain ECDSA verification of r‖s (no low-S rule: historical signatures have high S)"""
    import ecdsa
    from ecdsa.util import sigdecode_string
    if len(sig64) != 64 or len(digest) != 32:
        return False
    try:
        return bool(verifying_key(pubkey).verify_digest(bytes(sig64), bytes(digest), sigdecode=sigdecode_string))
    except (ecdsa.BadSignatureError, ecdsa.MalformedPointError, ValueError, AssertionError):
        return False


def sign_compact(secret32: bytes, digest: bytes) -> bytes:
    """r‖s made by the pure-Python library (RFC 6979 nonce; S is NOT normalised, like the earlier releases' python-ecdsa signatures)"""
    import ecdsa
    from ecdsa.util import sigencode_string
    sk = ecdsa.SigningKey.from_string(bytes(secret32), curve=ecdsa.SECP256k1)
    return sk.sign_digest_deterministic(bytes(digest), hashfunc=hashlib.sha256, sigencode=sigencode_string)


def uncompressed_from_secret(secret32: bytes) -> bytes:
    import ecdsa
    return ecdsa.SigningKey.from_string(bytes(secret32), curve=ecdsa.SECP256k1).verifying_key.to_string('uncompressed')


def v1_signature_field(signature64: bytes, certificate_id: bytes, signature_type: int = 3) -> bytes:
    """top-level field 5 of a v1 claim: publisherSignature{version=1, signatureType, signature, certificateId}"""
    return wire_bytes_field(5, wire_varint_field(1, 1) + wire_varint_field(2, signature_type) + wire_bytes_field(3, signature64) +
                            wire_bytes_field(4, certificate_id))


def twin(sig64: bytes) -> bytes:
    """the other valid signature of the same message: (r, n - s)"""
    r, s = sig64[:32], int.from_bytes(sig64[32:], 'big')
    return r + (N - s).to_bytes(32, 'big')


def selftest() -> int:
    n = 0

    def ensure(c, what):
        nonlocal n
        n += 1
        if not c:
            raise AssertionError('vlib.ref.chansig self-test failed: ' + what)
    # protobuf encoding document vectors
    ensure(wire_fields(bytes.fromhex('089601'))[0][:3] == (1, 0, 150), 'varint field')
    ensure(wire_fields(bytes.fromhex('120774657374696e67'))[0][:3] == (2, 2, b'testing'), 'length-delimited field')
    # secp256k1 generator: secret 1 -> G (SEC2 published constant)
    ensure(public_from_secret((1).to_bytes(32, 'big')).hex() ==
           '0279be667ef9dcbbac55a06295ce870b07029bfcdb2dce28d959f2815b16f81798', 'generator point')
    # RFC 6979-independent sanity: a signature made by the library verifies, its twin verifies, a flipped bit does not
    import ecdsa
    sk = ecdsa.SigningKey.from_string((7).to_bytes(32, 'big'), curve=ecdsa.SECP256k1)
    d = sha256(b'chansig')
    sig = sk.sign_digest_deterministic(d, hashfunc=hashlib.sha256)
    pub = sk.verifying_key.to_string('compressed')
    ensure(verify_compact(pub, sig, d), 'library signature verifies')
    ensure(verify_compact(pub, twin(sig), d), 'twin verifies')
    ensure(not verify_compact(pub, bytes([sig[0] ^ 1]) + sig[1:], d), 'flipped bit does not verify')
    ensure(address_bytes(bytes(20), 0)[-4:] == sha256(sha256(bytes(21)))[:4], 'address checksum')
    # writer against the protobuf encoding document vectors and against the reader; signer against the verifier
    ensure(wire_varint_field(1, 150) == bytes.fromhex('089601'), 'varint field written')
    ensure(wire_bytes_field(2, b'testing') == bytes.fromhex('120774657374696e67'), 'length-delimited field written')
    f5 = v1_signature_field(bytes(range(64)), bytes(range(20)))
    ensure(f5[:8] == bytes.fromhex('2a5c080110031a40') and envelope(b'\x08\x01' + f5)['signature'] == bytes(range(64))
           and envelope(b'\x08\x01' + f5)['certificate_id'] == bytes(range(20)) and envelope(b'\x08\x01' + f5)['unsigned_payload'] == b'\x08\x01',
           'v1 signature field round trip')
    ensure(verify_compact(pub, sign_compact((7).to_bytes(32, 'big'), d), d), 'own signature verifies')
    ensure(compressed(SPKI_SECP256K1_PREFIX + uncompressed_from_secret((7).to_bytes(32, 'big'))) == pub, 'DER key decodes to the same point')
    return n

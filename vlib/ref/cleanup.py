"""Reference accounting + judge for C19 (disk cleanup respects limits and ownership).

Written from the property statement and the two config help texts
("blob_storage_limit ... 0 = no limit", "network_storage_limit ... 0 = disable"); shares no
code (and no SQL) with lbry.  It never predicts WHICH blobs a pass deletes; it judges an
observed (pre-snapshot, post-snapshot) pair of ONE cleanup sub-pass.

Snapshot (plain dict, taken by the harness with its own sqlite3 connection + os.scandir):
    blobs        {blob_hash: [blob_length, status, is_mine, added_on]}
    streams      {stream_hash: sd_hash}
    stream_blobs [[stream_hash, blob_hash], ...]        (rows with a blob_hash)
    files        [stream_hash, ...]                     (streams that have a `file` row)
    disk         {file_name: size_in_bytes}             (blob directory listing)

Classes (statement: "own, downloaded and network-seeded blobs"):
    own      is_mine = 1                                  -> never removable
    content  not own, data blob of a stored stream OR the sd blob of a stored stream
    network  not own, associated with no stored stream
Usage is counted over status='finished' rows, in whole MiB.  Where reasonable whole-MiB
accountings differ the model keeps an interval [lo, hi]:
    lo  distinct blobs, sum of per-part floors, sd blobs not counted, own orphans not in network
    hi  one count per (blob, stream) pair, floor of the sum, sd blobs counted, own orphans in network
"must not delete" clauses use hi (no accounting says over), "must end within limit" uses lo.
The blob-storage (content) limit is charged with downloaded + own bytes (own blobs occupy the
same allocation but are never removable); limit 0 = unlimited.  Network limit 0 = nothing allowed.

Rows without their file (status='finished' but no file of the recorded length in the blob
directory: the file was removed behind the daemon's back and no start-up has demoted the row yet)
are one more ambiguity of "usage", with two readings:
    count  the row is a stored blob: it is charged, and deleting its row frees its bytes
    skip   only bytes on disk are usage: the row is charged nothing, deleting it frees nothing
Index(snap).usage() gives the interval over both (lo from skip, hi from count).  judge_pass judges
the pass under each pure reading and reports a clause only when it is violated under BOTH (the
reading that demands least, per clause).  U7: all clauses speak about the same "usage", so ONE
reading has to satisfy all of them: a pass that violates some clause when such rows are counted
and some other clause when they are not (e.g. it deletes blobs that are on disk although the
bytes on disk are within the limit AND leaves the recorded usage over the limit) is a violation.
The harness applies the same to the passes of one scenario (one daemon has one accounting).
"""
import collections

MIB = 1 << 20


def fl(n):
    return n // MIB


class Index:
    def __init__(self, snap, dead='interval'):
        """dead: how finished rows without their file enter the usage ('count' | 'skip' | 'interval' = both readings)"""
        self.snap = snap
        self.dead = dead
        sd_of = collections.defaultdict(list)
        for sh, sd in snap['streams'].items():
            sd_of[sd].append(sh)
        ins = collections.defaultdict(list)
        for sh, bh in snap['stream_blobs']:
            if bh is not None:
                ins[bh].append(sh)
        files = set(snap['files'])
        self.info = {}
        for h, (length, status, is_mine, added_on) in snap['blobs'].items():
            streams = ins.get(h, [])
            is_sd = h in sd_of
            own = bool(is_mine)
            cls = 'own' if own else ('content' if (streams or is_sd) else 'network')
            on_disk = snap['disk'].get(h) == int(length)
            self.info[h] = {
                'len': int(length), 'finished': status == 'finished', 'own': own, 'cls': cls, 'is_sd': is_sd,
                'streams': streams, 'mult': max(1, len(streams)),
                'has_file_row': any(s in files for s in streams) or any(s in files for s in sd_of.get(h, [])),
                'on_disk': on_disk, 'added_on': added_on,
                'dead': status == 'finished' and not on_disk,        # finished row without its file
            }
        self.has_dead = any(x['dead'] for x in self.info.values())

    def void(self, h):
        """under this reading the row is no stored blob: charged nothing, its deletion frees nothing"""
        return self.dead == 'skip' and h in self.info and self.info[h]['dead']

    def usage(self):
        if self.dead != 'interval' or not self.has_dead:
            return self._usage(self.dead != 'skip')
        a, b = self._usage(False), self._usage(True)
        out = {k: (a[k][0], b[k][1]) for k in ('content', 'network', 'downloaded_mb', 'own_mb')}
        out['bytes'] = dict(b['bytes'], without_file=sum(x['len'] for x in self.info.values() if x['dead']))
        return out

    def _usage(self, count_dead):
        c_d = c_m = o_d = o_m = n_d = n_own = sd_b = 0
        for x in self.info.values():
            if not x['finished'] or (x['dead'] and not count_dead):
                continue
            if x['is_sd'] and not x['streams']:
                sd_b += x['len']
                continue
            if x['own']:
                o_d += x['len']
                o_m += x['len'] * x['mult']
                if not x['streams']:
                    n_own += x['len']
            elif x['streams']:
                c_d += x['len']
                c_m += x['len'] * x['mult']
            else:
                n_d += x['len']
        return {
            'content': (fl(c_d) + fl(o_d), fl(c_m + o_m + sd_b)),
            'network': (fl(n_d), fl(n_d + n_own)),
            'downloaded_mb': (fl(c_d), fl(c_m)), 'own_mb': (fl(o_d), fl(o_m)),
            'bytes': {'downloaded': c_d, 'own': o_d, 'network': n_d, 'own_orphans': n_own, 'sd': sd_b},
        }

    def removable_narrow(self, cls):
        """blobs every reading agrees the pass can and may remove: finished, on disk, not own,
        not an sd blob, of the class; content additionally needs a `file` row for its stream."""
        out = []
        for h, x in self.info.items():
            if x['own'] or not x['finished'] or not x['on_disk'] or x['is_sd'] or x['cls'] != cls:
                continue
            if cls == 'content' and not x['has_file_row']:
                continue
            out.append(h)
        return out

    def removable_wide(self, cls):
        return [h for h, x in self.info.items() if not x['own'] and x['cls'] == cls]

    def big_foreign_sd(self):
        return [h for h, x in self.info.items() if x['is_sd'] and not x['own'] and x['finished'] and fl(x['len']) >= 1]


def limit_of(cls, climit, nlimit):
    return climit if cls == 'content' else nlimit


def is_over(cls, use, climit, nlimit, bound='hi'):
    """may the pass delete from this class?  (hi: some accounting says over; lo: every accounting says over)"""
    lo, hi = use[cls]
    lim = limit_of(cls, climit, nlimit)
    if cls == 'content' and lim == 0:
        return False
    return (hi if bound == 'hi' else lo) > lim


def short_key(key):
    return '.'.join(key.split('/')[1:3])


def judge_pass(pre, post, is_net, climit, nlimit, order=None, name=lambda h: h[:8]):
    """-> dict(violations=[(key, what, details)], hits=Counter, logs=Counter, facts=dict)"""
    a = _judge(pre, post, is_net, climit, nlimit, order, name, 'count')
    if not a['has_dead']:       # every finished row has its file: the two readings coincide
        return a
    b = _judge(pre, post, is_net, climit, nlimit, order, name, 'skip')
    pcls = 'network' if is_net else 'content'
    keys_a, keys_b = [v[0] for v in a['violations']], [v[0] for v in b['violations']]
    out = dict(a)
    out['violations'] = [v for v in a['violations'] if v[0] in keys_b]
    out['hits'] = collections.Counter({k: min(n, b['hits'][k]) for k, n in a['hits'].items() if b['hits'][k]})
    out['logs'] = a['logs'] + b['logs']
    out['facts'] = dict(a['facts'], usage_if_rows_without_file_are_not_counted={
        'before': b['facts']['usage_before_mb'], 'after': b['facts']['usage_after_mb']})
    out['only_if_counted'] = [v for v in a['violations'] if v[0] not in keys_b]          # clauses violated under one reading only
    out['only_if_not_counted'] = [v for v in b['violations'] if v[0] not in keys_a]
    hits = out['hits']
    hits['U7.checked_pass_with_rows_without_file'] += 1
    hits[f'U7.checked.{pcls}'] += 1
    if a['removed_without_file']:
        hits['U7.row_without_file_removed_by_pass'] += 1
        hits[f'U7.row_without_file_removed_by_pass.{pcls}'] += 1
    for k in keys_a:
        if k not in keys_b:
            out['logs']['U7.violated_only_if_counted:' + k] += 1
    for k in keys_b:
        if k not in keys_a:
            out['logs']['U7.violated_only_if_not_counted:' + k] += 1
    if keys_b and not keys_a:
        hits['U7.holds_only_if_rows_without_file_are_counted'] += 1
    if keys_a and not keys_b:
        hits['U7.holds_only_if_rows_without_file_are_not_counted'] += 1
    if keys_a and keys_b and not out['violations']:
        ka, kb = keys_a[0], keys_b[0]
        wa, wb = a['violations'][0][1], b['violations'][0][1]
        out['violations'] = [(
            f'C19/U7/no-reading-of-rows-without-file-holds/{short_key(ka)}-if-counted+{short_key(kb)}-if-not/{pcls}',
            f"{pcls}-pass with {a['facts']['rows_without_file']} finished row(s) whose file is gone: no single reading of their usage satisfies "
            f"the statement.  Counted as stored: {wa}  ||  Not counted (bytes on disk only): {wb}",
            {'if_counted': [[v[0], v[2]] for v in a['violations']], 'if_not_counted': [[v[0], v[1], v[2]] for v in b['violations']]})]
    return out


def _judge(pre, post, is_net, climit, nlimit, order, name, dead):
    """one pure reading of finished rows without their file (dead = 'count' | 'skip')"""
    V, hits, logs = [], collections.Counter(), collections.Counter()
    ip, iq = Index(pre, dead), Index(post, dead)
    up, uq = ip.usage(), iq.usage()
    pcls = 'network' if is_net else 'content'
    pname = pcls + '-pass'
    lim = limit_of(pcls, climit, nlimit)
    gone_rows = [h for h in pre['blobs'] if h not in post['blobs']]
    gone_files = [h for h in pre['disk'] if h not in post['disk']]
    deleted = sorted(set(gone_rows) | set(gone_files), key=lambda h: name(h))
    facts = {'pass': pname, 'blob_storage_limit': climit, 'network_storage_limit': nlimit,
             'usage_before_mb': {'content[lo,hi]': list(up['content']), 'network[lo,hi]': list(up['network']),
                                 'downloaded': list(up['downloaded_mb']), 'own': list(up['own_mb'])},
             'usage_after_mb': {'content[lo,hi]': list(uq['content']), 'network[lo,hi]': list(uq['network'])},
             'deleted': [name(h) for h in deleted],
             'rows_without_file': sum(1 for x in ip.info.values() if x['dead'])}

    def desc(hs):
        return [f"{name(h)}({ip.info[h]['len']}B,{ip.info[h]['cls']}{',sd' if ip.info[h]['is_sd'] else ''})"
                for h in hs if h in ip.info][:12]

    # ---- U2: own blobs are never deleted
    own_before = [h for h, x in ip.info.items() if x['own']]
    if own_before and deleted:
        hits['U2.checked_pass_deleting_with_own_present'] += 1
    hits['U2.own_blobs_checked'] += len(own_before)
    own_del = [h for h in deleted if h in ip.info and ip.info[h]['own']]
    if own_del:
        V.append((f'C19/U2/own-blob-deleted/{pname}',
                  f'{pname} (blob_storage_limit={climit}, network_storage_limit={nlimit}) deleted blobs marked is_mine: {desc(own_del)}',
                  {'own_deleted': desc(own_del)}))

    # ---- U1 / U3(class): a deleted foreign blob must belong to a class that is over its limit
    wrong = collections.OrderedDict()
    for h in deleted:
        x = ip.info.get(h)
        if x is None:           # stray file without a row: belongs to no class, not judged
            logs['U3.stray_file_deleted'] += 1
            continue
        if x['own'] or ip.void(h):
            continue
        hits['U3.deleted_blob_class_checked'] += 1
        c = x['cls']
        if is_over(c, up, climit, nlimit, 'hi'):
            continue
        why = 'unlimited' if (c == 'content' and climit == 0) else 'within-limit'
        if c == pcls:
            key = f'C19/U1/deleted-while-{why}/{c}'
        elif c == 'content':
            key = f"C19/U3/network-pass-deleted-{'stream-sd-blob' if x['is_sd'] else 'stream-data-blob'}"
        else:
            key = 'C19/U3/content-pass-deleted-network-blob'
        wrong.setdefault(key, []).append(h)
    for key, hs in wrong.items():
        c = ip.info[hs[0]]['cls']
        V.append((key, f'{pname}: {c} usage {list(up[c])} MB [lo,hi] vs limit {limit_of(c, climit, nlimit)} MB '
                       f"({'0 = unlimited' if (c == 'content' and climit == 0) else 'not over'}) but {len(hs)} {c} blob(s) were deleted: {desc(hs)}",
                  {'deleted_wrongly': desc(hs)}))
    # non-vacuity of the "must not delete" clause: class not over AND something removable existed
    for c in ('content', 'network'):
        if not is_over(c, up, climit, nlimit, 'hi') and ip.removable_narrow(c):
            why = 'unlimited' if (c == 'content' and climit == 0) else 'within_limit'
            hits[f'U1.{why}_with_removable.{c}.in_{pname}'] += 1
            hits[f'U1.{why}_with_removable.{c}'] += 1
            if c == pcls and up[c][0] == up[c][1] == limit_of(c, climit, nlimit) and why == 'within_limit':
                hits[f'U1.exactly_at_limit.{c}'] += 1

    # ---- U3(consistency): a deleted blob loses row AND file; survivors keep both untouched
    half_a = [h for h in gone_rows if h in pre['disk'] and h in post['disk']]
    half_b = [h for h in gone_files if h in pre['blobs'] and h in post['blobs']]
    if half_a:
        V.append(('C19/U3/row-deleted-file-kept', f'{pname}: rows removed but files still on disk: {desc(half_a)}',
                  {'blobs': desc(half_a)}))
    if half_b:
        V.append(('C19/U3/file-deleted-row-kept', f'{pname}: files removed but rows still in the blob table: {desc(half_b)}',
                  {'blobs': desc(half_b)}))
    resized = []
    for h in pre['disk']:
        if h in post['disk']:
            hits['U3.survivor_checked'] += 1
            if post['disk'][h] != pre['disk'][h]:
                resized.append(h)
    for h in pre['blobs']:
        if h in post['blobs'] and list(post['blobs'][h]) != list(pre['blobs'][h]):
            logs['U3.survivor_row_changed'] += 1
    if resized:
        V.append(('C19/U3/surviving-file-resized', f'{pname}: surviving blob files changed size: {desc(resized)}',
                  {'blobs': desc(resized)}))
    new_rows = [h for h in post['blobs'] if h not in pre['blobs']]
    if new_rows:
        logs['U3.rows_appeared'] += 1

    # ---- U4: enough removable blobs (whole-MiB credits) => usage within the limit afterwards
    narrow = ip.removable_narrow(pcls)
    credit = sum(fl(ip.info[h]['len']) for h in narrow)
    lo, hi = up[pcls]
    facts['removable_whole_mb_credit'] = credit
    if is_over(pcls, up, climit, nlimit, 'lo'):
        excess_hi = hi - lim
        if is_net and ip.big_foreign_sd():
            logs['U4.not_demanded_big_sd_blob_in_network_list'] += 1
        elif credit >= excess_hi:
            tag = f"{pcls}.{'limit_zero' if lim == 0 else 'limit_nonzero'}"
            hits[f'U4.demanded.{tag}'] += 1
            hits['U4.demanded'] += 1
            if uq[pcls][0] > lim:
                V.append((f"C19/U4/still-over-limit/{pcls}/{'limit-zero' if lim == 0 else 'limit-nonzero'}",
                          f'{pname}: {pcls} usage {[lo, hi]} MB > limit {lim} MB, removable blobs worth {credit} whole MB '
                          f'existed (excess {excess_hi}), but usage after the pass is {list(uq[pcls])} MB; deleted {len(deleted)} blob(s)',
                          {'removable': desc(narrow)}))
        else:
            hits['U4.not_enough_removable'] += 1
            wide = sum(fl(ip.info[h]['len']) for h in ip.removable_wide(pcls) if ip.info[h]['finished'])
            if wide >= excess_hi:
                logs['U4.only_enough_with_fileless_or_offdisk_blobs'] += 1
    # ---- U5: the pass did not go on after its goal (whole-MiB accounting)
    dc = [h for h in deleted if h in ip.info and not ip.info[h]['own'] and ip.info[h]['cls'] == pcls and not ip.void(h)]
    if dc and is_over(pcls, up, climit, nlimit, 'hi'):
        excess_hi = hi - lim
        fs = [fl(ip.info[h]['len']) for h in dc]
        hits[f'U5.checked.{pcls}'] += 1
        if sum(fs) - max(fs) >= excess_hi:
            V.append((f'C19/U5/freed-beyond-whole-MB-allowance/{pcls}',
                      f'{pname}: excess was {excess_hi} MB (usage {[lo, hi]} vs limit {lim}) but deleted {pcls} blobs are worth '
                      f'{sum(fs)} whole MB and still {sum(fs) - max(fs)} MB without the largest one: {desc(dc)}',
                      {'deleted': desc(dc), 'credits': fs[:60]}))
        if order is not None:
            seen, seq = set(), []
            for h in order:
                if h in seen or h not in ip.info:
                    continue
                seen.add(h)
                if not ip.info[h]['own'] and ip.info[h]['cls'] == pcls and h in set(dc):
                    seq.append(h)
            acc, reached = 0, None
            for i, h in enumerate(seq):
                acc += fl(ip.info[h]['len'])
                if acc >= excess_hi:
                    reached = i
                    break
            if reached is not None:
                hits[f'U5.goal_reached_in_order.{pcls}'] += 1
                left = [h for h in narrow if h not in set(dc) and fl(ip.info[h]['len']) >= 1]
                if left and lo == hi:
                    hits['U5.stopped_with_whole_MB_blobs_left'] += 1
                    if acc == excess_hi:
                        hits['U5.goal_hit_exactly_with_whole_MB_blobs_left'] += 1
                if reached < len(seq) - 1:
                    V.append((f'C19/U5/continued-past-goal/{pcls}',
                              f'{pname}: excess {excess_hi} MB was covered after deleting {reached + 1} blob(s) '
                              f'({acc} whole MB) but the pass deleted {len(seq) - reached - 1} more: {desc(seq)}',
                              {'order': desc(seq), 'goal_after_index': reached}))
    facts['deleted_n'] = len(deleted)
    return {'violations': V, 'hits': hits, 'logs': logs, 'facts': facts, 'deleted': deleted,
            'usage_before': up, 'usage_after': uq, 'has_dead': ip.has_dead or iq.has_dead,
            'removed_without_file': [h for h in gone_rows if ip.info[h]['dead']]}


# ------------------------------------------------------------------------------------ self test
def _h(tag):
    import hashlib
    return hashlib.sha384(tag.encode()).hexdigest()


def _mk(streams, net, drop=(), nofile=()):
    """streams: [(id, own, has_file_row, [sizes])], net: [sizes] -> snapshot; `drop` = labels removed, `nofile` = row without file"""
    s = {'blobs': {}, 'streams': {}, 'stream_blobs': [], 'files': [], 'disk': {}}
    names = {}
    t = 0
    for sid, own, has_file, sizes in streams:
        sh, sd = _h(sid + '.stream'), _h(sid + '.sd')
        s['streams'][sh] = sd
        names[sd] = sid + '.sd'
        if has_file:
            s['files'].append(sh)
        if sid + '.sd' not in drop:
            s['blobs'][sd] = [300, 'finished', int(own), t]
            s['disk'][sd] = 300
        for k, n in enumerate(sizes):
            h = _h(f'{sid}.{k}')
            names[h] = f'{sid}.{k}'
            t += 1
            s['stream_blobs'].append([sh, h])
            if f'{sid}.{k}' not in drop:
                s['blobs'][h] = [n, 'finished', int(own), t]
                if f'{sid}.{k}' not in nofile:
                    s['disk'][h] = n
    for k, n in enumerate(net):
        h = _h(f'net{k}')
        names[h] = f'net{k}'
        if f'net{k}' not in drop:
            s['blobs'][h] = [n, 'finished', 0, k]
            if f'net{k}' not in nofile:
                s['disk'][h] = n
    return s, names


def self_test():
    """fixed vectors.  V1 is the scenario of the repository's own integration test
    (tests/integration/datanetwork/test_file_commands.py::DiskSpaceManagement): four streams of
    2, 3, 3, 2 MiB plaintext, the second one own; content 7 MB, own 3 MB, total 10 MB; limit 6 MB;
    expected outcome there: streams 1 and 3 removed, content 2 MB, own 3 MB."""
    two, pad = 2 * MIB, 16
    st = [('s1', False, True, [two, pad]), ('s2', True, True, [two, MIB + pad]),
          ('s3', False, True, [two, MIB + pad]), ('s4', False, True, [two, pad])]
    pre, names = _mk(st, [])
    nm = lambda h: names.get(h, h[:8])
    u = Index(pre).usage()
    assert u['content'] == (10, 10) and u['downloaded_mb'] == (7, 7) and u['own_mb'] == (3, 3) and u['network'] == (0, 0), u
    post, _ = _mk(st, [], drop=('s1.0', 's1.1', 's3.0', 's3.1'))
    r = judge_pass(pre, post, False, 6, 0, name=nm)
    assert not r['violations'], r['violations']
    assert r['usage_after']['content'] == (5, 5) and r['hits']['U4.demanded'] == 1 and r['hits']['U5.checked.content'] == 1
    # no limit / within limit: nothing may go
    for lim, key in ((0, 'C19/U1/deleted-while-unlimited/content'), (10, 'C19/U1/deleted-while-within-limit/content'),
                     (11, 'C19/U1/deleted-while-within-limit/content')):
        post, _ = _mk(st, [], drop=('s1.1',))
        r = judge_pass(pre, post, False, lim, 0, name=nm)
        assert [v[0] for v in r['violations']] == [key], (lim, r['violations'])
        r = judge_pass(pre, pre, False, lim, 0, name=nm)
        assert not r['violations'] and r['hits']['U1.%s_with_removable.content' % ('unlimited' if lim == 0 else 'within_limit')]
    # own blob deleted
    post, _ = _mk(st, [], drop=('s1.0', 's2.0'))
    keys = [v[0] for v in judge_pass(pre, post, False, 6, 0, name=nm)['violations']]
    assert keys == ['C19/U2/own-blob-deleted/content-pass'], keys
    # everything removable deleted although 4 MB were enough
    post, _ = _mk(st, [], drop=('s1.0', 's1.1', 's3.0', 's3.1', 's4.0', 's4.1'))
    keys = [v[0] for v in judge_pass(pre, post, False, 6, 0, name=nm)['violations']]
    assert keys == ['C19/U5/freed-beyond-whole-MB-allowance/content'], keys
    # one blob too many, visible only in deletion order: 2 + 2 covers the excess of 4, then a 1 MiB blob
    post, _ = _mk(st, [], drop=('s1.0', 's3.0', 's3.1'))
    order = [_h('s1.0'), _h('s3.0'), _h('s3.1')]
    keys = [v[0] for v in judge_pass(pre, post, False, 6, 0, order=order, name=nm)['violations']]
    assert keys == ['C19/U5/continued-past-goal/content'], keys
    keys = [v[0] for v in judge_pass(pre, post, False, 6, 0, order=[order[2], order[0], order[1]], name=nm)['violations']]
    assert keys == [], keys
    # over the limit, enough removable, nothing done
    keys = [v[0] for v in judge_pass(pre, pre, False, 6, 0, name=nm)['violations']]
    assert keys == ['C19/U4/still-over-limit/content/limit-nonzero'], keys
    # not enough removable (limit 2: excess 8, removable worth 7): no demand
    post, _ = _mk(st, [], drop=('s1.0', 's1.1', 's3.0', 's3.1', 's4.0', 's4.1'))
    r = judge_pass(pre, post, False, 2, 0, name=nm)
    assert not r['violations'] and r['hits']['U4.not_enough_removable'] == 1, r['violations']
    # network class: limit 0 = nothing allowed; sd blob of a downloaded stream is content, not network
    pre, names = _mk([('d', False, True, [MIB])], [MIB, MIB, MIB // 2])
    assert Index(pre).usage()['network'] == (2, 2)
    post, _ = _mk([('d', False, True, [MIB])], [MIB, MIB, MIB // 2], drop=('net0', 'net1', 'net2'))
    assert not judge_pass(pre, post, True, 0, 0, name=nm)['violations']
    keys = [v[0] for v in judge_pass(pre, pre, True, 0, 0, name=nm)['violations']]
    assert keys == ['C19/U4/still-over-limit/network/limit-zero'], keys
    post, _ = _mk([('d', False, True, [MIB])], [MIB, MIB, MIB // 2], drop=('net0', 'net1', 'net2', 'd.sd'))
    keys = [v[0] for v in judge_pass(pre, post, True, 0, 0, name=nm)['violations']]
    assert keys == ['C19/U3/network-pass-deleted-stream-sd-blob'], keys
    post, _ = _mk([('d', False, True, [MIB])], [MIB, MIB, MIB // 2], drop=('net0',))
    keys = [v[0] for v in judge_pass(pre, post, True, 0, 2, name=nm)['violations']]
    assert keys == ['C19/U1/deleted-while-within-limit/network'], keys
    post, _ = _mk([('d', False, True, [MIB])], [MIB, MIB, MIB // 2], drop=('net0', 'd.0'))
    keys = [v[0] for v in judge_pass(pre, post, True, 5, 1, name=nm)['violations']]
    assert keys == ['C19/U3/network-pass-deleted-stream-data-blob'], keys
    # half deletions
    post, _ = _mk([('d', False, True, [MIB])], [MIB, MIB, MIB // 2], drop=('net0',))
    post['disk'][_h('net0')] = MIB
    keys = [v[0] for v in judge_pass(pre, post, True, 0, 1, name=nm)['violations']]
    assert keys == ['C19/U3/row-deleted-file-kept'], keys
    post, _ = _mk([('d', False, True, [MIB])], [MIB, MIB, MIB // 2], drop=('net0',))
    post['blobs'][_h('net0')] = [MIB, 'finished', 0, 0]
    keys = [v[0] for v in judge_pass(pre, post, True, 0, 1, name=nm)['violations']]
    assert 'C19/U3/file-deleted-row-kept' in keys, keys
    # finished rows without their file (d.1, d.5): 8 MiB on disk, 12 MiB recorded
    st, gone = [('d', False, True, [two] * 6)], ('d.1', 'd.5')
    pre, names = _mk(st, [], nofile=gone)
    assert Index(pre).usage()['content'] == (8, 12) and Index(pre, 'count').usage()['content'] == (12, 12) \
        and Index(pre, 'skip').usage()['content'] == (8, 8)
    # limit 8: doing nothing holds if they are not counted; deleting d.0 and the row of d.1 holds if they are counted
    r = judge_pass(pre, pre, False, 8, 0, name=nm)
    assert not r['violations'] and r['hits']['U7.holds_only_if_rows_without_file_are_not_counted'] == 1, r['violations']
    post, _ = _mk(st, [], drop=('d.0', 'd.1'), nofile=gone)
    r = judge_pass(pre, post, False, 8, 0, name=nm)
    assert not r['violations'] and r['hits']['U7.holds_only_if_rows_without_file_are_counted'] == 1 \
        and r['hits']['U7.row_without_file_removed_by_pass'] == 1, r['violations']
    # deleting d.0 but keeping the row of d.1: on disk 6 <= 8 was within the limit all along, recorded 10 > 8 is still over
    post, _ = _mk(st, [], drop=('d.0',), nofile=gone)
    keys = [v[0] for v in judge_pass(pre, post, False, 8, 0, name=nm)['violations']]
    assert keys == ['C19/U7/no-reading-of-rows-without-file-holds/U4.still-over-limit-if-counted+U1.deleted-while-within-limit-if-not/content'], keys
    # limit 6: over under both readings, nothing done -> the ordinary clause
    keys = [v[0] for v in judge_pass(pre, pre, False, 6, 0, name=nm)['violations']]
    assert keys == ['C19/U4/still-over-limit/content/limit-nonzero'], keys
    post, _ = _mk(st, [], drop=('d.0', 'd.1', 'd.2'), nofile=gone)
    assert not judge_pass(pre, post, False, 6, 0, name=nm)['violations']
    # limit 12: within the limit under both readings, a blob deleted -> the ordinary clause
    post, _ = _mk(st, [], drop=('d.0',), nofile=gone)
    keys = [v[0] for v in judge_pass(pre, post, False, 12, 0, name=nm)['violations']]
    assert keys == ['C19/U1/deleted-while-within-limit/content'], keys
    return 32

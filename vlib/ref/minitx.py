"""Minimal independent parser of the legacy Bitcoin/LBRY transaction encoding (no lbry imports).
Only what the wallet-funding monitors need: outpoints, script bytes, amounts, sizes."""
import hashlib
import struct


def _cs(b, o):
    v = b[o]
    if v < 253:
        return v, o + 1
    if v == 253:
        return struct.unpack_from('<H', b, o + 1)[0], o + 3
    if v == 254:
        return struct.unpack_from('<I', b, o + 1)[0], o + 5
    return struct.unpack_from('<Q', b, o + 1)[0], o + 9


def parse(raw: bytes):
    o = 0
    version = struct.unpack_from('<I', raw, o)[0]
    o += 4
    nin, o = _cs(raw, o)
    if nin == 0:
        raise ValueError('segwit marker / zero inputs not supported by minitx')
    ins = []
    for _ in range(nin):
        start = o
        prev = raw[o:o + 32][::-1].hex()
        idx = struct.unpack_from('<I', raw, o + 32)[0]
        o += 36
        sl, o = _cs(raw, o)
        script = raw[o:o + sl]
        o += sl
        seq = struct.unpack_from('<I', raw, o)[0]
        o += 4
        ins.append({'txid': prev, 'nout': idx, 'script': script, 'sequence': seq, 'size': o - start})
    nout, o = _cs(raw, o)
    outs = []
    for _ in range(nout):
        start = o
        amount = struct.unpack_from('<Q', raw, o)[0]
        o += 8
        sl, o = _cs(raw, o)
        script = raw[o:o + sl]
        o += sl
        outs.append({'amount': amount, 'script': script, 'size': o - start})
    locktime = struct.unpack_from('<I', raw, o)[0]
    o += 4
    if o != len(raw):
        raise ValueError(f'trailing bytes: parsed {o} of {len(raw)}')
    txid = hashlib.sha256(hashlib.sha256(raw).digest()).digest()[::-1].hex()
    return {'version': version, 'inputs': ins, 'outputs': outs, 'locktime': locktime, 'txid': txid, 'size': len(raw)}


def p2pkh_hash(script: bytes):
    """returns the 20-byte hash if script is exactly OP_DUP OP_HASH160 <20> OP_EQUALVERIFY OP_CHECKSIG"""
    if len(script) == 25 and script[:3] == b'\x76\xa9\x14' and script[23:] == b'\x88\xac':
        return script[3:23]
    return None


def claim_name_of(script: bytes):
    """OP_CLAIM_NAME (0xb5) <name> ... -> name bytes (for the per-character name fee), else None"""
    if not script or script[0] != 0xb5:
        return None
    o = 1
    op = script[o]
    if op <= 75:
        ln, o = op, o + 1
    elif op == 76:
        ln, o = script[o + 1], o + 2
    elif op == 77:
        ln, o = struct.unpack_from('<H', script, o + 1)[0], o + 3
    else:
        return None
    return script[o:o + ln]


B58 = '123456789ABCDEFGHJKLMNPQRSTUVWXYZabcdefghijkmnopqrstuvwxyz'


def b58check_decode(s: str) -> bytes:
    n = 0
    for c in s:
        n = n * 58 + B58.index(c)
    body = n.to_bytes((n.bit_length() + 7) // 8, 'big')
    pad = len(s) - len(s.lstrip('1'))
    full = b'\x00' * pad + body
    payload, chk = full[:-4], full[-4:]
    if hashlib.sha256(hashlib.sha256(payload).digest()).digest()[:4] != chk:
        raise ValueError('bad checksum')
    return payload

"""Independent reference for the legacy (pre-segwit) SIGHASH_ALL signature hash and for the
shape of the scripts involved.  Written for this harness from the public Bitcoin
specification of OP_CHECKSIG (https://en.bitcoin.it/wiki/OP_CHECKSIG, "Hashtype SIGHASH_ALL
(default)"), BIP66 (strict DER) and the script push-data rules.  Shares no code with lbry;
built on the independent raw-transaction parser vlib/ref/minitx.py.

  preimage_all(raw, i, script_code) -> bytes
        version(4 LE) | #in | for each input k: prev-hash(32) prev-index(4 LE)
        [script_code if k == i else empty script] sequence(4 LE) | #out | outputs unchanged |
        locktime(4 LE) | hash type 0x01000000 (4 bytes LE)
        `script_code` is the scriptPubKey of the output being spent (for P2SH: the redeem
        script).  The standard templates contain neither OP_CODESEPARATOR nor the signature,
        so no FindAndDelete processing is needed.
  digest_all(raw, i, script_code)   -> SHA256(SHA256(preimage))     (the message ECDSA signs)
  tokens(script)  -> [(opcode, data-or-None)]   (raises ValueError on a truncated push)
  pushes(script)  -> [data, ...] if the script consists of data pushes only, else None
  p2pkh_tail(script) -> the 20-byte hash if the script ENDS with DUP HASH160 <20> EQUALVERIFY CHECKSIG
  p2sh_hash(script)  -> the 20-byte hash if the script IS HASH160 <20> EQUAL
  der_signature(sig) -> (r, s) of a strictly DER encoded ECDSA signature (BIP66), else ValueError
  selftest()         -> number of assertions; raises on mismatch with fixed public vectors
"""
import hashlib

from vlib.ref import minitx

SIGHASH_ALL = 1
SECP256K1_N = 0xFFFFFFFFFFFFFFFFFFFFFFFFFFFFFFFEBAAEDCE6AF48A03BBFD25E8CD0364141


def sha256d(b: bytes) -> bytes:
    return hashlib.sha256(hashlib.sha256(b).digest()).digest()


def hash160(b: bytes) -> bytes:
    return hashlib.new('ripemd160', hashlib.sha256(b).digest()).digest()


def _compact(n: int) -> bytes:
    if n < 253:
        return bytes([n])
    if n <= 0xFFFF:
        return b'\xfd' + n.to_bytes(2, 'little')
    if n <= 0xFFFFFFFF:
        return b'\xfe' + n.to_bytes(4, 'little')
    return b'\xff' + n.to_bytes(8, 'little')


def preimage_all(raw: bytes, index: int, script_code: bytes, hash_type: int = SIGHASH_ALL) -> bytes:
    tx = minitx.parse(bytes(raw))
    if not 0 <= index < len(tx['inputs']):
        raise IndexError('input index out of range')
    script_code = bytes(script_code)
    out = bytearray()
    out += tx['version'].to_bytes(4, 'little')
    out += _compact(len(tx['inputs']))
    for k, txin in enumerate(tx['inputs']):
        out += bytes.fromhex(txin['txid'])[::-1]
        out += txin['nout'].to_bytes(4, 'little')
        if k == index:
            out += _compact(len(script_code)) + script_code
        else:
            out += b'\x00'
        out += txin['sequence'].to_bytes(4, 'little')
    out += _compact(len(tx['outputs']))
    for txout in tx['outputs']:
        out += txout['amount'].to_bytes(8, 'little')
        out += _compact(len(txout['script'])) + txout['script']
    out += tx['locktime'].to_bytes(4, 'little')
    out += hash_type.to_bytes(4, 'little')
    return bytes(out)


def digest_all(raw: bytes, index: int, script_code: bytes) -> bytes:
    return sha256d(preimage_all(raw, index, script_code))


# ------------------------------------------------------------------------------ scripts
def tokens(script: bytes):
    script = bytes(script)
    out, o, n = [], 0, len(script)
    while o < n:
        op = script[o]
        o += 1
        if 1 <= op <= 75:
            ln = op
        elif op == 76:
            if o + 1 > n:
                raise ValueError('truncated OP_PUSHDATA1')
            ln, o = script[o], o + 1
        elif op == 77:
            if o + 2 > n:
                raise ValueError('truncated OP_PUSHDATA2')
            ln, o = int.from_bytes(script[o:o + 2], 'little'), o + 2
        elif op == 78:
            if o + 4 > n:
                raise ValueError('truncated OP_PUSHDATA4')
            ln, o = int.from_bytes(script[o:o + 4], 'little'), o + 4
        else:
            out.append((op, b'' if op == 0 else None))
            continue
        if o + ln > n:
            raise ValueError('push exceeds script')
        out.append((op, script[o:o + ln]))
        o += ln
    return out


def pushes(script: bytes):
    try:
        toks = tokens(script)
    except ValueError:
        return None
    if any(d is None for _, d in toks):
        return None
    return [d for _, d in toks]


def p2pkh_tail(script: bytes):
    try:
        toks = tokens(script)
    except ValueError:
        return None
    if len(toks) < 5:
        return None
    t = toks[-5:]
    if [t[0][0], t[1][0], t[3][0], t[4][0]] == [0x76, 0xa9, 0x88, 0xac] and t[2][0] == 20 and len(t[2][1]) == 20:
        return t[2][1]
    return None


def p2sh_hash(script: bytes):
    script = bytes(script)
    if len(script) == 23 and script[0] == 0xa9 and script[1] == 20 and script[22] == 0x87:
        return script[2:22]
    return None


def der_signature(sig: bytes):
    """BIP66: 0x30 len 0x02 rlen R 0x02 slen S; minimal positive integers; nothing else."""
    sig = bytes(sig)
    if len(sig) < 8 or len(sig) > 72:
        raise ValueError('bad DER signature length %d' % len(sig))
    if sig[0] != 0x30 or sig[1] != len(sig) - 2:
        raise ValueError('bad DER sequence header')
    if sig[2] != 0x02:
        raise ValueError('R is not an INTEGER')
    rl = sig[3]
    if rl == 0 or 4 + rl + 2 > len(sig):
        raise ValueError('bad R length')
    r = sig[4:4 + rl]
    if sig[4 + rl] != 0x02:
        raise ValueError('S is not an INTEGER')
    sl = sig[5 + rl]
    if sl == 0 or 6 + rl + sl != len(sig):
        raise ValueError('bad S length')
    s = sig[6 + rl:]
    for name, v in (('R', r), ('S', s)):
        if v[0] & 0x80:
            raise ValueError(name + ' is negative')
        if len(v) > 1 and v[0] == 0 and not v[1] & 0x80:
            raise ValueError(name + ' has a superfluous leading zero')
    return int.from_bytes(r, 'big'), int.from_bytes(s, 'big')


# ------------------------------------------------------------------------------ self test
# BIP143 ("Native P2WPKH" example): the first input spends a P2PK output and is signed the
# legacy way; transaction, public key and signature are published in the BIP text.
_BIP143_SIGNED_LEGACY_PART = (
    '0100000002fff7f7881a8099afa6940d42d1e7f6362bec38171ea3edf433541db4e4ad969f00000000494830450221008b'
    '9d1dc26ba6a9cb62127b02742fa9d754cd3bebf337f7a55d114c8e5cdd30be022040529b194ba3f9281a99f2b1c0a19c0489bc'
    '22ede944ccf4ecbab4cc618ef3ed01eeffffffef51e1b804cc89d182d279655c3aa89e815b1b309fe287d9b2b55d57b90ec68a'
    '0100000000ffffffff02202cb206000000001976a9148280b37df378db99f66f85c95a783a76ac7a6d5988ac9093510d000000'
    '001976a9143bde42dbee7e4dbe6a21b2d50ce2f0167faa815988ac11000000')
_BIP143_P2PK_PUBKEY = '03c9f4836b9a4f77fc0d81f7bcb01b7f1b35916864b9476c241ce9fc198bd25432'


def _verify(pubkey: bytes, der_sig: bytes, digest: bytes) -> bool:
    import ecdsa
    from ecdsa.util import sigdecode_der
    vk = ecdsa.VerifyingKey.from_string(bytes(pubkey), curve=ecdsa.SECP256k1)
    try:
        return bool(vk.verify_digest(bytes(der_sig), digest, sigdecode=sigdecode_der))
    except (ecdsa.BadSignatureError, ecdsa.der.UnexpectedDER, ValueError):
        return False


def selftest(mainnet_raw_txs=()) -> int:
    """`mainnet_raw_txs`: raw real transactions whose inputs redeem plain P2PKH outputs (the spent script is
    then determined by the public key in the scriptSig); each input's network-validated signature must verify
    over this module's preimage."""
    n = 0

    def ensure(cond, what):
        nonlocal n
        n += 1
        if not cond:
            raise AssertionError('vlib.ref.sighash self-test failed: ' + what)

    ensure(_compact(252) == b'\xfc' and _compact(253) == b'\xfd\xfd\x00' and _compact(65536) == b'\xfe\x00\x00\x01\x00',
           'compact size')
    ensure(hash160(b'') == bytes.fromhex('b472a266d0bd89c13706a4132ccfb16f7c3b9fcb'), 'hash160 of the empty string')
    raw = bytes.fromhex(_BIP143_SIGNED_LEGACY_PART)
    tx = minitx.parse(raw)
    ss = pushes(tx['inputs'][0]['script'])
    ensure(ss is not None and len(ss) == 1 and ss[0][-1] == 1, 'BIP143 input 0 scriptSig shape')
    pub = bytes.fromhex(_BIP143_P2PK_PUBKEY)
    p2pk = bytes([len(pub)]) + pub + b'\xac'
    ensure(_verify(pub, ss[0][:-1], digest_all(raw, 0, p2pk)), 'BIP143 input 0 verifies over the reference preimage')
    ensure(not _verify(pub, ss[0][:-1], digest_all(raw, 1, p2pk)), 'wrong input index must not verify')
    ensure(not _verify(pub, ss[0][:-1], sha256d(preimage_all(raw, 0, p2pk)[:-4])), 'preimage without hash type must not verify')
    r, s = der_signature(ss[0][:-1])
    ensure(0 < r < SECP256K1_N and 0 < s < SECP256K1_N, 'DER decode')
    for bad in ('3006020101020100ff', '30060201010201', '300702020001020101', '3006028101020101'):
        try:
            der_signature(bytes.fromhex(bad))
            ensure(False, 'non-strict DER accepted: ' + bad)
        except ValueError:
            ensure(True, '')
    ensure(p2pkh_tail(bytes.fromhex('76a914' + '11' * 20 + '88ac')) == b'\x11' * 20, 'p2pkh tail')
    ensure(p2pkh_tail(bytes.fromhex('b503616263' + '02abcd' + '6d75' + '76a914' + '22' * 20 + '88ac')) == b'\x22' * 20,
           'claim-name + p2pkh tail')
    ensure(p2pkh_tail(bytes.fromhex('76a914' + '11' * 20 + '88')) is None, 'not p2pkh')
    ensure(p2sh_hash(bytes.fromhex('a914' + '33' * 20 + '87')) == b'\x33' * 20, 'p2sh')
    for rawtx in mainnet_raw_txs:
        m = minitx.parse(rawtx)
        for k, txin in enumerate(m['inputs']):
            ps = pushes(txin['script'])
            ensure(ps is not None and len(ps) == 2 and ps[0][-1] == 1, f'main-net {m["txid"]} input {k} scriptSig shape')
            spent = b'\x76\xa9\x14' + hash160(ps[1]) + b'\x88\xac'
            ensure(_verify(ps[1], ps[0][:-1], digest_all(rawtx, k, spent)),
                   f'main-net {m["txid"]} input {k}: network-validated signature verifies over the reference preimage')
    return n

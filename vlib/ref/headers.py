"""Independent reference for LBRY block headers (no lbry imports): 112-byte layout, header hash,
LBRY proof-of-work hash, Bitcoin compact-target codec with exact integer arithmetic, the LBRY
per-block retarget rule (lbrycrd src/lbry.cpp), a chain validator and a miner for sim networks."""
import hashlib
import struct

HEADER_SIZE = 112
TARGET_TIMESPAN = 150


def sha256d(b):
    return hashlib.sha256(hashlib.sha256(b).digest()).digest()


def header_hash(raw: bytes) -> bytes:
    """internal byte order (as it appears in the next header's prev_block_hash field)"""
    return sha256d(raw)


def header_hash_hex(raw: bytes) -> str:
    return sha256d(raw)[::-1].hex()


def pow_value(raw: bytes) -> int:
    h = hashlib.sha512(sha256d(raw)).digest()
    a = hashlib.new('ripemd160', h[:32]).digest()
    b = hashlib.new('ripemd160', h[32:]).digest()
    return int.from_bytes(sha256d(a + b), 'little')


def compact_to_target(bits: int) -> int:
    size = bits >> 24
    word = bits & 0x007fffff
    if size <= 3:
        return word >> (8 * (3 - size))
    return word << (8 * (size - 3))


def target_to_compact(t: int) -> int:
    size = (t.bit_length() + 7) // 8
    if size <= 3:
        c = t << (8 * (3 - size))
    else:
        c = t >> (8 * (size - 3))
    if c & 0x00800000:
        c >>= 8
        size += 1
    return c | (size << 24)


def _tdiv(a, b):
    """C++ integer division: truncation toward zero"""
    q = abs(a) // abs(b)
    return q if (a >= 0) == (b >= 0) else -q


def next_target(max_target: int, prevprev, prev) -> int:
    """prev / prevprev: dicts with 'timestamp' and 'bits' (prevprev may be None -> prev is used)."""
    if prev is None:
        return max_target
    if prevprev is None:
        prevprev = prev
    actual = prev['timestamp'] - prevprev['timestamp']
    modulated = TARGET_TIMESPAN + _tdiv(actual - TARGET_TIMESPAN, 8)
    lo = TARGET_TIMESPAN - TARGET_TIMESPAN // 8
    hi = TARGET_TIMESPAN + TARGET_TIMESPAN // 2
    clamped = max(lo, min(modulated, hi))
    new = ((compact_to_target(prev['bits']) * clamped) % (1 << 256)) // TARGET_TIMESPAN
    return min(max_target, new)


def pack(version, prev_hash, merkle, claimtrie, timestamp, bits, nonce) -> bytes:
    return struct.pack('<I', version) + prev_hash + merkle + claimtrie + struct.pack('<III', timestamp, bits, nonce)


def unpack(raw: bytes) -> dict:
    version, = struct.unpack_from('<I', raw, 0)
    timestamp, bits, nonce = struct.unpack_from('<III', raw, 100)
    return {'version': version, 'prev': raw[4:36], 'merkle': raw[36:68], 'claimtrie': raw[68:100],
            'timestamp': timestamp, 'bits': bits, 'nonce': nonce}


def mine(version, prev_hash, merkle, claimtrie, timestamp, bits, target, start_nonce=0, want_valid=True, max_tries=1 << 22, above=None):
    """find a nonce whose PoW value is <= target (or > target when want_valid is False).  With `above` the value must also be
    > above (used to mine into the sliver between the compact-decoded and the full-precision target); a miner that honours
    consensus passes target = compact_to_target(bits)."""
    head = struct.pack('<I', version) + prev_hash + merkle + claimtrie + struct.pack('<II', timestamp, bits)
    nonce = start_nonce
    for _ in range(max_tries):
        raw = head + struct.pack('<I', nonce & 0xffffffff)
        pv = pow_value(raw)
        if (pv <= target) == want_valid and (above is None or pv > above):
            return raw
        nonce += 1
    raise RuntimeError('mining budget exhausted')


def check_header(raw, height, prev_raw, prevprev_raw, max_target, genesis_hash_hex):
    """returns None if header `raw` at `height` is valid on top of prev_raw/prevprev_raw, else the name of the broken rule."""
    if height == 0:
        return None if header_hash_hex(raw) == genesis_hash_hex else 'genesis'
    h = unpack(raw)
    if h['prev'] != header_hash(prev_raw):
        return 'link'
    prev = unpack(prev_raw)
    prevprev = unpack(prevprev_raw) if prevprev_raw is not None else None
    target = next_target(max_target, prevprev, prev)
    if h['bits'] != target_to_compact(target):
        return 'bits'
    pv = pow_value(raw)
    if pv > target:
        return 'pow'
    if pv > compact_to_target(h['bits']):
        # consensus (CheckProofOfWork) compares with the target DECODED FROM THE BITS, which is the full-precision target
        # truncated to the compact mantissa: a hash in the sliver between the two does not meet the header's target
        return 'pow-above-compact-target'
    return None


def first_invalid(chain_below: bytes, start: int, batch: bytes, max_target, genesis_hash_hex):
    """index k of the first invalid header of `batch` connected at height `start` on top of chain_below[0:start]
    (bytes); None if all valid.  Returns (k, rule)."""
    n = len(batch) // HEADER_SIZE
    def hdr(buf, i):
        return buf[i * HEADER_SIZE:(i + 1) * HEADER_SIZE]
    prev = hdr(chain_below, start - 1) if start >= 1 else None
    prevprev = hdr(chain_below, start - 2) if start >= 2 else None
    for k in range(n):
        raw = hdr(batch, k)
        rule = check_header(raw, start + k, prev, prevprev, max_target, genesis_hash_hex)
        if rule:
            return k, rule
        prevprev, prev = prev, raw
    return None, None


def validate_chain(buf: bytes, count: int, max_target, genesis_hash_hex):
    """first invalid height in buf[0:count headers] or None"""
    k, rule = first_invalid(b'', 0, buf[:count * HEADER_SIZE], max_target, genesis_hash_hex)
    return k, rule

"""Independent reference for the LBRY URL grammar (spec.lbry.com, the grammar version that
lbry/schema/url.py of this tree documents: claim-id and bid-position modifiers, no `*n`
sequence modifier, no query string).  Hand-written recursive descent, NO regular
expressions, no code shared with lbry.

    URL        ::= Scheme? Path
    Scheme     ::= "lbry://"
    Path       ::= Channel "/" Stream | Channel | Stream
    Channel    ::= "@" Name Modifier?
    Stream     ::= Name Modifier?
    Modifier   ::= (":" | "#") Hex{1,40}  |  "$" PositiveInt
    Hex        ::= [0-9a-f]
    PositiveInt::= [1-9][0-9]*
    Name       ::= NameChar+
    NameChar   ::= any code point except  = & # : $ @ % ? ; " / \\ < > { } | ^ ~ ` [ ]
                   U+0000..U+0020, U+D800..U+DFFF, U+FFFE..U+FFFF

The whole string must be consumed: nothing may precede the scheme / first name and nothing
(in particular no line terminator) may follow the last name or modifier.
"""

FORBIDDEN_PUNCT = '=&#:$@%?;"/\\<>{}|^~`[]'
SCHEME = 'lbry://'
HEX = '0123456789abcdef'
DIGITS = '0123456789'


class Invalid(ValueError):
    def __init__(self, reason, pos):
        super().__init__(f'{reason} at {pos}')
        self.reason, self.pos = reason, pos


def name_char_allowed(c: str) -> bool:
    o = ord(c)
    if o <= 0x20:
        return False
    if 0xD800 <= o <= 0xDFFF:
        return False
    if o in (0xFFFE, 0xFFFF):
        return False
    return c not in FORBIDDEN_PUNCT


def _claim(s, pos, prefix):
    """-> ((name, claim_id, amount_order), new_pos); raises Invalid."""
    start = pos
    if prefix:
        if pos >= len(s) or s[pos] != prefix:
            raise Invalid('expected ' + prefix, pos)
        pos += 1
    n0 = pos
    while pos < len(s) and name_char_allowed(s[pos]):
        pos += 1
    if pos == n0:
        raise Invalid('empty name', pos)
    name = s[start:pos]
    claim_id = amount_order = None
    if pos < len(s) and s[pos] in ':#':
        pos += 1
        h0 = pos
        while pos < len(s) and s[pos] in HEX and pos - h0 < 40:
            pos += 1
        if pos == h0:
            raise Invalid('claim id needs 1..40 lower-case hex digits', pos)
        if pos - h0 == 40 and pos < len(s) and s[pos] in HEX:
            raise Invalid('claim id longer than 40 hex digits', pos)
        claim_id = s[h0:pos]
    elif pos < len(s) and s[pos] == '$':
        pos += 1
        d0 = pos
        if pos >= len(s) or s[pos] not in '123456789':
            raise Invalid('bid position must be a positive integer without leading zero', pos)
        while pos < len(s) and s[pos] in DIGITS:
            pos += 1
        amount_order = s[d0:pos]
    return (name, claim_id, amount_order), pos


def _path(s):
    """-> (channel|None, stream|None)"""
    if s.startswith('@'):
        channel, pos = _claim(s, 0, '@')
        if pos == len(s):
            return channel, None
        if s[pos] != '/':
            raise Invalid('unexpected character after channel', pos)
        stream, pos = _claim(s, pos + 1, '')
        if pos != len(s):
            raise Invalid('unexpected character after stream', pos)
        return channel, stream
    stream, pos = _claim(s, 0, '')
    if pos != len(s):
        raise Invalid('unexpected character after stream', pos)
    return None, stream


def parse(u):
    """-> dict(scheme: bool, channel: (name, claim_id, amount_order)|None, stream: ...|None).
    name of a channel includes the leading '@'; amount_order is the decimal string."""
    if not isinstance(u, str):
        raise Invalid('not a string', 0)
    first = None
    if u.startswith(SCHEME):
        try:
            channel, stream = _path(u[len(SCHEME):])
            return {'scheme': True, 'channel': channel, 'stream': stream}
        except Invalid as e:
            first = e
    try:
        channel, stream = _path(u)
    except Invalid as e:
        raise first or e
    return {'scheme': False, 'channel': channel, 'stream': stream}


def is_valid(u) -> bool:
    try:
        parse(u)
        return True
    except Invalid:
        return False


def _seg(seg):
    name, cid, order = seg
    if cid is not None:
        return f'{name}:{cid}'
    if order is not None:
        return f'{name}${order}'
    return name


def canonical(parsed) -> str:
    """canonical spelling: scheme present, ':' introduces a claim id."""
    parts = [p for p in (parsed['channel'], parsed['stream']) if p is not None]
    return SCHEME + '/'.join(_seg(p) for p in parts)


# fixed public vectors (spec examples and the shapes listed in the specification text);
# used by the check's shard_setup to validate THIS reference before it judges anything.
VALID_VECTORS = [
    ('lbry://meow', None, ('meow', None, None)),
    ('meow', None, ('meow', None, None)),
    ('lbry://meow#7a0aa95c5023c21c098aa5ea6d3f7e8f8e9c8c55', None, ('meow', '7a0aa95c5023c21c098aa5ea6d3f7e8f8e9c8c55', None)),
    ('lbry://meow:7a0aa95c5023c21c098aa5ea6d3f7e8f8e9c8c55', None, ('meow', '7a0aa95c5023c21c098aa5ea6d3f7e8f8e9c8c55', None)),
    ('lbry://meow#7a', None, ('meow', '7a', None)),
    ('lbry://meow$2', None, ('meow', None, '2')),
    ('lbry://@lbry', ('@lbry', None, None), None),
    ('lbry://@lbry#3f', ('@lbry', '3f', None), None),
    ('lbry://@lbry$10', ('@lbry', None, '10'), None),
    ('lbry://@lbry/meow', ('@lbry', None, None), ('meow', None, None)),
    ('lbry://@lbry#3f/meow', ('@lbry', '3f', None), ('meow', None, None)),
    ('@lbry:3f/meow#2', ('@lbry', '3f', None), ('meow', '2', None)),
    ('lbry://@lbry$1/meow$2', ('@lbry', None, '1'), ('meow', None, '2')),
    ('lbry://\u00e9\u4e2d\U0001f600', None, ('\u00e9\u4e2d\U0001f600', None, None)),
    ('lbry://\ud7ff\ue000\ufffd', None, ('\ud7ff\ue000\ufffd', None, None)),
    ('lbry:ab', None, ('lbry', 'ab', None)),
]
INVALID_VECTORS = [
    '', 'lbry://', 'lbry:///', 'lbry://@', 'lbry://@/what', 'lbry://meow/', 'lbry://meow/path', 'lbry://@a/b/c',
    'lbry://@a/@b', 'lbry://me ow', 'lbry://meow\n', 'meow\n', '\nmeow', 'lbry://me\tow', 'lbry://meow#', 'lbry://meow:',
    'lbry://meow$', 'lbry://meow$0', 'lbry://meow$01', 'lbry://meow#x', 'lbry://meow#ABCDEF',
    'lbry://meow#' + 'a' * 41, 'lbry://meow:1$1', 'lbry://meow$1:1', 'lbry://meow:1:1', 'lbry://meow@', 'lbry://me@ow',
    'lbry://lbry://meow', 'x/lbry://meow', 'lbry://meow?x', 'lbry://meow%', 'lbry://\ud800', 'lbry://\udfff',
    'lbry://\ufffe', 'lbry://\uffff', 'lbry://\x00', 'lbry://a\x00', 'LBRY://meow', 'lbry://meow$\u0661',
]


def self_check():
    for u, ch, st in VALID_VECTORS:
        p = parse(u)
        if p['channel'] != ch or p['stream'] != st:
            raise AssertionError(f'lbryurl reference disagrees with fixed vector {u!r}: {p}')
        c = canonical(p)
        p2 = parse(c)
        if (p2['channel'], p2['stream']) != (ch, st) or canonical(p2) != c:
            raise AssertionError(f'lbryurl reference: canonical form of {u!r} is not a fixed point')
    for u in INVALID_VECTORS:
        if is_valid(u):
            raise AssertionError(f'lbryurl reference accepts the invalid fixed vector {u!r}')
    return len(VALID_VECTORS) + len(INVALID_VECTORS)

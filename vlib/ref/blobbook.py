"""Ground truth + executable statement of C18 (blob bookkeeping vs. disk after a restart).

Written for the harness from the property statement; shares NO code with lbry:
  * blob names are recognised with a hand-written predicate (96 chars of 0-9a-f),
  * a "genuine" blob file is one whose SHA-384 (hashlib) equals its name,
  * the disk is listed with os.scandir + lstat, the database is read with plain sqlite3
    (`select blob_hash, status, blob_length from blob`) from a private COPY of the db (+ -wal)
    files, so that looking never changes what the code under test will find,
  * `evaluate()` is the statement: Z1 reported-completed => file present; Z2 blob file present
    => row `finished`; Z3 row `finished` before and file gone => row `pending` after;
    Z4 (further restart, nothing changed) reported == files present.

Deliberately lenient where the statement is silent (see DESIGN §4 C18 *Interpretation*):
  * zero-length files, files whose content does not hash to their name, and names that only lbry's
    looser pattern accepts (commas, trailing newline) are never REQUIRED to be recorded/reported,
    and are ALLOWED to be (they are files present) - counted under `logged`, not judged;
  * a directory (or other non-regular entry) carrying a blob's name is logged, not judged.

A symbolic link that resolves to a regular file IS a file present (kind 'l': open()/os.path.isfile, i.e.
everything that reads and serves a blob, follow it - a blob store partly moved to another volume and
linked back); a dangling link or a link to a directory is a non-regular entry (kind 'o').  The statement
puts no bound on the size of a file present: one larger than the protocol's 2 MiB blob limit whose
content hashes to its name is judged like any other (class suffix in the mechanism key).
"""
import hashlib
import os
import shutil
import sqlite3
import stat
import tempfile

HEXCHARS = frozenset('0123456789abcdef')
FILE_KINDS = ('f', 'l')            # regular file, symbolic link resolving to a regular file
MAX_BLOB_SIZE = 2 * 2 ** 20        # protocol constant (2 MiB), written down here independently of lbry
# public vector: the blob used by lbry's own tests/unit/blob/test_blob_manager.py
VECTOR_CONTENT = b'1' * ((2 * 2 ** 20) - 1)
VECTOR_NAME = '7f5ab2def99f0ddd008da71db3a3772135f4002b19b7605840ed1034c8955431bd7079549e65e6b2a3b9c17c773073ed'


def strict_blob_name(name) -> bool:
    return isinstance(name, str) and len(name) == 96 and all(c in HEXCHARS for c in name)


def blob_name_of(content: bytes) -> str:
    return hashlib.sha384(content).hexdigest()


def self_check():
    if blob_name_of(VECTOR_CONTENT) != VECTOR_NAME:
        raise RuntimeError('ref.blobbook: sha384 vector mismatch')
    good = [VECTOR_NAME, '0' * 96, 'f' * 96]
    bad = [VECTOR_NAME[:-1], VECTOR_NAME + '0', VECTOR_NAME.upper(), VECTOR_NAME[:-1] + ',', VECTOR_NAME[:-1] + '\n',
           VECTOR_NAME[:-1] + 'g', '', ' ' * 96, None, VECTOR_NAME.encode()]
    if not all(strict_blob_name(g) for g in good) or any(strict_blob_name(b) for b in bad):
        raise RuntimeError('ref.blobbook: name predicate self-check failed')


def snap_disk(blob_dir):
    """{name: [kind 'f'|'l'|'d'|'o', size, genuine True|False|None]} for every directory entry; 'l' = symbolic
    link that resolves to a regular file (size / genuine are those of the file it leads to)."""
    out = {}
    with os.scandir(blob_dir) as it:
        for e in it:
            st = e.stat(follow_symlinks=False)
            kind = 'f' if stat.S_ISREG(st.st_mode) else ('d' if stat.S_ISDIR(st.st_mode) else 'o')
            if stat.S_ISLNK(st.st_mode):
                try:
                    target = os.stat(e.path)
                except OSError:             # dangling / loop
                    target = None
                if target is not None and stat.S_ISREG(target.st_mode):
                    kind, st = 'l', target
            genuine = None
            if kind in FILE_KINDS and strict_blob_name(e.name) and st.st_size > 0:
                with open(e.path, 'rb') as f:
                    genuine = hashlib.sha384(f.read()).hexdigest() == e.name
            out[e.name] = [kind, st.st_size, genuine]
    return out


def snap_db(db_path, live=False):
    """{blob_hash: [status, blob_length]} or None when there is no database / no blob table yet.
    live=False: nobody has the db open -> read a private copy (db + -wal), leaving the real files
    untouched.  live=True: the code under test has it open in this process -> extra WAL reader."""
    if not os.path.exists(db_path):
        return None
    tmp = None
    try:
        if live:
            con = sqlite3.connect(db_path, timeout=60)
        else:
            tmp = tempfile.mkdtemp(prefix='verif-c18-snap-', dir=os.path.dirname(os.path.dirname(db_path)) or None)
            cp = os.path.join(tmp, 'copy.sqlite')
            shutil.copyfile(db_path, cp)
            if os.path.exists(db_path + '-wal'):
                shutil.copyfile(db_path + '-wal', cp + '-wal')
            con = sqlite3.connect(cp, timeout=60)
        try:
            try:
                rows = con.execute('select blob_hash, status, blob_length from blob').fetchall()
            except sqlite3.OperationalError as e:
                if 'no such table' in str(e):
                    return None
                raise
        finally:
            con.close()
        return {h: [s, l] for h, s, l in rows}
    finally:
        if tmp:
            shutil.rmtree(tmp, ignore_errors=True)


def classify(disk, db):
    """input classes present in a (disk, db) state; used for non-vacuity counters."""
    db = db or {}
    c = {}

    def inc(k):
        c[k] = c.get(k, 0) + 1
    unrecorded = 0
    for name, (kind, size, genuine) in disk.items():
        row = db.get(name)
        if kind in FILE_KINDS and strict_blob_name(name):
            if size == 0:
                inc('zero_length_valid_name')
            elif genuine:
                if row is None:
                    inc('file_without_row')
                    unrecorded += 1
                elif row[0] == 'finished':
                    inc('finished_row_with_file')
                else:
                    inc('file_with_pending_row')
                    unrecorded += 1
                recorded = 'with_finished_row' if row is not None and row[0] == 'finished' else 'unrecorded'
                if kind == 'l':
                    inc('symlinked_file_' + recorded)
                if size > MAX_BLOB_SIZE:
                    inc('oversize_file_' + recorded)
                elif size == MAX_BLOB_SIZE:
                    inc('full_size_file_' + recorded)
            else:
                inc('valid_name_junk_content')
        elif kind in FILE_KINDS:
            if len(name) == 96 and (',' in name or name.endswith('\n')):
                inc('loose_name_file')
            else:
                inc('junk_name_file')
        elif strict_blob_name(name):
            inc('dir_named_like_blob' + ('_with_row' if row is not None else ''))
        else:
            inc('junk_dir')
    for h, (status, _l) in db.items():
        if h not in disk:
            inc('finished_row_without_file' if status == 'finished' else 'pending_row_without_file')
    if unrecorded > 500:
        inc('over_500_unrecorded')
    if unrecorded == 500:
        inc('exactly_500_unrecorded')
    return c


def evaluate(pre_disk, pre_db, completed, announced, post_disk, post_db, further_restart):
    """Returns (findings, counters, logged).  findings: list of (key_suffix, what, detail).
    pre_* : state before the manager started; post_* : state right after setup() returned;
    completed: the manager's completed_blob_hashes after setup(); announced: what the real
    storage.get_blobs_to_announce() returned after setup() (may be None = not observed).
    further_restart: True when this start directly follows another start with nothing changed."""
    pre_db = pre_db or {}
    post_db = post_db or {}
    findings, counters, logged = [], {}, {}

    def cnt(d, k, n=1):
        d[k] = d.get(k, 0) + n

    regular = {n for n, (k, _s, _g) in post_disk.items() if k in FILE_KINDS}

    def special(n):
        """input class of a file present that goes into the mechanism key ('' for an ordinary regular file)"""
        return ('+symlinked-file' if post_disk[n][0] == 'l' else '') + \
               ('+larger-than-max-blob-size' if post_disk[n][1] > MAX_BLOB_SIZE else '')
    must = {n for n in regular if strict_blob_name(n) and post_disk[n][1] > 0 and post_disk[n][2]}
    # files the start has to look at (whatever their content): decides which batching branch is reached
    pre_unrecorded = sum(1 for n, (k, _s, _g) in pre_disk.items()
                         if k in FILE_KINDS and strict_blob_name(n) and pre_db.get(n, [None])[0] != 'finished')
    if sorted(pre_disk) != sorted(post_disk):
        cnt(logged, 'restart_changed_directory_listing')

    # ---- Z1: reported completed (and announced) => its file is in the blob directory
    cnt(counters, 'Z1.checked')
    for label, seq in (('completed', completed), ('announced', announced)):
        if seq is None:
            continue
        cnt(counters, f'Z1.{label}_hashes', len(seq))
        bad = []
        for h in seq:
            if h in regular:
                if not strict_blob_name(h):
                    cnt(logged, f'Z1.{label}_loose_name')
                elif post_disk[h][1] == 0:
                    cnt(logged, f'Z1.{label}_zero_length_file')
                elif not post_disk[h][2]:
                    cnt(logged, f'Z1.{label}_junk_content_file')
                continue
            if h in post_disk:
                cnt(logged, f'Z1.{label}_name_is_a_directory')
                continue
            bad.append(h)
        if bad:
            findings.append((f'Z1/{label}-without-file',
                             f'{len(bad)} blob(s) {label} after setup() have no file in the blob directory, e.g. {bad[0][:16]}..',
                             {'hashes': bad[:5], 'count': len(bad),
                              'row_before': {h: pre_db.get(h) for h in bad[:5]},
                              'row_after': {h: post_db.get(h) for h in bad[:5]},
                              'on_disk_before': {h: pre_disk.get(h) for h in bad[:5]}}))

    # ---- Z2: every blob file present is recorded as finished
    cnt(counters, 'Z2.checked')
    cnt(counters, 'Z2.files', len(must))
    by_class = {}
    for n in sorted(must):
        row = post_db.get(n)
        if row is not None and row[0] == 'finished':
            continue
        before = pre_db.get(n)
        cls = 'no-row-before' if before is None else (before[0] + '-row-before')
        cls += special(n)
        if pre_unrecorded > 500:
            cls += '+over-500-unrecorded-files'
        by_class.setdefault(cls, []).append(n)
    for cls, names in by_class.items():
        findings.append((f'Z2/file-not-recorded-finished/{cls}',
                         f'{len(names)} blob file(s) present after setup() are not `finished` in the db, e.g. {names[0][:16]}..',
                         {'hashes': names[:5], 'count': len(names), 'unrecorded_files_before': pre_unrecorded,
                          'row_before': {h: pre_db.get(h) for h in names[:5]},
                          'row_after': {h: post_db.get(h) for h in names[:5]},
                          'file': {h: post_disk.get(h) for h in names[:5]}}))
    for n in regular:
        if strict_blob_name(n) and n not in must:
            what = 'zero_length' if post_disk[n][1] == 0 else 'junk_content'
            row = post_db.get(n)
            cnt(logged, f'Z2.{what}_file_' + ('recorded_finished' if row and row[0] == 'finished' else 'not_finished'))

    # ---- Z3: finished before + file gone => pending now
    cnt(counters, 'Z3.checked')
    bad, vanished = [], []
    for h, (status, _l) in pre_db.items():
        if status != 'finished' or h in pre_disk and pre_disk[h][0] in FILE_KINDS:
            continue
        if h in pre_disk or h in post_disk:
            cnt(logged, 'Z3.name_taken_by_non_file_or_reappeared')
            continue
        cnt(counters, 'Z3.rows')
        row = post_db.get(h)
        if row is None:
            vanished.append(h)
        elif row[0] != 'pending':
            bad.append(h)
    if bad:
        findings.append(('Z3/finished-row-without-file-not-downgraded',
                         f'{len(bad)} row(s) were `finished` before the start, their file is gone, and they are still '
                         f'{post_db[bad[0]][0]!r} after setup(), e.g. {bad[0][:16]}..',
                         {'hashes': bad[:5], 'count': len(bad), 'row_after': {h: post_db.get(h) for h in bad[:5]}}))
    if vanished:
        findings.append(('Z3/finished-row-without-file-row-vanished',
                         f'{len(vanished)} `finished` row(s) without file were removed instead of downgraded to pending',
                         {'hashes': vanished[:5], 'count': len(vanished)}))
    for h, (status, _l) in post_db.items():
        if status == 'finished' and h not in post_disk and pre_db.get(h, [None])[0] != 'finished':
            cnt(logged, 'start_made_row_finished_without_file')

    # ---- Z4: a further restart with nothing changed reports exactly the files present
    if further_restart:
        cnt(counters, 'Z4.checked')
        cnt(counters, 'Z4.files', len(must))
        got = set(completed)
        by_class = {}
        for n in sorted(must - got):
            by_class.setdefault(special(n), []).append(n)
        for cls, missing in by_class.items():
            findings.append(('Z4/further-restart-does-not-report-file-present' + (cls and '/' + cls[1:]),
                             f'{len(missing)} blob file(s) present are not in completed_blob_hashes after a further restart '
                             f'with nothing changed, e.g. {missing[0][:16]}..',
                             {'hashes': missing[:5], 'count': len(missing),
                              'row_before': {h: pre_db.get(h) for h in missing[:5]},
                              'row_after': {h: post_db.get(h) for h in missing[:5]}}))
        # the other inclusion (reported => file present) is Z1 above, judged on every start
    return findings, counters, logged

"""Independent BIP32 / Base58Check reference for C06 (DESIGN §3.6).

Written from the public texts only (SEC2 secp256k1 parameters, BIP32, the Bitcoin Base58Check
description).  Pure-integer elliptic-curve arithmetic, `hmac`/`hashlib` from the standard
library; shares no code with lbry and does not use coincurve/libsecp256k1.

`self_check()` verifies the module against the official BIP32 test vectors 1-3 (full chains,
xpub and xprv at every node), a few invalid-key vectors of test vector 5, known multiples of
the generator and Base58Check samples; it raises AssertionError on any mismatch, so a
disagreement between lbry and this module can be attributed.
"""
import hashlib
import hmac

# --- secp256k1 (SEC2 v2, 2.4.1) -------------------------------------------------------------
P = 2 ** 256 - 2 ** 32 - 977
N = 0xFFFFFFFFFFFFFFFFFFFFFFFFFFFFFFFEBAAEDCE6AF48A03BBFD25E8CD0364141
GX = 0x79BE667EF9DCBBAC55A06295CE870B07029BFCDB2DCE28D959F2815B16F81798
GY = 0x483ADA7726A3C4655DA4FBFC0E1108A8FD17B448A68554199C47D08FFB10D4B8
G = (GX, GY)
INF = None   # point at infinity (affine representation)


def on_curve(pt):
    if pt is INF:
        return True
    x, y = pt
    return 0 <= x < P and 0 <= y < P and (y * y - x * x * x - 7) % P == 0


def _jac_double(X1, Y1, Z1):
    if Y1 == 0 or Z1 == 0:
        return 0, 1, 0
    S = 4 * X1 * Y1 * Y1 % P
    M = 3 * X1 * X1 % P                      # a = 0
    X3 = (M * M - 2 * S) % P
    Y3 = (M * (S - X3) - 8 * pow(Y1, 4, P)) % P
    Z3 = 2 * Y1 * Z1 % P
    return X3, Y3, Z3


def _jac_add(X1, Y1, Z1, X2, Y2, Z2):
    if Z1 == 0:
        return X2, Y2, Z2
    if Z2 == 0:
        return X1, Y1, Z1
    Z1Z1 = Z1 * Z1 % P
    Z2Z2 = Z2 * Z2 % P
    U1 = X1 * Z2Z2 % P
    U2 = X2 * Z1Z1 % P
    S1 = Y1 * Z2 * Z2Z2 % P
    S2 = Y2 * Z1 * Z1Z1 % P
    if U1 == U2:
        if S1 != S2:
            return 0, 1, 0
        return _jac_double(X1, Y1, Z1)
    H = (U2 - U1) % P
    R = (S2 - S1) % P
    HH = H * H % P
    HHH = H * HH % P
    V = U1 * HH % P
    X3 = (R * R - HHH - 2 * V) % P
    Y3 = (R * (V - X3) - S1 * HHH) % P
    Z3 = H * Z1 * Z2 % P
    return X3, Y3, Z3


def _to_affine(X, Y, Z):
    if Z == 0:
        return INF
    zi = pow(Z, P - 2, P)
    zi2 = zi * zi % P
    return X * zi2 % P, Y * zi2 * zi % P


def point_add(a, b):
    if a is INF:
        return b
    if b is INF:
        return a
    return _to_affine(*_jac_add(a[0], a[1], 1, b[0], b[1], 1))


def point_mul(k, pt=G):
    k %= N
    if k == 0 or pt is INF:
        return INF
    RX, RY, RZ = 0, 1, 0
    AX, AY, AZ = pt[0], pt[1], 1
    while k:
        if k & 1:
            RX, RY, RZ = _jac_add(RX, RY, RZ, AX, AY, AZ)
        AX, AY, AZ = _jac_double(AX, AY, AZ)
        k >>= 1
    return _to_affine(RX, RY, RZ)


def ser_p(pt):
    """SEC1 compressed form, 33 bytes."""
    if pt is INF:
        raise ValueError('point at infinity has no compressed form')
    return bytes((2 + (pt[1] & 1),)) + pt[0].to_bytes(32, 'big')


def ser_p_uncompressed(pt):
    return b'\x04' + pt[0].to_bytes(32, 'big') + pt[1].to_bytes(32, 'big')


def parse_p(b):
    """33-byte compressed point -> affine point; ValueError if not a curve point."""
    if len(b) != 33 or b[0] not in (2, 3):
        raise ValueError('not a compressed point')
    x = int.from_bytes(b[1:], 'big')
    if x >= P:
        raise ValueError('x out of range')
    y2 = (pow(x, 3, P) + 7) % P
    y = pow(y2, (P + 1) // 4, P)
    if y * y % P != y2:
        raise ValueError('x is not on the curve')
    if (y & 1) != (b[0] & 1):
        y = P - y
    return x, y


# --- hashes ---------------------------------------------------------------------------------
def sha256d(b):
    return hashlib.sha256(hashlib.sha256(b).digest()).digest()


def hash160(b):
    return hashlib.new('ripemd160', hashlib.sha256(b).digest()).digest()


# --- Base58 / Base58Check -------------------------------------------------------------------
ALPHABET = '123456789ABCDEFGHJKLMNPQRSTUVWXYZabcdefghijkmnopqrstuvwxyz'


def b58encode(b):
    b = bytes(b)
    zeros = len(b) - len(b.lstrip(b'\0'))
    num = int.from_bytes(b, 'big')
    out = []
    while num > 0:
        num, r = divmod(num, 58)
        out.append(ALPHABET[r])
    return '1' * zeros + ''.join(reversed(out))


def b58decode(s):
    """strict: str only, every character in the alphabet; '' -> b''."""
    if not isinstance(s, str):
        raise ValueError('not a string')
    num = 0
    for ch in s:
        d = ALPHABET.find(ch)
        if d < 0 or len(ch) != 1:
            raise ValueError('character outside the base58 alphabet: %r' % ch)
        num = num * 58 + d
    zeros = len(s) - len(s.lstrip('1'))
    body = num.to_bytes((num.bit_length() + 7) // 8, 'big')
    return b'\0' * zeros + body


def b58check_encode(payload):
    payload = bytes(payload)
    return b58encode(payload + sha256d(payload)[:4])


def b58check_decode(s):
    """payload, or ValueError (bad character / shorter than a checksum / checksum mismatch)."""
    raw = b58decode(s)
    if len(raw) < 4:
        raise ValueError('too short for a checksum')
    payload, chk = raw[:-4], raw[-4:]
    if sha256d(payload)[:4] != chk:
        raise ValueError('checksum mismatch')
    return payload


def b58check_valid(s):
    try:
        b58check_decode(s)
        return True
    except ValueError:
        return False


# --- BIP32 ----------------------------------------------------------------------------------
HARDENED = 0x80000000
XPRV = bytes.fromhex('0488ade4')
XPUB = bytes.fromhex('0488b21e')


class InvalidChild(Exception):
    """BIP32: 'in case parse256(IL) >= n or ki = 0 the resulting key is invalid'."""


class Node:
    __slots__ = ('k', 'K', 'c', 'depth', 'index', 'parent_fp')

    def __init__(self, k, K, c, depth, index, parent_fp):
        self.k = k                  # int or None (public-only node)
        self.K = K                  # affine point
        self.c = c                  # 32 bytes
        self.depth = depth
        self.index = index
        self.parent_fp = parent_fp  # 4 bytes

    # -- accessors
    @property
    def priv_bytes(self):
        return None if self.k is None else self.k.to_bytes(32, 'big')

    @property
    def pub_bytes(self):
        return ser_p(self.K)

    @property
    def identifier(self):
        return hash160(self.pub_bytes)

    @property
    def fingerprint(self):
        return self.identifier[:4]

    def neuter(self):
        return Node(None, self.K, self.c, self.depth, self.index, self.parent_fp)

    # -- derivation
    def ckd_priv(self, i):
        if self.k is None:
            raise ValueError('no private key')
        if not 0 <= i < 2 ** 32:
            raise ValueError('index out of range')
        if i >= HARDENED:
            data = b'\0' + self.k.to_bytes(32, 'big') + i.to_bytes(4, 'big')
        else:
            data = ser_p(self.K) + i.to_bytes(4, 'big')
        I = hmac.new(self.c, data, hashlib.sha512).digest()
        il = int.from_bytes(I[:32], 'big')
        ki = (il + self.k) % N
        if il >= N or ki == 0:
            raise InvalidChild()
        return Node(ki, point_mul(ki), I[32:], self.depth + 1, i, self.fingerprint)

    def ckd_pub(self, i):
        if not 0 <= i < 2 ** 32:
            raise ValueError('index out of range')
        if i >= HARDENED:
            raise ValueError('hardened child of a public key')
        data = ser_p(self.K) + i.to_bytes(4, 'big')
        I = hmac.new(self.c, data, hashlib.sha512).digest()
        il = int.from_bytes(I[:32], 'big')
        Ki = point_add(point_mul(il), self.K)
        if il >= N or Ki is INF:
            raise InvalidChild()
        return Node(None, Ki, I[32:], self.depth + 1, i, self.fingerprint)

    # -- serialisation
    def raw(self, private, xprv=XPRV, xpub=XPUB):
        if private and self.k is None:
            raise ValueError('no private key')
        head = ((xprv if private else xpub) + bytes((self.depth,)) + self.parent_fp
                + self.index.to_bytes(4, 'big') + self.c)
        return head + ((b'\0' + self.k.to_bytes(32, 'big')) if private else ser_p(self.K))

    def xprv(self, xprv=XPRV, xpub=XPUB):
        return b58check_encode(self.raw(True, xprv, xpub))

    def xpub(self, xprv=XPRV, xpub=XPUB):
        return b58check_encode(self.raw(False, xprv, xpub))


def master(seed):
    I = hmac.new(b'Bitcoin seed', bytes(seed), hashlib.sha512).digest()
    k = int.from_bytes(I[:32], 'big')
    if k == 0 or k >= N:
        raise InvalidChild()
    return Node(k, point_mul(k), I[32:], 0, 0, b'\0\0\0\0')


def derive(node, path):
    for i in path:
        node = node.ckd_priv(i)
    return node


def parse_raw(raw, xprv=XPRV, xpub=XPUB):
    """78 bytes -> Node, ValueError for everything BIP32 calls invalid (test vector 5)."""
    if len(raw) != 78:
        raise ValueError('length')
    ver, depth, fp = raw[:4], raw[4], raw[5:9]
    index = int.from_bytes(raw[9:13], 'big')
    c, kd = raw[13:45], raw[45:]
    if depth == 0 and (fp != b'\0\0\0\0' or index != 0):
        raise ValueError('depth 0 with parent fingerprint / index')
    if ver == xprv:
        if kd[0] != 0:
            raise ValueError('private key prefix')
        k = int.from_bytes(kd[1:], 'big')
        if not 0 < k < N:
            raise ValueError('private key out of range')
        return Node(k, point_mul(k), c, depth, index, fp)
    if ver == xpub:
        return Node(None, parse_p(kd), c, depth, index, fp)
    raise ValueError('version')


def parse_xkey(s, xprv=XPRV, xpub=XPUB):
    return parse_raw(b58check_decode(s), xprv, xpub)


# --- fixed public vectors -------------------------------------------------------------------
H = HARDENED
VECTORS = [
    {   # BIP32 test vector 1
        'seed': '000102030405060708090a0b0c0d0e0f',
        'chain': [
            (None,
             'xpub661MyMwAqRbcFtXgS5sYJABqqG9YLmC4Q1Rdap9gSE8NqtwybGhePY2gZ29ESFjqJoCu1Rupje8YtGqsefD265TMg7usUDFdp6W1EGMcet8',
             'xprv9s21ZrQH143K3QTDL4LXw2F7HEK3wJUD2nW2nRk4stbPy6cq3jPPqjiChkVvvNKmPGJxWUtg6LnF5kejMRNNU3TGtRBeJgk33yuGBxrMPHi'),
            (0 + H,
             'xpub68Gmy5EdvgibQVfPdqkBBCHxA5htiqg55crXYuXoQRKfDBFA1WEjWgP6LHhwBZeNK1VTsfTFUHCdrfp1bgwQ9xv5ski8PX9rL2dZXvgGDnw',
             'xprv9uHRZZhk6KAJC1avXpDAp4MDc3sQKNxDiPvvkX8Br5ngLNv1TxvUxt4cV1rGL5hj6KCesnDYUhd7oWgT11eZG7XnxHrnYeSvkzY7d2bhkJ7'),
            (1,
             'xpub6ASuArnXKPbfEwhqN6e3mwBcDTgzisQN1wXN9BJcM47sSikHjJf3UFHKkNAWbWMiGj7Wf5uMash7SyYq527Hqck2AxYysAA7xmALppuCkwQ',
             'xprv9wTYmMFdV23N2TdNG573QoEsfRrWKQgWeibmLntzniatZvR9BmLnvSxqu53Kw1UmYPxLgboyZQaXwTCg8MSY3H2EU4pWcQDnRnrVA1xe8fs'),
            (2 + H,
             'xpub6D4BDPcP2GT577Vvch3R8wDkScZWzQzMMUm3PWbmWvVJrZwQY4VUNgqFJPMM3No2dFDFGTsxxpG5uJh7n7epu4trkrX7x7DogT5Uv6fcLW5',
             'xprv9z4pot5VBttmtdRTWfWQmoH1taj2axGVzFqSb8C9xaxKymcFzXBDptWmT7FwuEzG3ryjH4ktypQSAewRiNMjANTtpgP4mLTj34bhnZX7UiM'),
            (2,
             'xpub6FHa3pjLCk84BayeJxFW2SP4XRrFd1JYnxeLeU8EqN3vDfZmbqBqaGJAyiLjTAwm6ZLRQUMv1ZACTj37sR62cfN7fe5JnJ7dh8zL4fiyLHV',
             'xprvA2JDeKCSNNZky6uBCviVfJSKyQ1mDYahRjijr5idH2WwLsEd4Hsb2Tyh8RfQMuPh7f7RtyzTtdrbdqqsunu5Mm3wDvUAKRHSC34sJ7in334'),
            (1000000000,
             'xpub6H1LXWLaKsWFhvm6RVpEL9P4KfRZSW7abD2ttkWP3SSQvnyA8FSVqNTEcYFgJS2UaFcxupHiYkro49S8yGasTvXEYBVPamhGW6cFJodrTHy',
             'xprvA41z7zogVVwxVSgdKUHDy1SKmdb533PjDz7J6N6mV6uS3ze1ai8FHa8kmHScGpWmj4WggLyQjgPie1rFSruoUihUZREPSL39UNdE3BBDu76'),
        ]},
    {   # BIP32 test vector 2
        'seed': 'fffcf9f6f3f0edeae7e4e1dedbd8d5d2cfccc9c6c3c0bdbab7b4b1aeaba8a5a29f9c999693908d8a8784817e7b7875726f6c'
                '696663605d5a5754514e4b484542',
        'chain': [
            (None,
             'xpub661MyMwAqRbcFW31YEwpkMuc5THy2PSt5bDMsktWQcFF8syAmRUapSCGu8ED9W6oDMSgv6Zz8idoc4a6mr8BDzTJY47LJhkJ8UB7WEGuduB',
             'xprv9s21ZrQH143K31xYSDQpPDxsXRTUcvj2iNHm5NUtrGiGG5e2DtALGdso3pGz6ssrdK4PFmM8NSpSBHNqPqm55Qn3LqFtT2emdEXVYsCzC2U'),
            (0,
             'xpub69H7F5d8KSRgmmdJg2KhpAK8SR3DjMwAdkxj3ZuxV27CprR9LgpeyGmXUbC6wb7ERfvrnKZjXoUmmDznezpbZb7ap6r1D3tgFxHmwMkQTPH',
             'xprv9vHkqa6EV4sPZHYqZznhT2NPtPCjKuDKGY38FBWLvgaDx45zo9WQRUT3dKYnjwih2yJD9mkrocEZXo1ex8G81dwSM1fwqWpWkeS3v86pgKt'),
            (2147483647 + H,
             'xpub6ASAVgeehLbnwdqV6UKMHVzgqAG8Gr6riv3Fxxpj8ksbH9ebxaEyBLZ85ySDhKiLDBrQSARLq1uNRts8RuJiHjaDMBU4Zn9h8LZNnBC5y4a',
             'xprv9wSp6B7kry3Vj9m1zSnLvN3xH8RdsPP1Mh7fAaR7aRLcQMKTR2vidYEeEg2mUCTAwCd6vnxVrcjfy2kRgVsFawNzmjuHc2YmYRmagcEPdU9'),
            (1,
             'xpub6DF8uhdarytz3FWdA8TvFSvvAh8dP3283MY7p2V4SeE2wyWmG5mg5EwVvmdMVCQcoNJxGoWaU9DCWh89LojfZ537wTfunKau47EL2dhHKon',
             'xprv9zFnWC6h2cLgpmSA46vutJzBcfJ8yaJGg8cX1e5StJh45BBciYTRXSd25UEPVuesF9yog62tGAQtHjXajPPdbRCHuWS6T8XA2ECKADdw4Ef'),
            (2147483646 + H,
             'xpub6ERApfZwUNrhLCkDtcHTcxd75RbzS1ed54G1LkBUHQVHQKqhMkhgbmJbZRkrgZw4koxb5JaHWkY4ALHY2grBGRjaDMzQLcgJvLJuZZvRcEL',
             'xprvA1RpRA33e1JQ7ifknakTFpgNXPmW2YvmhqLQYMmrj4xJXXWYpDPS3xz7iAxn8L39njGVyuoseXzU6rcxFLJ8HFsTjSyQbLYnMpCqE2VbFWc'),
            (2,
             'xpub6FnCn6nSzZAw5Tw7cgR9bi15UV96gLZhjDstkXXxvCLsUXBGXPdSnLFbdpq8p9HmGsApME5hQTZ3emM2rnY5agb9rXpVGyy3bdW6EEgAtqt',
             'xprvA2nrNbFZABcdryreWet9Ea4LvTJcGsqrMzxHx98MMrotbir7yrKCEXw7nadnHM8Dq38EGfSh6dqA9QWTyefMLEcBYJUuekgW4BYPJcr9E7j'),
        ]},
    {   # BIP32 test vector 3 (retention of leading zeros)
        'seed': '4b381541583be4423346c643850da4b320e46a87ae3d2a4e6da11eba819cd4acba45d239319ac14f863b8d5ab5a0d0c64d2e'
                '8a1e7d1457df2e5a3c51c73235be',
        'chain': [
            (None,
             'xpub661MyMwAqRbcEZVB4dScxMAdx6d4nFc9nvyvH3v4gJL378CSRZiYmhRoP7mBy6gSPSCYk6SzXPTf3ND1cZAceL7SfJ1Z3GC8vBgp2epUt13',
             'xprv9s21ZrQH143K25QhxbucbDDuQ4naNntJRi4KUfWT7xo4EKsHt2QJDu7KXp1A3u7Bi1j8ph3EGsZ9Xvz9dGuVrtHHs7pXeTzjuxBrCmmhgC6'),
            (0 + H,
             'xpub68NZiKmJWnxxS6aaHmn81bvJeTESw724CRDs6HbuccFQN9Ku14VQrADWgqbhhTHBaohPX4CjNLf9fq9MYo6oDaPPLPxSb7gwQN3ih19Zm4Y',
             'xprv9uPDJpEQgRQfDcW7BkF7eTya6RPxXeJCqCJGHuCJ4GiRVLzkTXBAJMu2qaMWPrS7AANYqdq6vcBcBUdJCVVFceUvJFjaPdGZ2y9WACViL4L'),
        ]},
]

# BIP32 test vector 5 (invalid extended keys) — the entries whose reason is decidable by parse_raw
INVALID_XKEYS = [
    # pubkey version / prvkey mismatch
    'xpub661MyMwAqRbcEYS8w7XLSVeEsBXy79zSzH1J8vCdxAZningWLdN3zgtU6LBpB85b3D2yc8sfvZU521AAwdZafEz7mnzBBsz4wKY5fTtTQBm',
    # prvkey version / pubkey mismatch
    'xprv9s21ZrQH143K24Mfq5zL5MhWK9hUhhGbd45hLXo2Pq2oqzMMo63oStZzFGTQQD3dC4H2D5GBj7vWvSQaaBv5cxi9gafk7NF3pnBju6dwKvH',
    # invalid pubkey prefix 04
    'xpub661MyMwAqRbcEYS8w7XLSVeEsBXy79zSzH1J8vCdxAZningWLdN3zgtU6Txnt3siSujt9RCVYsx4qHZGc62TG4McvMGcAUjeuwZdduYEvFn',
    # invalid prvkey prefix 04
    'xprv9s21ZrQH143K24Mfq5zL5MhWK9hUhhGbd45hLXo2Pq2oqzMMo63oStZzFGpWnsj83BHtEy5Zt8CcDr1UiRXuWCmTQLxEK9vbz5gPstX92JQ',
    # private key 0 not in 1..n-1
    'xprv9s21ZrQH143K24Mfq5zL5MhWK9hUhhGbd45hLXo2Pq2oqzMMo63oStZzF93Y5wvzdUayhgkkFoicQZcP3y52uPPxFnfoLZB21Teqt1VvEHx',
    # private key n not in 1..n-1
    'xprv9s21ZrQH143K24Mfq5zL5MhWK9hUhhGbd45hLXo2Pq2oqzMMo63oStZzFAzHGBP2UuGCqWLTAPLcMtD5SDKr24z3aiUvKr9bJpdrcLg1y3G',
    # invalid checksum
    'xprv9s21ZrQH143K3QTDL4LXw2F7HEK3wJUD2nW2nRk4stbPy6cq3jPPqjiChkVvvNKmPGJxWUtg6LnF5kejMRNNU3TGtRBeJgk33yuGBxrMPHL',
]

# k*G for small k (widely published; x coordinates)
KNOWN_MULTIPLES = {
    1: 0x79BE667EF9DCBBAC55A06295CE870B07029BFCDB2DCE28D959F2815B16F81798,
    2: 0xC6047F9441ED7D6D3045406E95C07CD85C778E4B8CEF3CA7ABAC09B95C709EE5,
    3: 0xF9308A019258C31049344F85F89D5229B531C845836F99B08601F113BCE036F9,
}

_checked = False


def self_check():
    """raise AssertionError unless this module reproduces the fixed public vectors."""
    global _checked
    if _checked:
        return
    assert on_curve(G) and point_mul(N - 1) == (GX, P - GY) and point_mul(N) is INF
    assert point_add(point_mul(N - 1), G) is INF
    for k, x in KNOWN_MULTIPLES.items():
        pt = point_mul(k)
        assert pt[0] == x and on_curve(pt), ('kG', k)
        assert parse_p(ser_p(pt)) == pt
    assert point_add(point_mul(2), point_mul(3)) == point_mul(5) == point_add(point_mul(4), G)
    assert point_add(G, G) == point_mul(2)
    # Base58Check: the genesis-block address and an all-zero payload
    assert b58check_encode(bytes.fromhex('0062e907b15cbf27d5425399ebf6f0fb50ebb88f18')) == '1A1zP1eP5QGefi2DMPTfTL5SLmv7DivfNa'
    assert b58check_decode('1A1zP1eP5QGefi2DMPTfTL5SLmv7DivfNa').hex() == '0062e907b15cbf27d5425399ebf6f0fb50ebb88f18'
    assert b58encode(b'\0\0\0') == '111' and b58decode('111') == b'\0\0\0' and b58decode('') == b''
    assert b58encode(b'hello world') == 'StV1DL6CwTryKyV' and b58decode('StV1DL6CwTryKyV') == b'hello world'
    assert b58encode(bytes.fromhex('0000287fb4cd')) == '11233QC4'
    assert hash160(b'').hex() == 'b472a266d0bd89c13706a4132ccfb16f7c3b9fcb'
    n_nodes = 0
    for vec in VECTORS:
        node = None
        for idx, xpub, xprv in vec['chain']:
            parent = node
            node = master(bytes.fromhex(vec['seed'])) if idx is None else node.ckd_priv(idx)
            assert node.xpub() == xpub, ('xpub', vec['seed'][:8], idx, node.xpub())
            assert node.xprv() == xprv, ('xprv', vec['seed'][:8], idx, node.xprv())
            back = parse_xkey(xprv)
            assert (back.k, back.K, back.c, back.depth, back.index, back.parent_fp) == \
                   (node.k, node.K, node.c, node.depth, node.index, node.parent_fp)
            backp = parse_xkey(xpub)
            assert backp.k is None and backp.K == node.K and backp.c == node.c
            if idx is not None and idx < HARDENED:
                pub_child = parent.neuter().ckd_pub(idx)
                assert pub_child.xpub() == xpub, ('ckd_pub', idx)
            n_nodes += 1
    assert n_nodes == 14
    for s in INVALID_XKEYS:
        try:
            parse_xkey(s)
        except ValueError:
            continue
        raise AssertionError('invalid extended key accepted by the reference: ' + s)
    _checked = True
    return n_nodes

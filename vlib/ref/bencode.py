"""Independent bencode reference (BEP-3 grammar), written for the C17 check.

Shares no code with lbry.  Both the decoder and the encoder are ITERATIVE (explicit
stack), so nesting depth is limited only by memory and can never overflow the Python
stack -- that is what lets the harness classify a 65 000-deep datagram.

Grammar (BEP-3):   int  = 'i' ['-'] digits 'e'      (no leading zeros, no '-0')
                   str  = digits ':' <that many BYTES>
                   list = 'l' value* 'e'
                   dict = 'd' (str value)* 'e'      (keys sorted as raw bytes, unique)

Dialect switch `int_keys` (default False): LBRY datagrams use INTEGER dictionary keys
({0: type, 1: rpc id, ...}), which BEP-3 does not allow.  With int_keys=True a dictionary
may use integer keys; in strict mode all keys of one dictionary must then be of one kind
and ascend (integers numerically, strings bytewise).

Strict mode rejects every non-canonical form (leading zeros, '-0', unsorted or duplicate
keys, trailing bytes).  Lenient mode accepts them and reports them in `quirks`; what
lenient mode never accepts is a *structurally* broken value: unknown token, missing
terminator, a string that claims more bytes than are present, an empty/garbled number,
a dictionary with a dangling key or an unhashable (list/dict) key.
"""

MAX_DIGITS = 4000          # CPython refuses int<->str beyond 4300 digits; stay below it
_DIG = b'0123456789'


class BencodeError(ValueError):
    def __init__(self, reason, pos=-1):
        super().__init__(f'{reason} at {pos}')
        self.reason = reason
        self.pos = pos


class _Dict:
    __slots__ = ('items', 'key', 'have_key', 'last_key')

    def __init__(self):
        self.items = {}
        self.key = None
        self.have_key = False
        self.last_key = None


def _scan_digits(data, i, n):
    j = i
    while j < n and data[j] in _DIG:
        j += 1
    return j


def decode_ex(data, strict=True, int_keys=False, dup='last'):
    """-> (value, end_index, quirks:set).  Raises BencodeError on structural failure (and, in
    strict mode, on any quirk).  Trailing bytes are reported as quirk 'trailing-bytes'.
    dup: which value a duplicated dictionary key keeps in lenient mode ('last' or 'first')."""
    if not isinstance(data, (bytes, bytearray)):
        raise TypeError('bytes expected')
    data = bytes(data)
    n = len(data)
    quirks = set()

    def quirk(name, pos):
        if strict:
            raise BencodeError(name, pos)
        quirks.add(name)

    if n == 0:
        raise BencodeError('empty', 0)
    stack = []            # list (python list) or _Dict frames
    i = 0
    result = None
    done = False
    while not done:
        if i >= n:
            raise BencodeError('truncated', i)
        c = data[i]
        have = False
        val = None
        if c == 0x69:  # 'i'
            j = i + 1
            neg = False
            if j < n and data[j] == 0x2d:
                neg = True
                j += 1
            k = _scan_digits(data, j, n)
            if k == j:
                raise BencodeError('truncated' if k >= n else 'bad-integer', k)
            if k >= n:
                raise BencodeError('truncated', k)
            if data[k] != 0x65:
                raise BencodeError('bad-integer', k)
            if k - j > MAX_DIGITS:
                raise BencodeError('integer-too-long', j)
            if data[j] == 0x30 and k - j > 1:
                quirk('int-leading-zero', j)
            val = int(data[j:k])
            if neg:
                if val == 0:
                    quirk('int-negative-zero', j)
                val = -val
            i = k + 1
            have = True
        elif c in _DIG:
            k = _scan_digits(data, i, n)
            if k >= n:
                raise BencodeError('truncated', k)
            if data[k] != 0x3a:
                raise BencodeError('bad-string-length', k)
            if k - i > MAX_DIGITS:
                raise BencodeError('string-length-too-long', i)
            if data[i] == 0x30 and k - i > 1:
                quirk('len-leading-zero', i)
            ln = int(data[i:k])
            if k + 1 + ln > n:
                raise BencodeError('truncated', n)          # string overruns the datagram
            val = data[k + 1:k + 1 + ln]
            i = k + 1 + ln
            have = True
        elif c == 0x6c:  # 'l'
            stack.append([])
            i += 1
        elif c == 0x64:  # 'd'
            stack.append(_Dict())
            i += 1
        elif c == 0x65:  # 'e'
            if not stack:
                raise BencodeError('unexpected-end-marker', i)
            top = stack.pop()
            if isinstance(top, _Dict):
                if top.have_key:
                    raise BencodeError('dict-key-without-value', i)
                val = top.items
            else:
                val = top
            i += 1
            have = True
        else:
            raise BencodeError('bad-token', i)
        # attach completed values upward (loop instead of recursion)
        if have:
            if not stack:
                result = val
                done = True
            else:
                top = stack[-1]
                if isinstance(top, _Dict):
                    if not top.have_key:
                        if isinstance(val, bytes):
                            pass
                        elif isinstance(val, int) and int_keys:
                            pass
                        elif isinstance(val, int):
                            raise BencodeError('dict-key-not-string', i)
                        else:
                            raise BencodeError('dict-key-unhashable', i)
                        lk = top.last_key
                        if lk is not None:
                            if type(lk) is not type(val):
                                quirk('dict-mixed-key-kinds', i)
                            elif val == lk:
                                quirk('dict-duplicate-key', i)
                            elif val < lk:
                                quirk('dict-unsorted-keys', i)
                        if val in top.items:
                            quirk('dict-duplicate-key', i)
                        top.key = val
                        top.last_key = val
                        top.have_key = True
                    else:
                        if dup == 'last' or top.key not in top.items:
                            top.items[top.key] = val
                        top.have_key = False
                else:
                    top.append(val)
    if i != n:
        quirk('trailing-bytes', i)
    return result, i, quirks


def decode(data, strict=True, int_keys=False):
    return decode_ex(data, strict=strict, int_keys=int_keys)[0]


def _key_bytes(k):
    if isinstance(k, (bytes, bytearray)):
        return bytes(k)
    if isinstance(k, str):
        return k.encode('utf-8')
    raise TypeError(f'bad dict key {type(k)}')


def encode(obj, int_keys=False):
    """Canonical encoding.  str is encoded as UTF-8 with its BYTE length.  Iterative."""
    out = []
    stack = [obj]
    END = object()
    while stack:
        x = stack.pop()
        if x is END:
            out.append(b'e')
        elif isinstance(x, bool):
            raise TypeError('bool is not bencodable')
        elif isinstance(x, int):
            out.append(b'i' + str(x).encode('ascii') + b'e')
        elif isinstance(x, (bytes, bytearray)):
            out.append(str(len(x)).encode('ascii') + b':' + bytes(x))
        elif isinstance(x, str):
            b = x.encode('utf-8')
            out.append(str(len(b)).encode('ascii') + b':' + b)
        elif isinstance(x, (list, tuple)):
            out.append(b'l')
            stack.append(END)
            for item in reversed(x):
                stack.append(item)
        elif isinstance(x, dict):
            out.append(b'd')
            stack.append(END)
            ints = [k for k in x if isinstance(k, int) and not isinstance(k, bool)]
            if ints and not int_keys:
                raise TypeError('integer dict key')
            if ints and len(ints) != len(x):
                raise TypeError('mixed dict key kinds')
            if ints:
                pairs = sorted(((k, k) for k in ints))
            else:
                pairs = sorted(((_key_bytes(k), k) for k in x), key=lambda p: p[0])
                for a, b in zip(pairs, pairs[1:]):
                    if a[0] == b[0]:
                        raise TypeError('duplicate dict key after normalisation')
            for kb, k in reversed(pairs):
                stack.append(x[k])
                stack.append(kb)
        else:
            raise TypeError(f'cannot bencode {type(x)}')
    return b''.join(out)


def encode_raw_items(items, int_keys=True):
    """Encode a dictionary from an ORDERED list of (key, value) pairs WITHOUT sorting or
    de-duplicating -- used by the harness to build hostile (unsorted / duplicate-key)
    datagrams.  Values are encoded canonically."""
    out = [b'd']
    for k, v in items:
        out.append(encode(k, int_keys=int_keys) if not isinstance(k, int) else b'i%de' % k)
        out.append(encode(v, int_keys=int_keys))
    out.append(b'e')
    return b''.join(out)


def normalise(x):
    """Primitive structure as a decoder returns it: str->utf-8 bytes, bytearray->bytes,
    tuple->list, dict keys likewise.  Iterative-enough for harness-built values (shallow)."""
    if isinstance(x, bool):
        raise TypeError('bool')
    if isinstance(x, int):
        return x
    if isinstance(x, (bytes, bytearray)):
        return bytes(x)
    if isinstance(x, str):
        return x.encode('utf-8')
    if isinstance(x, (list, tuple)):
        return [normalise(v) for v in x]
    if isinstance(x, dict):
        return {(k if isinstance(k, int) else _key_bytes(k)): normalise(v) for k, v in x.items()}
    raise TypeError(f'not a bencode primitive: {type(x)}')


# ---------------------------------------------------------------------------- self check
VECTORS_OK = [  # (bytes, value) -- BEP-3 examples and the classic samples
    (b'4:spam', b'spam'), (b'0:', b''), (b'i3e', 3), (b'i-3e', -3), (b'i0e', 0),
    (b'l4:spam4:eggse', [b'spam', b'eggs']), (b'le', []), (b'de', {}),
    (b'd3:cow3:moo4:spam4:eggse', {b'cow': b'moo', b'spam': b'eggs'}),
    (b'd4:spaml1:a1:bee', {b'spam': [b'a', b'b']}),
    (b'd9:publisher3:bob17:publisher-webpage15:www.example.com18:publisher.location4:homee',
     {b'publisher': b'bob', b'publisher-webpage': b'www.example.com', b'publisher.location': b'home'}),
    (b'll3:abc9:127.0.0.1i1919eel3:def9:127.0.0.1i1921eee',
     [[b'abc', b'127.0.0.1', 1919], [b'def', b'127.0.0.1', 1921]]),
    (b'd1:ad1:bi1ee1:ci2ee', {b'a': {b'b': 1}, b'c': 2}),
    (b'ld1:ai1eei5ee', [{b'a': 1}, 5]),
    (b'6:4:spam', b'4:spam'),
]
VECTORS_STRICT_REJECT = [  # structurally fine but non-canonical: strict rejects, lenient accepts
    (b'i-0e', 0), (b'i03e', 3), (b'04:spam', b'spam'), (b'd1:bi1e1:ai2ee', {b'a': 2, b'b': 1}),
    (b'd1:ai1e1:ai2ee', {b'a': 2}), (b'i1ex', 1),
]
VECTORS_BROKEN = [b'', b'i', b'ie', b'i-e', b'i1', b'i1x', b'4:spa', b'4', b'l', b'd', b'li1e', b'd1:a', b'd1:ae',
                  b'e', b'x', b'-1:a', b'di1ei2ee', b'dlei1ee', b'ddei1ee', b':', b'1x:a', b'l' * 5000]


def self_check():
    """raises AssertionError when this reference disagrees with the fixed public vectors"""
    for raw, val in VECTORS_OK:
        for strict in (True, False):
            got, end, q = decode_ex(raw, strict=strict)
            assert got == val and end == len(raw) and not q, (raw, got, q)
        assert encode(val) == raw, (raw, encode(val))
    for raw, val in VECTORS_STRICT_REJECT:
        try:
            decode(raw, strict=True)
        except BencodeError:
            pass
        else:
            raise AssertionError(('strict accepted', raw))
        got, _, q = decode_ex(raw, strict=False)
        assert got == val and q, (raw, got, q)
    assert decode_ex(b'd1:ai1e1:ai2ee', strict=False, dup='first')[0] == {b'a': 1}
    for raw in VECTORS_BROKEN:
        for strict in (True, False):
            for ik in (False,):
                try:
                    decode(raw, strict=strict, int_keys=ik)
                except BencodeError:
                    pass
                else:
                    raise AssertionError(('accepted broken', raw))
    # LBRY dialect: integer keys
    assert decode(b'di0ei1ei1e2:abe', int_keys=True) == {0: 1, 1: b'ab'}
    assert encode({0: 1, 1: b'ab'}, int_keys=True) == b'di0ei1ei1e2:abe'
    for bad in (b'di1ei1ei0ei2ee', b'di1ei1e1:ai2ee'):
        try:
            decode(bad, int_keys=True)
        except BencodeError:
            pass
        else:
            raise AssertionError(('strict accepted', bad))
    # byte (not character) lengths
    assert encode('é') == b'2:\xc3\xa9' and decode(b'2:\xc3\xa9') == 'é'.encode()
    # deep nesting cannot overflow the stack
    deep = b'l' * 70000 + b'e' * 70000
    v = decode(deep)
    d = 0
    while v:
        v = v[0]
        d += 1
    assert d == 69999, d
    assert encode(decode(b'l' * 3000 + b'e' * 3000)) == b'l' * 3000 + b'e' * 3000
    return True

"""In-memory TCP-like byte streams between asyncio protocols with harness-controlled fragmentation.

`Net.listen(addr, port, protocol_factory)` registers a server; `Net.install(loop)` makes
`loop.create_connection(factory, addr, port)` (what request_blob() calls) open an in-memory connection to it.
Each direction of a connection is a `Pipe`: bytes written by one side are buffered and handed to the other
side's `data_received` in fragments chosen by a seeded plan (1-byte fragments, exact sizes, MTU, coalesce
everything buffered), one fragment per loop iteration, optionally after a virtual delay.  Exceptions raised by
`data_received` close the connection, as asyncio's selector transport does.  The transports implement what
`loop.sendfile`'s fallback path needs (pause/resume reading, set_protocol, _FlowControlMixin)."""
import asyncio
from asyncio import transports, constants


class Pipe:
    """one direction: writer transport -> receiver transport/protocol"""
    def __init__(self, net, name, plan):
        self.net, self.name = net, name
        self.plan = plan              # callable(available:int) -> (n_bytes_to_deliver, delay_before_next)
        self.buf = bytearray()
        self.scheduled = False
        self.eof = False              # writer closed: deliver remaining bytes then connection_lost
        self.dst = None               # receiving MemTransport
        self.total = 0                # bytes ever written into this direction
        self.wire = bytearray() if net.record else None
        self.fragments = 0

    def write(self, data):
        self.buf += data
        self.total += len(data)
        if self.wire is not None:
            self.wire += data
        self._schedule(0)

    def close_after_flush(self):
        self.eof = True
        self._schedule(0)

    def _schedule(self, delay):
        if self.scheduled:
            return
        self.scheduled = True
        loop = self.net.loop
        if delay and delay > 0:
            loop.call_later(delay, self._deliver)
        else:
            loop.call_soon(self._deliver)

    def _deliver(self):
        self.scheduled = False
        dst = self.dst
        if dst is None or dst._lost:
            self.buf.clear()
            return
        if dst._paused:
            dst._on_resume = lambda: self._schedule(0)
            return
        if self.buf:
            n, delay = self.plan(len(self.buf))
            n = max(1, min(n, len(self.buf)))
            chunk = bytes(self.buf[:n])
            del self.buf[:n]
            self.fragments += 1
            self.net.in_flight_events += 1
            try:
                dst._protocol.data_received(chunk)
            except (SystemExit, KeyboardInterrupt):
                raise
            except BaseException as exc:  # asyncio: "Fatal error: protocol.data_received() call failed." -> force close
                self.net.data_received_exceptions.append((self.name, type(exc).__name__))
                dst._force_close(exc)
                return
            if self.buf or self.eof:
                self._schedule(delay)
        elif self.eof:
            dst._peer_closed()


class MemTransport(transports._FlowControlMixin, transports.Transport):
    _sendfile_compatible = constants._SendfileMode.FALLBACK

    def __init__(self, loop, protocol, out_pipe, peername, sockname):
        super().__init__(extra={'peername': peername, 'sockname': sockname}, loop=loop)
        self._loop = loop
        self._protocol = protocol
        self._out = out_pipe
        self._closing = False
        self._lost = False
        self._paused = False
        self._on_resume = None
        self.closed_at = None          # virtual time at which this side's connection_lost ran
        self.peer = None

    # ---- reading side
    def is_reading(self):
        return not self._paused and not self._closing

    def pause_reading(self):
        self._paused = True

    def resume_reading(self):
        self._paused = False
        cb, self._on_resume = self._on_resume, None
        if cb:
            cb()

    def set_protocol(self, protocol):
        self._protocol = protocol

    def get_protocol(self):
        return self._protocol

    # ---- writing side
    def write(self, data):
        if self._closing or self._lost:
            return
        data = bytes(data)
        if data:
            self._out.write(data)

    def writelines(self, lst):
        self.write(b''.join(bytes(x) for x in lst))

    def get_write_buffer_size(self):
        return 0

    def can_write_eof(self):
        return False

    def is_closing(self):
        return self._closing

    def close(self):
        if self._closing:
            return
        self._closing = True
        self._out.close_after_flush()
        self._loop.call_soon(self._call_connection_lost, None)

    def abort(self):
        self._force_close(None)

    def _force_close(self, exc):
        if self._lost:
            return
        self._closing = True
        self._out.buf.clear()
        self._out.close_after_flush()
        self._loop.call_soon(self._call_connection_lost, exc)

    def _peer_closed(self):
        """the other side closed and everything it wrote has been delivered (EOF)"""
        if self._lost or self._closing:
            return
        keep_open = None
        try:
            keep_open = self._protocol.eof_received()
        except BaseException as exc:  # noqa
            self._force_close(exc)
            return
        if not keep_open:
            self.close()

    def _call_connection_lost(self, exc):
        if self._lost:
            return
        self._lost = True
        self.closed_at = self._loop.time()
        try:
            self._protocol.connection_lost(exc)
        finally:
            self._protocol = None


class Connection:
    def __init__(self, client_tr, server_tr, c2s, s2c):
        self.client_tr, self.server_tr, self.c2s, self.s2c = client_tr, server_tr, c2s, s2c


class Net:
    def __init__(self, loop, record=True):
        self.loop = loop
        self.record = record
        self.servers = {}
        self.connections = []
        self.plan_factory = lambda direction: (lambda avail: (avail, 0))
        self.connect_delay = 0.0
        self.refuse = set()
        self.blackhole = set()
        self.data_received_exceptions = []
        self.in_flight_events = 0
        self._next_port = 40000

    def listen(self, addr, port, protocol_factory):
        self.servers[(addr, port)] = protocol_factory

    def install(self):
        net = self

        async def create_connection(protocol_factory, host=None, port=None, **kw):
            return await net.connect(protocol_factory, host, port)
        self.loop.create_connection = create_connection

    async def connect(self, protocol_factory, host, port):
        if (host, port) in self.blackhole:
            await asyncio.sleep(10 ** 9)
        if self.connect_delay:
            await asyncio.sleep(self.connect_delay)
        factory = self.servers.get((host, port))
        if factory is None or (host, port) in self.refuse:
            raise ConnectionRefusedError(f'{host}:{port}')
        self._next_port += 1
        client_addr = ('10.9.8.7', self._next_port)
        c2s = Pipe(self, 'client->server', self.plan_factory('c2s'))
        s2c = Pipe(self, 'server->client', self.plan_factory('s2c'))
        client_proto = protocol_factory()
        server_proto = factory()
        client_tr = MemTransport(self.loop, client_proto, c2s, (host, port), client_addr)
        server_tr = MemTransport(self.loop, server_proto, s2c, client_addr, (host, port))
        c2s.dst, s2c.dst = server_tr, client_tr
        client_tr.peer, server_tr.peer = server_tr, client_tr
        conn = Connection(client_tr, server_tr, c2s, s2c)
        self.connections.append(conn)
        server_proto.connection_made(server_tr)
        client_proto.connection_made(client_tr)
        return client_tr, client_proto

"""Fixture wallet (DESIGN §3.8): a REAL Ledger + Database + Wallet + Accounts, funded by saving
synthetic funding transactions through the real `insert_transaction` / `save_transaction_io`.
Used by C03, C04, C09, C14."""
import asyncio

from vlib import boot

SEEDS = [
    "carbon smart garage balance margin twelve chest sword toast envelope bottom stomach absent",
    "alley ecology patch reject sting soldier boss alpha turkey coach uncover tired garment",
    "expect pulse piece dawn lobster blur worth capital enroll loud picnic cricket emotion",
]


class FakeNetwork:
    """Inert network object handed to Ledger through the existing config['network'] parameter."""
    def __init__(self):
        from lbry.wallet.stream import StreamController
        self._on_header = StreamController()
        self._on_status = StreamController()
        self.on_header = self._on_header.stream
        self.on_status = self._on_status.stream
        self.is_connected = False    # like an unstarted Network: address announcements are not sent anywhere
        self.client = None
        self.remote_height = 0

    async def start(self):
        pass

    async def stop(self):
        pass


class Fx:
    def __init__(self):
        self.ledger = self.wallet = None
        self.accounts = []
        self._fund_counter = 0

    @classmethod
    async def open(cls, n_accounts=1, fee_per_byte=50, fee_per_name_char=0, db_path=':memory:', strategy=None,
                   network=None, headers=None, ledger_class=None, gap=None):
        boot.import_lbry()
        from lbry.wallet import Wallet, Account, Ledger, Database, Headers
        self = cls()
        config = {'db': Database(db_path), 'headers': headers or Headers(':memory:'),
                  'network': network or FakeNetwork(), 'fee_per_byte': fee_per_byte,
                  'fee_per_name_char': fee_per_name_char}
        self.ledger = (ledger_class or Ledger)(config)
        self.ledger.coin_selection_strategy = strategy
        await self.ledger.db.open()
        self.wallet = Wallet()
        for i in range(n_accounts):
            d = {"seed": SEEDS[i], "name": f"acct{i}"}
            if gap:
                d["address_generator"] = {"name": "deterministic-chain", "receiving": {"gap": gap, "maximum_uses_per_address": 1},
                                          "change": {"gap": max(1, gap // 3), "maximum_uses_per_address": 1}}
            acc = Account.from_dict(self.ledger, self.wallet, d)
            await acc.ensure_address_gap()
            self.accounts.append(acc)
        return self

    async def close(self):
        await self.ledger.db.close()

    async def addresses(self, account, chain=0):
        mgr = account.receiving if chain == 0 else account.change
        return await mgr.get_addresses()

    async def fund(self, outputs, height=10, is_verified=True):
        """outputs: list of (account_index, chain, address_index, amount[, kind]) -> list of real Output objects.
        One synthetic funding transaction (with one dummy input) holding all of them is saved through the real DB code."""
        from lbry.wallet import Transaction, Output, Input
        from lbry.wallet.constants import NULL_HASH32
        self._fund_counter += 1
        txos, addrs = [], []
        cache = {}
        for spec in outputs:
            ai, chain, idx, amount = spec[:4]
            kind = spec[4] if len(spec) > 4 else 'pay'
            key = (ai, chain)
            if key not in cache:
                cache[key] = await self.addresses(self.accounts[ai], chain)
            address = cache[key][idx % len(cache[key])]
            h160 = self.ledger.address_to_hash160(address)
            if kind == 'pay':
                txo = Output.pay_pubkey_hash(amount, h160)
            elif kind == 'claim':
                from lbry.schema.claim import Claim
                c = Claim()
                c.stream.title = 'fixture'
                txo = Output.pay_claim_name_pubkey_hash(amount, f'fixture{self._fund_counter}', c, h160)
            elif kind == 'support':
                txo = Output.pay_support_pubkey_hash(amount, 'fixture', 'ab' * 20, h160)
            else:
                raise ValueError(kind)
            txos.append(txo)
            addrs.append((address, h160))
        total = sum(t.amount for t in txos) + 100000 + self._fund_counter
        dummy_prev = Transaction(height=-2).add_outputs([Output.pay_pubkey_hash(total, NULL_HASH32)]).outputs[0]
        tx = Transaction(is_verified=is_verified, height=height).add_inputs([Input.spend(dummy_prev)]).add_outputs(txos)
        tx.locktime = self._fund_counter     # makes each funding txid unique
        tx._reset()
        await self.ledger.db.insert_transaction(tx)
        for address, h160 in dict.fromkeys(addrs):
            await self.ledger.db.save_transaction_io(tx, address, h160, f'{tx.id}:{height}:')
        # the real ledger re-extends the address gap after it has stored a history (update_history)
        for acc in self.accounts:
            await acc.ensure_address_gap()
        return tx, txos

    async def fund_purchase_payment(self, account_index, chain, address_index, amount, height=10, is_verified=True):
        """money RECEIVED for a purchase: a transaction [payment to our address, purchase-data output] as Transaction.purchase builds
        it on the buyer's side.  The wallet types the payment output `purchase` (txo_type 4) and counts it as spendable funds."""
        from lbry.wallet import Transaction, Output, Input
        from lbry.wallet.constants import NULL_HASH32
        from lbry.schema.purchase import Purchase
        self._fund_counter += 1
        address = (await self.addresses(self.accounts[account_index], chain))
        address = address[address_index % len(address)]
        h160 = self.ledger.address_to_hash160(address)
        pay = Output.pay_pubkey_hash(amount, h160)
        data = Output.add_purchase_data(Purchase('%040x' % (self._fund_counter * 7919)))
        dummy_prev = Transaction(height=-2).add_outputs([Output.pay_pubkey_hash(amount + 100000 + self._fund_counter, NULL_HASH32)]).outputs[0]
        tx = Transaction(is_verified=is_verified, height=height).add_inputs([Input.spend(dummy_prev)]).add_outputs([pay, data])
        tx.locktime = self._fund_counter
        tx._reset()
        await self.ledger.db.insert_transaction(tx)
        await self.ledger.db.save_transaction_io(tx, address, h160, f'{tx.id}:{height}:')
        for acc in self.accounts:
            await acc.ensure_address_gap()
        return tx, [pay]

    async def sql(self, query, params=()):
        return await self.ledger.db.db.execute_fetchall(query, params)

    async def txo_snapshot(self):
        """txoid -> dict(amount, address, is_reserved, txo_type, spent, account, chain, height, verified)"""
        rows = await self.sql(
            "select txo.txoid, txo.amount, txo.address, txo.is_reserved, txo.txo_type, txo.script, "
            " (select count(*) from txi where txi.txoid = txo.txoid) as spent, "
            " tx.height, tx.is_verified, aa.account, aa.chain "
            "from txo join tx using (txid) left join account_address aa on aa.address = txo.address")
        snap = {}
        for r in rows:
            snap[r['txoid']] = {'amount': r['amount'], 'address': r['address'], 'is_reserved': bool(r['is_reserved']),
                                'txo_type': r['txo_type'], 'script': bytes(r['script']), 'spent': bool(r['spent']),
                                'height': r['height'], 'verified': bool(r['is_verified']), 'account': r['account'],
                                'chain': r['chain']}
        return snap


def run(coro, timeout=300):
    loop = asyncio.new_event_loop()
    try:
        return loop.run_until_complete(asyncio.wait_for(coro, timeout))
    finally:
        try:
            loop.run_until_complete(loop.shutdown_asyncgens())
            loop.run_until_complete(loop.shutdown_default_executor())
        finally:
            loop.close()

"""Inert stand-in for the absent `colorama` package."""
class _C:
    def __getattr__(self, _n):
        return ''
Fore = Back = Style = _C()
def init(*a, **k):
    pass

"""Inert stand-in for the absent `appdirs` package (OS directory lookup; on no property's path)."""
import os
def user_data_dir(appname=None, *a, **k):
    return os.path.join(os.path.expanduser('~'), '.local', 'share', appname or '')
def user_config_dir(appname=None, *a, **k):
    return os.path.join(os.path.expanduser('~'), '.config', appname or '')

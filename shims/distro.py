"""Inert stand-in for the absent `distro` package."""
def info():
    return {'id': 'sandbox', 'version': '0', 'version_parts': {}, 'like': '', 'codename': ''}

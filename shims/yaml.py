"""Inert stand-in for the absent `yaml` package (config files; no check reads one)."""
import json
def safe_load(stream):
    data = stream.read() if hasattr(stream, 'read') else stream
    return json.loads(data) if data and data.strip() else None
def safe_dump(data, stream=None, **k):
    s = json.dumps(data)
    if stream is None:
        return s
    stream.write(s)

class UPnP:
    pass

"""Inert stand-in for the absent `aioupnp` package (UPnP; on no property's path)."""
__version__ = '0.0.0-shim'

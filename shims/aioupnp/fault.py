class UPnPError(Exception):
    pass

"""Inert stand-in for the absent `filetype` package (mime sniffing; on no property's path)."""
def guess(_path):
    return None

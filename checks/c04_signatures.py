"""C04 — input signatures under SIGHASH_ALL; channel signatures bind the claim.  [DIFF]

Real `Transaction.sign` / `Output.sign` / `Output.is_signed_by` on a real funded Ledger+Wallet
(vlib/walletfx).  Oracle: independent SIGHASH_ALL preimage (vlib/ref/sighash on top of the
independent raw-tx parser minitx) + pure-Python `ecdsa` verification; independent channel
signature digest (vlib/ref/chansig: wire-level claim envelope, own protobuf field reader);
single-bit / single-field mutations of signed objects must stop validating.

Clauses (DESIGN §4 C04):
  A1  every input: scriptSig = <DER sig ‖ 01> <pubkey> (P2SH time-lock: + <redeem script>),
      hash160(pubkey) == hash the spent output pays to, signature verifies (ecdsa) over
      SHA256d(reference preimage built from the RAW transaction and the spent script).
  A2  is_signed_by(channel) is true (object just signed AND re-parsed from the wire) and the 64-byte
      signature verifies (ecdsa) over sha256(first input outpoint ‖ channel hash ‖ message bytes), the
      embedded channel hash being the channel's claim hash computed independently.
  A3  each single mutation stops validation (False or exception): every signature bit, payload bits and
      protobuf fields, envelope flag, embedded channel hash, other channel key / damaged channel key,
      first input txid / index / swapped first input.
  A4  the three real main-net pairs signed by earlier releases validate (lbry AND reference) and stop
      validating under the same mutations.
  A5  claims signed OUTSIDE the wallet by the independent signer (earlier-release v1 rule: sha256(claim address ‖ payload
      without signature ‖ certificate id); present rule), delivered as raw bytes assembled by the harness in every
      claim-carrying output template (claim-name / update-claim x pays-to-pubkey-hash / pays-to-script-hash) against every
      channel encoding (v1 certificate, DER key, compressed key; name claim or update) validate, and stop validating under
      the same mutations.
  A6  the same as A2 when claim and channel went through the wallet database in between (channel_create -> stream_create ->
      channel_update keeping / REPLACING the signing key -> stream_create -> stream_update without channel arguments, every step
      re-reading its objects with the wallet's listing calls as the daemon does): what the wallet signs validates against
      the channel version the harness itself broadcast last, and a claim the current channel signed validates against the
      channel the listing attaches to it.
"""
import hashlib
import json
import os
import random
import struct

from vlib import boot, walletfx
from vlib.ref import minitx, sighash, chansig

ID = 'C04'
LEVEL = 'exploration'
RULE = ('tx case = funded wallet (2-3 accounts incl. an optional single-address account, fee rate) + one transaction with '
        '1..20 (one case: 260) inputs spread over addresses/chains/accounts spending P2PKH, claim-name, update-claim, support '
        'and P2SH time-lock outputs, output kinds pay/p2sh/claim(stream, channel, repost, collection, empty, 5 kB)/update/'
        'support/support+data/purchase/253+ outputs/change-only, built by Transaction.create (signed inside, or sign=False then '
        'tx.sign), hand-assembled with random version/locktime/sequences, or signed twice; chan case = channel (deterministic, '
        'random-secret, boundary-secret or PEM-imported key; optionally updated) + 3..6 claims/supports signed as the daemon '
        'does (claim_create/claim_update/support with signing_channel, Output.sign after funding, tx.sign), each then mutated; '
        'legacy case = 3 real main-net pairs; foreign case = channel (v1 certificate / DER key / compressed key, name claim or update) + 8 claims '
        '(v1 and present format x 4 output templates incl. pays-to-script-hash) signed by the independent signer and serialised by the harness, each '
        'then mutated; rotate case = channel + claims driven through the wallet database with 1..3 channel updates (>= 1 replacing the signing key) '
        'in between, every held claim then updated with the channel the listing attached. evaluations = transactions signed + mutations judged; distinct = hash(kind, '
        '#inputs, spent-script classes, output kind, mode) for transactions and (mutation class, position, claim kind) for '
        'mutations; non-trivial = every transaction with >= 1 verified input, every mutation that changed a byte')
ASSUMPTIONS = [
    'the pure-Python ecdsa library is the independent secp256k1 implementation; the reference preimage/digest code in '
    'vlib/ref/sighash.py and vlib/ref/chansig.py is cross-checked at start-up against the BIP143 legacy-input vector and against '
    '6 network-validated main-net input signatures and 3 main-net channel signatures',
    'spent scripts are taken from the raw funding transactions as stored (parsed by minitx), not from lbry objects',
    '"fails to validate" = is_signed_by returns False or raises; the unmutated object must validate first (A2/A4), so an '
    'exception-only harness cannot pass',
    'the ECDSA twin (r, n-s), a second channel claim carrying the SAME public key, changes to inputs other than the first, '
    'wire mutations that decode to identical content, and (for the historical v1 format, which never signed it) the first '
    'input are exercised and logged, not judged; v1 signatures bind the claim address instead',
    'strict-DER / low-S of input signatures is logged; judged is verification by ecdsa over the reference digest',
]
REQUIRED_HITS = [
    'ref.selftest', 'A1.input_verified', 'A1.pubkey_hash_checked', 'A1.spent.p2pkh', 'A1.spent.claim_name', 'A1.spent.update_claim',
    'A1.spent.support', 'A1.spent.p2sh_timelock', 'A1.tx.multi_address', 'A1.tx.two_accounts', 'A1.tx.change_chain_key',
    'A1.tx.inputs_ge_8', 'A1.mode.create', 'A1.mode.create_then_sign', 'A1.mode.manual', 'A1.mode.resign', 'A1.spent_script_ge_253',
    'A1.out.pay', 'A1.out.p2sh', 'A1.out.stream', 'A1.out.channel', 'A1.out.update', 'A1.out.support', 'A1.out.support_data',
    'A1.out.purchase', 'A1.out.many_outputs', 'A1.out.change_only', 'A1.out.big_claim',
    'A2.is_signed_by_object', 'A2.is_signed_by_wire', 'A2.ref_verified', 'A2.channel_hash_checked', 'A2.kind.stream', 'A2.kind.repost',
    'A2.kind.collection', 'A2.kind.support', 'A2.kind.stream_update', 'A2.kind.empty', 'A2.channel.updated', 'A2.channel.key.deterministic',
    'A2.channel.key.random', 'A2.channel.key.pem',
    'A3.sig_bit', 'A3.all_512_sig_bits', 'A3.payload_bit', 'A3.payload_field', 'A3.envelope_flag', 'A3.channel_hash_bit',
    'A3.other_channel_key', 'A3.channel_key_damaged', 'A3.first_input_txid', 'A3.first_input_index', 'A3.first_input_swapped',
    'A4.validates', 'A4.ref_verified', 'A4.high_s_validates', 'A4.sig_bit', 'A4.payload_bit', 'A4.channel_hash_bit', 'A4.other_channel',
    'A4.first_input_txid', 'A4.first_input_index', 'A4.channel_key_damaged',
    'A5.validates', 'A5.ref_verified', 'A5.format.v1', 'A5.format.v2', 'A5.template.claim_name+pay_pubkey_hash',
    'A5.template.claim_name+pay_script_hash', 'A5.template.update_claim+pay_pubkey_hash', 'A5.template.update_claim+pay_script_hash',
    'A5.sig_bit', 'A5.payload_bit', 'A5.channel_hash_bit', 'A5.other_channel',
    'A6.channel_key_replaced', 'A6.created_with_reloaded_channel', 'A6.updated_after_key_replaced', 'A6.ref_verified',
    'A6.listing_checked', 'A6.listing_checked_after_key_replaced',
]
FIX = os.path.join(boot.VERIF, 'fixtures', 'c04_legacy_pairs.json')
NINS = [1, 2, 3, 5, 8, 13, 20, 1, 2, 4, 6, 16]
MODES = ['create', 'create_then_sign', 'manual', 'resign']
OKINDS = ['pay', 'p2sh', 'stream', 'channel', 'update', 'support', 'support_data', 'purchase', 'many_outputs', 'change_only',
          'big_claim', 'repost', 'collection', 'empty']
TEXT = 'abcdefghijklmnopqrstuvwxyz ABC 0123456789 -_.,;:!? üñé 名前 é\U0001F600'


def plan(tier):
    return {'shards': 16, 'budget_s': 42 if tier == 'quick' else 780}


def required_hits(tier):
    return REQUIRED_HITS + ['A1.tx.inputs_ge_253', 'A1.dbreload_checked', 'A1.dbreload.v2-der', 'A1.dbreload.v1-cert']


def gen_cases(rng, tier, shard, nshards):
    quick = tier == 'quick'
    yield {'fam': 'legacy', 'part': shard, 'parts': nshards, 'seed': rng.getrandbits(48)}
    sub = random.Random()
    sub.setstate(rng.getstate())                # own generator for the two families added last: `rng` is not advanced, the cases of
    sub = random.Random(sub.getrandbits(64) ^ 0xC04A5A6)     # the other families stay what they were
    for i in range(1 if quick else 40):
        # quick: the two families alternate over the shards
        if not quick or (shard + i) % 2 == 1:
            yield {'fam': 'foreign', 'seed': sub.getrandbits(48)}
        if not quick or (shard + i) % 2 == 0:
            yield {'fam': 'rotate', 'seed': sub.getrandbits(48), 'newkey': ['deterministic', 'imported'][(shard // 2 + i) % 2]}
    if shard == nshards - 1 or not quick:      # last shard: its (large) witnesses come last when shards are merged
        yield {'fam': 'tx', 'seed': rng.getrandbits(48), 'nin': 260 if quick else rng.choice([253, 260, 300]), 'mode': 'manual',
               'okind': 'pay'}
    ntx = 26 if quick else 900
    nchan = 5 if quick else 220
    ntl = 3 if quick else 60
    for i in range(max(ntx, nchan, ntl)):
        if i < ntx:
            yield {'fam': 'tx', 'seed': rng.getrandbits(48), 'nin': rng.choice(NINS), 'mode': MODES[(i // 2 + shard) % len(MODES)],
                   'okind': OKINDS[(i + shard) % len(OKINDS)]}
        if i < nchan:
            yield {'fam': 'chan', 'seed': rng.getrandbits(48), 'allbits': i % 2 == 0, 'keykind': ['deterministic', 'random', 'pem',
                   'boundary'][(i + shard) % 4], 'update_channel': (i + shard) % 3 == 0}
        if i < ntl:
            yield {'fam': 'timelock', 'seed': rng.getrandbits(48), 'extra': (i + shard) % 2}
        if i < (2 if quick else 40):
            yield {'fam': 'dbreload', 'seed': rng.getrandbits(48)}


# ------------------------------------------------------------------------------------- start-up
_LEGACY = None


def legacy_pairs():
    global _LEGACY
    if _LEGACY is None:
        with open(FIX) as f:
            _LEGACY = json.load(f)['pairs']
    return _LEGACY


def shard_setup(rec, tier):
    raws = []
    for p in legacy_pairs():
        raws += [bytes.fromhex(p['stream_tx']), bytes.fromhex(p['channel_tx'])]
    n = sighash.selftest(raws) + chansig.selftest()
    rec.hit('ref.selftest', n)


# ------------------------------------------------------------------------------------- helpers
def text(r, n):
    return ''.join(r.choice(TEXT) for _ in range(n))


def flip(raw: bytes, byte_off: int, bit: int) -> bytes:
    b = bytearray(raw)
    b[byte_off] ^= 1 << bit
    return bytes(b)


def spent_class(script):
    if sighash.p2sh_hash(script) is not None:
        return 'p2sh_timelock'
    op = script[0] if script else None
    if op == 0xb5:
        return 'claim_name'
    if op == 0xb7:
        return 'update_claim'
    if op == 0xb6:
        return 'support'
    if len(script) == 25 and sighash.p2pkh_tail(script) is not None:
        return 'p2pkh'
    return 'other'


def ecdsa_verify_der(pub, der, digest):
    import ecdsa
    from ecdsa.util import sigdecode_der
    try:
        vk = ecdsa.VerifyingKey.from_string(bytes(pub), curve=ecdsa.SECP256k1)
    except Exception as e:  # noqa  malformed point
        return False, f'bad public key: {e!r}'
    try:
        return bool(vk.verify_digest(bytes(der), digest, sigdecode=sigdecode_der)), None
    except ecdsa.BadSignatureError:
        return False, 'bad signature'
    except Exception as e:  # noqa  (UnexpectedDER etc.)
        return False, f'undecodable signature: {e!r}'


def check_inputs(rec, raw, spent, ctx):
    """A1 on every input of `raw`.  spent: {(txid, nout): script bytes}.  returns (#verified, set of spent classes, #addresses)"""
    m = minitx.parse(raw)
    verified, classes, hashes = 0, set(), set()
    diagnosed, variant = 0, 'not-diagnosed'
    for i, txin in enumerate(m['inputs']):
        key = (txin['txid'], txin['nout'])
        if key not in spent:
            raise RuntimeError(f'harness: spent script of {key} unknown')
        prev = spent[key]
        cls = spent_class(prev)
        classes.add(cls)
        wit = {'input': i, 'n_inputs': len(m['inputs']), 'spent_class': cls, 'spent_script': prev, 'script_sig': txin['script'],
               'raw_tx': raw, 'ctx': ctx}
        ps = sighash.pushes(txin['script'])
        want = 3 if cls == 'p2sh_timelock' else 2
        if ps is None or len(ps) != want:
            rec.violation(f'C04/A1/scriptsig-shape/{cls}', f'input {i} scriptSig is not {want} data pushes: {txin["script"].hex()[:80]}', wit)
            continue
        sig, pub = ps[0], ps[1]
        if cls == 'p2sh_timelock':
            redeem = ps[2]
            if sighash.hash160(redeem) != sighash.p2sh_hash(prev):
                rec.violation('C04/A1/redeem-script-hash-mismatch', f'input {i}: hash160(redeem script) != script hash of the spent output', wit)
                continue
            code, pkh = redeem, sighash.p2pkh_tail(redeem)
        else:
            code, pkh = prev, sighash.p2pkh_tail(prev)
        if pkh is None:
            raise RuntimeError('harness: spent script has no P2PKH tail')
        hashes.add(pkh)
        if not sig or sig[-1] != 1:
            rec.violation(f'C04/A1/hash-type-byte-not-01/{cls}', f'input {i}: signature push does not end with SIGHASH_ALL 0x01: {sig.hex()}', wit)
            continue
        rec.hit('A1.pubkey_hash_checked')
        if len(pub) != 33 or pub[0] not in (2, 3) or sighash.hash160(pub) != pkh:
            rec.violation(f'C04/A1/pubkey-hash-mismatch/{cls}',
                          f'input {i} of {len(m["inputs"])}: hash160(pubkey {pub.hex()}) = {sighash.hash160(pub).hex()} but the spent output '
                          f'pays to {pkh.hex()}', wit)
            continue
        digest = sighash.digest_all(raw, i, code)
        ok, why = ecdsa_verify_der(pub, sig[:-1], digest)
        if not ok:
            if diagnosed < 2:       # naming the mechanism costs many verifications: first two failing inputs of a transaction only
                variant = diagnose(raw, i, code, pub, sig[:-1], cls)
                diagnosed += 1
            rec.violation(f'C04/A1/signature-does-not-verify/{cls}/{variant}',
                          f'input {i} of {len(m["inputs"])} (spends {cls}): DER signature does not verify with ecdsa over the reference '
                          f'SIGHASH_ALL digest {digest.hex()} ({why}); verifies instead over: {variant}', wit)
            continue
        verified += 1
        rec.hit('A1.input_verified')
        rec.hit('A1.spent.' + cls)
        if len(code) >= 253:
            rec.hit('A1.spent_script_ge_253')
        try:
            _, s = sighash.der_signature(sig[:-1])
            rec.log('A1.sig.low_s' if s <= sighash.SECP256K1_N // 2 else 'A1.sig.high_s')
        except ValueError:
            rec.log('A1.sig.not_strict_der')
    return verified, classes, len(hashes), m


def diagnose(raw, i, code, pub, der, cls):
    """which wrong message does the signature verify over? (names the mechanism; only called on failure)"""
    pre = sighash.preimage_all(raw, i, code)
    placeholder = bytes([72]) + bytes(72) + bytes([33]) + bytes(33)
    m = minitx.parse(raw)
    cands = [('preimage-without-hash-type', sighash.sha256d(pre[:-4])),
             ('single-sha256', hashlib.sha256(pre).digest()),
             ('placeholder-scriptsig-as-script-code', sighash.digest_all(raw, i, placeholder)),
             ('own-scriptsig-as-script-code', sighash.digest_all(raw, i, m['inputs'][i]['script'])),
             ('empty-script-code', sighash.digest_all(raw, i, b'')),
             ('raw-transaction', sighash.sha256d(raw))]
    if cls != 'p2pkh' and sighash.p2pkh_tail(code):
        cands.append(('p2pkh-tail-only-as-script-code', sighash.digest_all(raw, i, b'\x76\xa9\x14' + sighash.p2pkh_tail(code) + b'\x88\xac')))
    for k in [k for k in range(len(m['inputs'])) if k != i][:6]:
        cands.append(('digest-of-another-input', sighash.digest_all(raw, k, code)))
    for name, dg in cands:
        if ecdsa_verify_der(pub, der, dg)[0]:
            return name
    return 'nothing-recognised'


# ------------------------------------------------------------------------------------- wallet plumbing (harness side)
class Env:
    def __init__(self, fx, r):
        self.fx, self.r = fx, r
        self.spent = {}        # (txid, nout) -> script bytes as stored in the raw transaction
        self.counter = 0
        self.addr_cache = {}

    async def address(self, ai, chain, idx):
        key = (ai, chain)
        if key not in self.addr_cache:
            self.addr_cache[key] = await self.fx.addresses(self.fx.accounts[ai], chain)
        lst = self.addr_cache[key]
        return lst[idx % len(lst)]

    def remember(self, tx):
        m = minitx.parse(tx.raw)
        if m['txid'] != tx.id:
            raise RuntimeError('harness: txid mismatch between minitx and lbry')
        for n, o in enumerate(m['outputs']):
            self.spent[(m['txid'], n)] = o['script']

    async def fund(self, specs, height=10):
        """specs: [(account index, chain, address index, Output factory(h160) -> Output)] -> (tx, [Output])"""
        from lbry.wallet import Transaction, Output, Input
        from lbry.wallet.constants import NULL_HASH32
        ledger = self.fx.ledger
        self.counter += 1
        txos, addrs = [], []
        for ai, chain, idx, factory in specs:
            address = await self.address(ai, chain, idx)
            h160 = ledger.address_to_hash160(address)
            txos.append(factory(h160))
            addrs.append((address, h160))
        total = sum(t.amount for t in txos) + 100000
        dummy_prev = Transaction(height=-2).add_outputs([Output.pay_pubkey_hash(total, NULL_HASH32)]).outputs[0]
        tx = Transaction(is_verified=True, height=height).add_inputs([Input.spend(dummy_prev)]).add_outputs(txos)
        tx.locktime = 500000 + self.counter
        tx._reset()
        await ledger.db.insert_transaction(tx)
        for address, h160 in dict.fromkeys(addrs):
            await ledger.db.save_transaction_io(tx, address, h160, f'{tx.id}:{height}:')
        for acc in self.fx.accounts:
            await acc.ensure_address_gap()
        self.addr_cache.clear()
        self.remember(tx)
        return tx, txos

    async def broadcast(self, tx, height=None, position=0):
        """store a built transaction the way a sync would (inputs become spent, own outputs spendable); height: 0 = seen in the mempool,
        > 0 = in a block (default: left as built)"""
        ledger = self.fx.ledger
        self.remember(tx)
        if height is not None:
            tx.height, tx.position, tx.is_verified = height, position, height > 0
        await ledger.db.insert_transaction(tx)
        rows = await self.fx.sql("select address from account_address")
        mine = {row['address'] for row in rows}
        addrs = {}
        for txi in tx.inputs:
            txo = txi.txo_ref.txo
            if txo is not None and txo.is_pubkey_hash:
                addrs[txo.get_address(ledger)] = txo.pubkey_hash
        for txo in tx.outputs:
            if txo.is_pubkey_hash:
                addrs[txo.get_address(ledger)] = txo.pubkey_hash
        for a, h in addrs.items():
            if a in mine:
                await ledger.db.save_transaction_io(tx, a, h, f'{tx.id}:{max(tx.height, 0)}:')
        for acc in self.fx.accounts:
            await acc.ensure_address_gap()
        self.addr_cache.clear()
        await ledger.release_tx(tx)

    async def confirm(self, txs, height):
        """a block arrives: transactions seen in the mempool get their height and position (Ledger.update_history -> update_transaction)"""
        for k, tx in enumerate(txs):
            tx.height, tx.position, tx.is_verified = height, k + 1, True
            await self.fx.ledger.db.update_transaction(tx)


async def open_env(r, n_accounts=2, single=False, rate=None):
    fx = await walletfx.Fx.open(n_accounts=n_accounts, fee_per_byte=rate or r.choice([1, 50, 50]))
    if single:
        from lbry.wallet import Account
        acc = Account.from_dict(fx.ledger, fx.wallet, {"seed": walletfx.SEEDS[2], "name": "single",
                                                       "address_generator": {"name": "single-address"}})
        await acc.ensure_address_gap()
        fx.accounts.append(acc)
    return Env(fx, r)


def make_claim(r, kind, big=False):
    """a real Claim with generated content, set through the protobuf message the Claim wraps"""
    from lbry.schema.claim import Claim
    c = Claim()
    msg = c.message
    if kind == 'empty':
        return c
    if kind == 'stream':
        st = msg.stream
        st.SetInParent()
        if r.random() < 0.8:
            st.source.sd_hash = r.randbytes(48)
            st.source.name = text(r, r.choice([0, 5, 30]))
            st.source.size = r.choice([0, 1, 255, 2 ** 32, 2 ** 63, 2 ** 64 - 1, r.getrandbits(40)])
            st.source.media_type = r.choice(['video/mp4', 'application/octet-stream', ''])
            if r.random() < 0.3:
                st.source.hash = r.randbytes(48)
        if r.random() < 0.5:
            st.author = text(r, r.choice([1, 20]))
            st.license = r.choice(['', 'Public Domain', 'CC-BY'])
            st.license_url = r.choice(['', 'https://example.com/l'])
        if r.random() < 0.6:
            st.release_time = r.choice([0, 1, -1, 1630564175, 2 ** 31, 2 ** 62, -2 ** 63])
        if r.random() < 0.4:
            st.fee.currency = r.choice([1, 2, 3])
            st.fee.address = r.randbytes(25)
            st.fee.amount = r.choice([0, 1, 10 ** 8, 2 ** 64 - 1])
        k = r.random()
        if k < 0.3:
            st.video.width, st.video.height, st.video.duration = r.choice([0, 1920]), r.choice([0, 1080]), r.choice([0, 1, 2 ** 32 - 1])
        elif k < 0.4:
            st.audio.duration = r.randrange(1, 10 ** 5)
        elif k < 0.5:
            st.image.width, st.image.height = 640, 480
    elif kind == 'channel':
        ch = msg.channel
        ch.SetInParent()
        if r.random() < 0.5:
            ch.email = 'a@b.c'
            ch.website_url = 'https://' + text(r, 6).replace(' ', '')
        if r.random() < 0.3:
            ch.cover.url = 'https://cover'
        for _ in range(r.choice([0, 0, 2])):
            ch.featured.claim_references.add().claim_hash = r.randbytes(20)
    elif kind == 'repost':
        msg.repost.claim_hash = r.randbytes(20)
    elif kind == 'collection':
        msg.collection.SetInParent()
        for _ in range(r.choice([0, 1, 3, 12])):
            msg.collection.claim_references.add().claim_hash = r.randbytes(20)
    else:
        raise ValueError(kind)
    if r.random() < 0.8:
        msg.title = text(r, r.choice([0, 1, 12, 80]))
    if r.random() < 0.6 or big:
        msg.description = text(r, 5000 if big else r.choice([0, 10, 300, 2000]))
    if r.random() < 0.3:
        msg.thumbnail.url = 'https://thumb/' + str(r.randrange(10 ** 6))
    for _ in range(r.choice([0, 0, 1, 5])):
        msg.tags.append(text(r, r.randrange(1, 12)))
    for _ in range(r.choice([0, 0, 1, 2])):
        lang = msg.languages.add()
        lang.language = r.randrange(1, 180)
        if r.random() < 0.3:
            lang.region = r.randrange(1, 200)
    if r.random() < 0.2:
        loc = msg.locations.add()
        loc.country = r.randrange(1, 200)
        loc.city = text(r, 6)
        loc.latitude, loc.longitude = r.randrange(-90 * 10 ** 7, 90 * 10 ** 7), r.randrange(-180 * 10 ** 7, 180 * 10 ** 7)
    return c


def _is_repeated(f):
    v = getattr(f, 'is_repeated', None)
    if v is None:
        return f.label == f.LABEL_REPEATED
    return v() if callable(v) else v


def mutate_message(msg, r, depth=0):
    """change exactly one field of a protobuf message in place (protobuf reflection; google.protobuf is third-party code,
    not lbry).  returns a description.  The caller checks that the serialisation really changed."""
    from google.protobuf.descriptor import FieldDescriptor as FD
    present = [f for f, _ in msg.ListFields()]
    allf = list(msg.DESCRIPTOR.fields)
    f = r.choice(present * 3 + allf) if present or allf else None
    if f is None:
        return None
    name = f.name

    def new_scalar(old):
        if f.type == FD.TYPE_STRING:
            return r.choice([old + 'x', 'y' + old, old[:-1] if old else 'z', old.swapcase() if old.swapcase() != old else old + ' '])
        if f.type == FD.TYPE_BYTES:
            if old and r.random() < 0.7:
                b = bytearray(old)
                b[r.randrange(len(b))] ^= 1 << r.randrange(8)
                return bytes(b)
            return old + b'\x00' if r.random() < 0.5 or not old else old[:-1]
        if f.type == FD.TYPE_ENUM:
            vals = [v.number for v in f.enum_type.values if v.number != old]
            return r.choice(vals)
        if f.type in (FD.TYPE_UINT32, FD.TYPE_UINT64, FD.TYPE_FIXED32, FD.TYPE_FIXED64):
            return old + 1 if old < 2 ** 32 - 1 else old - 1
        if f.type in (FD.TYPE_INT32, FD.TYPE_INT64, FD.TYPE_SINT32, FD.TYPE_SINT64, FD.TYPE_SFIXED32, FD.TYPE_SFIXED64):
            return old + r.choice([1, -1]) if abs(old) < 2 ** 31 - 1 else old // 2
        if f.type == FD.TYPE_BOOL:
            return not old
        if f.type in (FD.TYPE_DOUBLE, FD.TYPE_FLOAT):
            return old + 1.0
        raise RuntimeError(f'harness: unhandled protobuf type {f.type}')

    if _is_repeated(f):
        rep = getattr(msg, name)
        ops = ['add']
        if len(rep):
            ops += ['del', 'change']
        if len(rep) >= 2:
            ops += ['swap']
        op = r.choice(ops)
        if f.type == FD.TYPE_MESSAGE:
            if op == 'add':
                sub = rep.add()
                return f'{name}.add(' + (mutate_message(sub, r, depth + 1) or 'empty') + ')'
            if op == 'del':
                del rep[r.randrange(len(rep))]
                return f'{name}.del'
            if op == 'swap':
                vals = [type(rep[0]).FromString(x.SerializeToString()) for x in rep]
                i, j = r.sample(range(len(vals)), 2)
                vals[i], vals[j] = vals[j], vals[i]
                del rep[:]
                for v in vals:
                    rep.add().CopyFrom(v)
                return f'{name}.swap'
            return f'{name}[].' + (mutate_message(rep[r.randrange(len(rep))], r, depth + 1) or 'noop')
        if op == 'add':
            rep.append(new_scalar('' if f.type == FD.TYPE_STRING else b'' if f.type == FD.TYPE_BYTES else 0))
            return f'{name}.append'
        if op == 'del':
            del rep[r.randrange(len(rep))]
            return f'{name}.del'
        if op == 'swap':
            i, j = r.sample(range(len(rep)), 2)
            rep[i], rep[j] = rep[j], rep[i]
            return f'{name}.swap'
        i = r.randrange(len(rep))
        rep[i] = new_scalar(rep[i])
        return f'{name}[{i}].change'
    if f.type == FD.TYPE_MESSAGE:
        sub = getattr(msg, name)
        if msg.HasField(name):
            if r.random() < 0.25:
                msg.ClearField(name)
                return f'{name}.clear'
            return f'{name}.' + (mutate_message(sub, r, depth + 1) or 'noop')
        if r.random() < 0.3 or depth > 3:
            sub.SetInParent()
            return f'{name}.set_empty'
        sub.SetInParent()
        return f'{name}.new.' + (mutate_message(sub, r, depth + 1) or 'empty')
    old = getattr(msg, name)
    setattr(msg, name, new_scalar(old))
    return f'{name}.change'


# ------------------------------------------------------------------------------------- fam: tx  (A1)
async def _run_tx(rec, case):
    boot.import_lbry()
    from lbry.wallet import Transaction, Output, Input
    from lbry.error import InsufficientFundsError
    from lbry.schema.support import Support
    from lbry.schema.purchase import Purchase
    r = random.Random(case['seed'])
    random.seed(case['seed'])
    nin, mode, okind = case['nin'], case['mode'], case['okind']
    single = r.random() < 0.3
    env = await open_env(r, 2, single)
    fx, ledger = env.fx, env.fx.ledger
    try:
        nacc = len(fx.accounts)
        # ---- funding: nin chosen outputs (+ a few spare ones the selector may add), several kinds, 1..3 funding transactions
        kinds_w = ['pay'] * 6 + ['claim', 'claim_big', 'update', 'support', 'support_data']
        if nin > 40:
            kinds_w = ['pay'] * 30 + ['claim', 'support']
        specs = []
        total_n = nin + r.choice([0, 0, 2, 5])
        for j in range(total_n):
            k = r.choice(kinds_w) if j < nin else 'pay'
            amount = r.choice([r.randrange(10 ** 5, 10 ** 9), 10 ** 8, r.randrange(10 ** 6, 10 ** 7)])
            specs.append((r.randrange(nacc), r.choice([0, 0, 1]), r.randrange(25), _factory(r, k, amount), k))
        groups = [[] for _ in range(r.randrange(1, 4))]
        for j, s in enumerate(specs):
            groups[r.randrange(len(groups))].append((j, s))
        pool = {}
        for g in groups:
            if not g:
                continue
            _, txos = await env.fund([s[:4] for _, s in g], height=r.choice([10, 11, 250]))
            for (j, s), txo in zip(g, txos):
                pool[j] = (txo, s)
        chosen = [pool[j][0] for j in range(nin)]
        r.shuffle(chosen)
        accounts_used = {pool[j][1][0] for j in range(nin)}
        chains_used = {pool[j][1][1] for j in range(nin)}
        # ---- outputs of the transaction under test
        outputs = []
        funding_accounts = list(fx.accounts)
        change_account = r.choice(fx.accounts)
        in_sum = sum(t.amount for t in chosen)
        budget = max(2000, int(in_sum * r.choice([0.2, 0.5, 0.9] if mode != 'manual' else [0.5, 1.0, 3.0])))
        h = lambda: r.randbytes(20)
        own = ledger.address_to_hash160(await env.address(r.randrange(nacc), 0, r.randrange(20)))
        chan_key = None
        if okind == 'pay':
            k = r.choice([1, 2, 3])
            outputs = [Output.pay_pubkey_hash(max(1, budget // k), h()) for _ in range(k)]
        elif okind == 'p2sh':
            outputs = [Output.pay_script_hash(budget, h())]
        elif okind in ('stream', 'repost', 'collection', 'empty', 'big_claim', 'channel'):
            ck = {'big_claim': 'stream'}.get(okind, okind)
            c = make_claim(r, ck, big=okind == 'big_claim')
            name = r.choice(['a', 'name', 'n' * 40, 'ünï' * 5, 'z' * 255]) if okind != 'channel' else '@' + text(r, 5).replace(' ', 'c')
            outputs = [Output.pay_claim_name_pubkey_hash(min(budget, 10 ** 9), name, c, own)]
        elif okind == 'update':
            prevs = [t for t in chosen if t.script.is_claim_name or t.script.is_update_claim]
            if prevs:
                p = prevs[0]
                chosen.remove(p)
                chosen.insert(0, p)
                outputs = [Output.pay_update_claim_pubkey_hash(min(budget, 10 ** 9), p.claim_name, p.claim_id, make_claim(r, 'stream'), own)]
            else:
                outputs = [Output.pay_update_claim_pubkey_hash(min(budget, 10 ** 9), 'upd', r.randbytes(20).hex(), make_claim(r, 'stream'), own)]
        elif okind == 'support':
            outputs = [Output.pay_support_pubkey_hash(min(budget, 10 ** 9), 'sup', r.randbytes(20).hex(), own)]
        elif okind == 'support_data':
            s = Support()
            s.comment = text(r, r.choice([0, 5, 200]))
            outputs = [Output.pay_support_data_pubkey_hash(min(budget, 10 ** 9), 'sup', r.randbytes(20).hex(), s, own)]
        elif okind == 'purchase':
            outputs = [Output.pay_pubkey_hash(budget, h()), Output.add_purchase_data(Purchase(r.randbytes(20).hex()))]
        elif okind == 'many_outputs':
            k = r.choice([253, 254, 300])
            outputs = [Output.pay_pubkey_hash(max(1, budget // k), h()) for _ in range(k)]
        elif okind == 'change_only':
            outputs = []
            if mode == 'manual':
                outputs = [Output.pay_pubkey_hash(budget, own)]
        else:
            raise ValueError(okind)
        # ---- build + sign with the real code
        inputs = [Input.spend(t) for t in chosen]
        tx = None
        if mode == 'manual':
            tx = Transaction(version=r.choice([1, 1, 2, 0, 0xFFFFFFFF, 0x7FFFFFFF]), locktime=r.choice([0, 0, 1, 499999999, 500000000, 0xFFFFFFFF]))
            for txi in inputs:
                txi.sequence = r.choice([0xFFFFFFFF, 0xFFFFFFFF, 0xFFFFFFFE, 0, 1, r.getrandbits(32)])
            tx.add_inputs(inputs).add_outputs(outputs)
            if okind == 'channel':
                chan_key = _some_private_key(r, ledger, fx)
                tx.outputs[0].set_channel_private_key(chan_key)
            await tx.sign(funding_accounts)
        else:
            plain = [t for t in chosen if not t.script.is_claim_involved]
            if plain:
                await ledger.reserve_outputs(plain)
            try:
                if mode == 'create' and okind != 'channel':
                    tx = await Transaction.create(inputs, outputs, funding_accounts, change_account)
                else:
                    tx = await Transaction.create(inputs, outputs, funding_accounts, change_account, sign=False)
                    if okind == 'channel':
                        chan_key = _some_private_key(r, ledger, fx)
                        tx.outputs[0].set_channel_private_key(chan_key)
                    await tx.sign(funding_accounts)
                    if mode == 'resign':
                        # change something every signature commits to, then sign again: the final signatures must fit the final bytes
                        what = r.choice(['locktime', 'amount', 'sequence'])
                        if what == 'locktime':
                            tx.locktime = r.randrange(1, 10 ** 6)
                        elif what == 'amount' and tx.outputs:
                            tx.outputs[-1].amount = max(1, tx.outputs[-1].amount - r.randrange(1, 500))
                        else:
                            tx._inputs[-1].sequence = 0xFFFFFFFE
                        tx._reset()
                        await tx.sign(funding_accounts)
            except InsufficientFundsError:
                rec.log('tx.insufficient_funds_case_skipped')
                return
        raw = tx.raw
        ctx = {'mode': mode, 'okind': okind, 'nin': nin}
        verified, classes, naddr, m = check_inputs(rec, raw, env.spent, ctx)
        n = len(m['inputs'])
        if verified:
            rec.hit('A1.mode.' + mode)
            rec.hit('A1.out.' + {'repost': 'stream', 'collection': 'stream', 'empty': 'stream'}.get(okind, okind))
            if naddr > 1:
                rec.hit('A1.tx.multi_address')
            if len(accounts_used) > 1:
                rec.hit('A1.tx.two_accounts')
            if 1 in chains_used:
                rec.hit('A1.tx.change_chain_key')
            if single and (nacc - 1) in accounts_used:
                rec.hit('A1.tx.single_address_account')
            if n >= 8:
                rec.hit('A1.tx.inputs_ge_8')
            if n >= 253:
                rec.hit('A1.tx.inputs_ge_253')
            if n > len(chosen):
                rec.hit('A1.tx.selector_added_inputs')
        if okind == 'channel' and chan_key is not None:
            # the channel claim on the wire carries the public key of the private key that was attached
            val = claim_value_of(m['outputs'][0]['script'])
            pub = chansig.channel_public_key(val)
            if pub != chansig.public_from_secret(chan_key.private_key_bytes):
                rec.violation('C04/A2/channel-claim-public-key-mismatch', 'channel claim does not carry the public key of the attached private key',
                              {'claim_pub': pub, 'expected': chansig.public_from_secret(chan_key.private_key_bytes)})
            rec.hit('A2.channel_pubkey_checked')
        rec.case(['tx', mode, okind, min(n, 24), sorted(classes), naddr > 1], nontrivial=verified > 0,
                 sample={'fam': 'tx', 'mode': mode, 'outputs': okind, 'inputs': n, 'verified_inputs': verified, 'spent_classes': sorted(classes),
                         'distinct_keys': naddr, 'txid': m['txid'], 'version': m['version'], 'locktime': m['locktime'],
                         'first_script_sig': m['inputs'][0]['script'].hex()})
    finally:
        await fx.close()


def _factory(r, kind, amount):
    from lbry.wallet import Output
    from lbry.schema.support import Support
    if kind == 'pay':
        return lambda h: Output.pay_pubkey_hash(amount, h)
    if kind == 'claim':
        c = make_claim(r, r.choice(['stream', 'repost', 'collection', 'empty']))
        name = r.choice(['c', 'claim-name', 'ünï'])
        return lambda h: Output.pay_claim_name_pubkey_hash(amount, name, c, h)
    if kind == 'claim_big':
        c = make_claim(r, 'stream', big=r.random() < 0.5)
        c.message.title = text(r, 260)      # script >= 253 bytes: 3-byte compact size in the preimage
        return lambda h: Output.pay_claim_name_pubkey_hash(amount, 'big', c, h)
    if kind == 'update':
        c = make_claim(r, 'stream')
        cid = r.randbytes(20).hex()
        return lambda h: Output.pay_update_claim_pubkey_hash(amount, 'upd', cid, c, h)
    if kind == 'support':
        cid = r.randbytes(20).hex()
        return lambda h: Output.pay_support_pubkey_hash(amount, 'sup', cid, h)
    if kind == 'support_data':
        s = Support()
        s.comment = text(r, 10)
        cid = r.randbytes(20).hex()
        return lambda h: Output.pay_support_data_pubkey_hash(amount, 'sup', cid, s, h)
    raise ValueError(kind)


def _some_private_key(r, ledger, fx, kind=None):
    from lbry.wallet.bip32 import PrivateKey
    kind = kind or r.choice(['random', 'child', 'boundary'])
    if kind == 'random':
        return PrivateKey.from_bytes(ledger, r.randbytes(32))
    if kind == 'child':
        return fx.accounts[0].private_key.child(2).child(r.randrange(1000))
    if kind == 'pem':
        k = PrivateKey.from_bytes(ledger, r.randbytes(32))
        return PrivateKey.from_pem(ledger, k.to_pem().decode())
    secret = r.choice([1, 2, 3, chansig.N - 1, chansig.N - 2, 2 ** 255, 2 ** 128, (chansig.N - 1) // 2, (chansig.N + 1) // 2])
    return PrivateKey.from_bytes(ledger, secret.to_bytes(32, 'big'))


def claim_value_of(script):
    """the value push of a claim-name / update-claim / support+data script (independent tokenizer)"""
    t = sighash.tokens(script)
    op = t[0][0]
    if op == 0xb5:
        return t[2][1]
    if op == 0xb7:
        return t[3][1]
    if op == 0xb6 and t[3][1] is not None and t[3][0] != 0x6d:
        return t[3][1]
    raise RuntimeError('harness: script has no claim value')


# ------------------------------------------------------------------------------------- validation under mutation (A3 / A4)
class Validator:
    def __init__(self, rec, ledger):
        from lbry.wallet import Transaction
        self.T = Transaction
        self.rec, self.ledger = rec, ledger

    def validates(self, raw, chan_raw, nout=0, chan_nout=0):
        """what a third party does: parse both transactions from the wire and ask the real is_signed_by"""
        try:
            tx, ch = self.T(raw), self.T(chan_raw)
            return bool(tx.outputs[nout].is_signed_by(ch.outputs[chan_nout], self.ledger)), None
        except Exception as e:  # noqa   any exception = "does not validate"
            return False, e

    def judge(self, clause, cls, raw, chan_raw, what, witness, kind, pos=None, judged=True, null_check=None):
        ok, exc = self.validates(raw, chan_raw)
        rec = self.rec
        if not judged:
            rec.log(f'{clause}.{cls}.' + ('still_validates' if ok else 'rejected'))
            return ok
        if ok and null_check is not None and null_check():
            rec.log(f'{clause}.{cls}.decodes_to_identical_content')
            return ok
        rec.hit(f'{clause}.{cls}')
        rec.case([clause, cls, kind, pos], nontrivial=True)
        if ok:
            witness = dict(witness, mutated_tx=raw, channel_tx=chan_raw)
            rec.violation(f'C04/{clause}/still-validates/{cls}', f'{kind}: {what} — is_signed_by still returns True', witness)
        elif exc is not None:
            rec.log(f'{clause}.rejected_by_exception.{type(exc).__name__}')
        return ok


def locate(raw, needle, what):
    off = raw.find(needle)
    if off < 0 or raw.find(needle, off + 1) >= 0:
        raise RuntimeError(f'harness: cannot locate {what} uniquely in the raw transaction')
    return off


def first_input_layout(raw):
    """(offset of first input's prev hash, offset of its index, [(start, end) of every input])"""
    m = minitx.parse(raw)
    n = len(m['inputs'])
    o = 4 + (1 if n < 253 else 3)
    spans = []
    p = o
    for i in m['inputs']:
        spans.append((p, p + i['size']))
        p += i['size']
    return o, o + 32, spans


def mutate_signed(rec, V, r, raw, chan_raw, kind, clause, allbits, other_channels, v1=False, budget_bits=48, payload_all=False):
    """wire-level single-bit mutations of a signed claim/support inside `raw`; the unmutated pair validated before."""
    m = minitx.parse(raw)
    value = claim_value_of(m['outputs'][0]['script'])
    env = chansig.envelope(value)
    voff = locate(raw, value, 'claim value')
    base_w = {'kind': kind, 'format': env['format']}
    # ---- signature bits
    soff = locate(raw, env['signature'], 'signature')
    bits = range(512) if allbits else sorted(r.sample(range(512), budget_bits))
    for b in bits:
        if b % 64 == 0 and rec.out_of_time():
            return False
        V.judge(clause, 'sig_bit', flip(raw, soff + b // 8, b % 8), chan_raw, f'signature bit {b} flipped', dict(base_w, bit=b), kind, b)
    if allbits:
        rec.hit(f'{clause}.all_512_sig_bits')
    # twin: logged, not judged
    tw = raw[:soff] + chansig.twin(env['signature']) + raw[soff + 64:]
    V.judge(clause, 'ecdsa_twin', tw, chan_raw, '', {}, kind, judged=False)
    # ---- payload
    if v1:
        # content = every top-level field except 5 (publisherSignature); framing/metadata inside field 5 is not signed content
        spans = [(s, e) for n, _, _, s, e in chansig.wire_fields(value) if n != 5]
        positions = [voff + p for s, e in spans for p in range(s, e)]
        meta = [(s, e) for n, _, _, s, e in chansig.wire_fields(value) if n == 5]
    else:
        positions = list(range(voff + 85, voff + len(value)))
        meta = []
    if positions:
        if payload_all or (allbits and len(positions) <= 160):
            picks = [(p, b) for p in positions for b in range(8)]
        else:
            picks = [(r.choice(positions), r.randrange(8)) for _ in range(budget_bits * (4 if allbits else 1))]
        for k, (p, b) in enumerate(picks):
            if k % 64 == 0 and rec.out_of_time():
                return False
            mut = flip(raw, p, b)
            V.judge(clause, 'payload_bit', mut, chan_raw, f'claim payload byte {p - voff} bit {b} flipped',
                    dict(base_w, value_offset=p - voff, bit=b), kind, (p - voff) * 8 + b,
                    null_check=lambda mut=mut: _null_mutation(V, raw, mut))
    if not v1:
        # envelope flag byte (01 = signed)
        for b in range(8):
            V.judge(clause, 'envelope_flag', flip(raw, voff, b), chan_raw, f'envelope flag bit {b} flipped', dict(base_w, bit=b), kind, b)
        hoff = voff + 1
    else:
        hoff = locate(raw, env['certificate_id'], 'certificate id')
        # framing / version / signatureType inside the v1 signature sub-message are not covered by the v1 digest: observed only
        covered = set(range(soff, soff + 64)) | set(range(hoff, hoff + 20))
        for s, e in meta:
            for p in range(voff + s, voff + e):
                if p not in covered:
                    V.judge(clause, 'v1_signature_metadata', flip(raw, p, 0), chan_raw, '', {}, kind, judged=False)
    # ---- embedded channel hash
    hb = range(160) if allbits else sorted(r.sample(range(160), 16))
    for b in hb:
        V.judge(clause, 'channel_hash_bit', flip(raw, hoff + b // 8, b % 8), chan_raw, f'embedded channel hash bit {b} flipped',
                dict(base_w, bit=b), kind, b)
    # ---- first input
    toff, ioff, spans = first_input_layout(raw)
    tb = range(256) if allbits else sorted(r.sample(range(256), 16))
    for b in tb:
        V.judge(clause, 'first_input_txid', flip(raw, toff + b // 8, b % 8), chan_raw, f'first input txid bit {b} flipped',
                dict(base_w, bit=b), kind, b, judged=not v1)
    for b in range(32):
        V.judge(clause, 'first_input_index', flip(raw, ioff + b // 8, b % 8), chan_raw, f'first input index bit {b} flipped',
                dict(base_w, bit=b), kind, b, judged=not v1)
    if len(spans) >= 2:
        (a0, a1), (b0, b1) = spans[0], spans[1]
        swapped = raw[:a0] + raw[b0:b1] + raw[a1:b0] + raw[a0:a1] + raw[b1:]
        if swapped != raw:
            V.judge(clause, 'first_input_swapped', swapped, chan_raw, 'inputs 0 and 1 exchanged', base_w, kind, judged=not v1)
        # a change to a later input is outside the statement: observed only
        V.judge(clause, 'second_input_txid', flip(raw, spans[1][0] + 3, 2), chan_raw, '', {}, kind, judged=False)
    # ---- other channels (different key)
    for oc in other_channels:
        V.judge(clause, 'other_channel_key' if clause == 'A3' else 'other_channel', raw, oc, 'validated against a channel with a different key',
                base_w, kind)
    return True


def _null_mutation(V, raw, mut):
    """a wire mutation that decodes to exactly the same signed content (same message bytes after a parse / serialise cycle,
    same signature, same channel hash) is not a change of the claim content; only evaluated when the mutant validates."""
    try:
        a, b = V.T(raw).outputs[0].signable, V.T(mut).outputs[0].signable
        return (a.to_message_bytes() == b.to_message_bytes() and a.signature == b.signature
                and a.signing_channel_hash == b.signing_channel_hash and a.unsigned_payload == b.unsigned_payload)
    except Exception:  # noqa
        return False


# ------------------------------------------------------------------------------------- fam: chan  (A1 + A2 + A3)
def ref_check_signed(rec, raw, chan_raw, chan_nout, chan_secret, kind, clause='A2', retired=()):
    """A2 reference side, from wire bytes only.  returns True when everything agreed.  retired: public keys that earlier versions of
    the channel carried (only used to name the mechanism of a failure)."""
    m, cm = minitx.parse(raw), minitx.parse(chan_raw)
    value = claim_value_of(m['outputs'][0]['script'])
    env = chansig.envelope(value)
    wit = {'kind': kind, 'tx': raw, 'channel_tx': chan_raw, 'value': value}
    if env['format'] != 'v2-signed':
        rec.violation(f'C04/{clause}/signed-claim-not-in-signed-envelope', f'{kind}: value on the wire starts with {value[:1].hex()} after signing', wit)
        return False
    cscript = cm['outputs'][chan_nout]['script']
    ct = sighash.tokens(cscript)
    if ct[0][0] == 0xb5:
        want_hash = chansig.claim_hash(bytes.fromhex(cm['txid'])[::-1], chan_nout)
    elif ct[0][0] == 0xb7:
        want_hash = ct[2][1]
        rec.hit('A2.channel.updated')
    else:
        raise RuntimeError('harness: channel output is not a claim')
    rec.hit('A2.channel_hash_checked')
    if env['channel_hash'] != want_hash:
        rec.violation(f'C04/{clause}/embedded-channel-hash-wrong', f'{kind}: signed value names channel {env["channel_hash"].hex()} but the '
                      f'signing channel\'s claim hash is {want_hash.hex()}', wit)
        return False
    pub = chansig.channel_public_key(claim_value_of(cscript))
    if chan_secret is not None and chansig.compressed(pub) != chansig.public_from_secret(chan_secret):
        rec.violation(f'C04/{clause}/channel-claim-public-key-mismatch', 'channel claim does not carry the public key of its private key', wit)
        return False
    first = chansig.outpoint(m['inputs'][0]['txid'], m['inputs'][0]['nout'])
    digest = chansig.digest_v2(first, env['channel_hash'], env['message'])
    if not chansig.verify_compact(pub, env['signature'], digest):
        alts = [('without-first-input-outpoint', chansig.sha256(env['channel_hash'] + env['message'])),
                ('placeholder-outpoint', chansig.digest_v2(b'placeholder txid:nout', env['channel_hash'], env['message'])),
                ('without-channel-hash', chansig.sha256(first + env['message'])),
                ('reversed-channel-hash', chansig.digest_v2(first, env['channel_hash'][::-1], env['message'])),
                ('message-only', chansig.sha256(env['message'])),
                ('double-sha256', chansig.sha256(digest))]
        for i in range(1, len(m['inputs'])):
            alts.append(('outpoint-of-another-input', chansig.digest_v2(chansig.outpoint(m['inputs'][i]['txid'], m['inputs'][i]['nout']),
                                                                         env['channel_hash'], env['message'])))
        variant = next((n for n, d in alts if chansig.verify_compact(pub, env['signature'], d)), None)
        if variant is None and any(chansig.verify_compact(p, env['signature'], digest) for p in retired):
            variant = 'signed-with-retired-channel-key'
        variant = variant or 'nothing-recognised'
        instead = 'it verifies over that digest under a public key an EARLIER version of the channel carried' \
            if variant == 'signed-with-retired-channel-key' else f'verifies instead over: {variant}'
        rec.violation(f'C04/{clause}/reference-verification-fails/{variant}',
                      f'{kind}: 64-byte signature does not verify (ecdsa) over sha256(first input outpoint ‖ channel hash ‖ message); '
                      f'{instead}', dict(wit, digest=digest))
        return False
    rec.hit(f'{clause}.ref_verified')
    return True


async def _run_chan(rec, case):
    boot.import_lbry()
    from lbry.wallet import Transaction, Output, Input
    from lbry.error import InsufficientFundsError
    from lbry.schema.claim import Claim
    r = random.Random(case['seed'])
    random.seed(case['seed'])
    env = await open_env(r, 2, single=False, rate=r.choice([1, 50]))
    fx, ledger = env.fx, env.fx.ledger
    V = Validator(rec, ledger)
    try:
        nacc = len(fx.accounts)
        specs = [(r.randrange(nacc), r.choice([0, 0, 1]), r.randrange(25), _factory(r, 'pay', r.randrange(2 * 10 ** 7, 4 * 10 ** 7)))
                 for _ in range(r.randrange(14, 26))]
        await env.fund(specs)
        funding = list(fx.accounts)

        async def addr():
            return await env.address(r.randrange(nacc), 0, r.randrange(20))

        async def make_channel(keykind, name):
            c = make_claim(r, 'channel')
            tx = await Transaction.claim_create(name, c, r.randrange(10 ** 5, 10 ** 6), await addr(), funding, funding[0])
            txo = tx.outputs[0]
            if keykind == 'deterministic':
                key = await funding[0].generate_channel_private_key()
            else:
                key = _some_private_key(r, ledger, fx, keykind)
            txo.set_channel_private_key(key)
            await tx.sign(funding)
            check_inputs(rec, tx.raw, env.spent, {'flow': 'channel_create'})
            await env.broadcast(tx)
            return tx, txo, key

        keykind = case['keykind']
        ctx_tx, chan, key = await make_channel(keykind, '@' + text(r, 6).replace(' ', '_'))
        rec.hit('A2.channel.key.' + {'boundary': 'random'}.get(keykind, keykind))
        if case.get('update_channel'):
            # channel update as the daemon does it: spend the channel claim, keep (or replace) the key
            c2 = Claim.from_bytes(chan.claim.to_bytes())
            c2.message.title = text(r, 9)
            utx = await Transaction.claim_update(chan, c2, chan.amount, await addr(), funding, funding[0])
            new = utx.outputs[0]
            if r.random() < 0.5:
                new.private_key = chan.private_key
                new.script.generate()
            else:
                key = _some_private_key(r, ledger, fx, 'random')
                new.set_channel_private_key(key)
            await utx.sign(funding)
            check_inputs(rec, utx.raw, env.spent, {'flow': 'channel_update'})
            await env.broadcast(utx)
            ctx_tx, chan = utx, new
        chan_raw = ctx_tx.raw
        secret = key.private_key_bytes
        # other channels: different key; and one with the SAME key (logged only)
        _, other, _ = await make_channel('random', '@other')
        other_raw = other.tx_ref.tx.raw
        same_tx = await Transaction.claim_create('@samekey', make_claim(r, 'channel'), 10 ** 5, await addr(), funding, funding[0])
        same_tx.outputs[0].set_channel_private_key(key)
        await same_tx.sign(funding)
        await env.broadcast(same_tx)
        kinds = ['stream', 'repost', 'collection', 'support', 'stream_update', 'empty', 'stream']
        r.shuffle(kinds)
        kinds = kinds[:r.randrange(3, 7)]
        prev_stream = None
        big_left = 2
        for kind in kinds:
            if rec.out_of_time():
                break
            # ---- the daemon's flow: build with signing_channel (placeholder signature), sign the claim once inputs are fixed, sign inputs
            amount = r.randrange(10 ** 4, 10 ** 6)
            if big_left and r.random() < 0.5:
                big_left -= 1
                amount = r.randrange(45 * 10 ** 6, 70 * 10 ** 6)     # more than any single output holds: >= 2 inputs
            try:
                if kind in ('stream', 'repost', 'collection', 'empty'):
                    tx = await Transaction.claim_create(r.choice(['s', 'stream-name', 'ünï']), make_claim(r, kind), amount, await addr(),
                                                        funding, funding[0], chan)
                elif kind == 'stream_update':
                    if prev_stream is None:
                        ptx = await Transaction.claim_create('upd', make_claim(r, 'stream'), 10 ** 5, await addr(), funding, funding[0], chan)
                        ptx.outputs[0].sign(chan)
                        await ptx.sign(funding)
                        await env.broadcast(ptx)
                        prev_stream = ptx.outputs[0]
                    tx = await Transaction.claim_update(prev_stream, make_claim(r, 'stream'), amount, await addr(), funding, funding[0], chan)
                else:
                    tx = await Transaction.support('sup', r.randbytes(20).hex(), amount, await addr(), funding, funding[0], chan,
                                                   comment=r.choice([None, '', text(r, 20)]))
            except InsufficientFundsError:
                rec.log('chan.insufficient_funds_claim_skipped')
                continue
            new = tx.outputs[0]
            new.sign(chan)
            await tx.sign(funding)
            raw = tx.raw
            verified, classes, naddr, m = check_inputs(rec, raw, env.spent, {'flow': kind})
            # ---- A2
            wit = {'kind': kind, 'tx': raw, 'channel_tx': chan_raw}
            ok_obj = None
            try:
                ok_obj = bool(new.is_signed_by(chan, ledger))
            except Exception as e:  # noqa
                rec.violation(f'C04/A2/is_signed_by-raises/{type(e).__name__}', f'{kind}: is_signed_by on the object just signed raised {e!r}', wit)
            rec.hit('A2.is_signed_by_object')
            if ok_obj is False:
                rec.violation('C04/A2/is_signed_by-false/object', f'{kind}: freshly signed output does not validate against its channel', wit)
            ok_wire, exc = V.validates(raw, chan_raw)
            rec.hit('A2.is_signed_by_wire')
            if not ok_wire:
                rec.violation('C04/A2/is_signed_by-false/wire', f'{kind}: signed output re-parsed from the raw transaction does not validate '
                              f'against the channel re-parsed from its raw transaction ({exc!r})', wit)
            ok_ref = ref_check_signed(rec, raw, chan_raw, 0, secret, kind)
            rec.hit('A2.kind.' + kind)
            rec.case(['chan', kind, len(m['inputs']), keykind, bool(case.get('update_channel'))], nontrivial=True,
                     sample={'fam': 'chan', 'kind': kind, 'inputs': len(m['inputs']), 'channel_key': keykind, 'txid': m['txid'],
                             'signed_value_prefix': claim_value_of(m['outputs'][0]['script'])[:90].hex()})
            if kind == 'stream_update':
                prev_stream = new
            await env.broadcast(tx)
            if not (ok_wire and ok_ref):
                continue
            # ---- A3 wire-level
            mutate_signed(rec, V, r, raw, chan_raw, kind, 'A3', case.get('allbits') and kind == kinds[0], [other_raw])
            V.judge('A3', 'same_key_other_channel', raw, same_tx.raw, '', {}, kind, judged=False)
            # damaged channel key on the wire
            cval = claim_value_of(minitx.parse(chan_raw)['outputs'][0]['script'])
            pub = chansig.channel_public_key(cval)
            poff = locate(chan_raw, pub, 'channel public key')
            for b in sorted(r.sample(range(33 * 8), 12)):
                V.judge('A3', 'channel_key_damaged', raw, flip(chan_raw, poff + b // 8, b % 8), f'channel public key bit {b} flipped',
                        {'kind': kind, 'bit': b}, kind, b)
            # ---- A3 field-level (protobuf reflection on the re-parsed object, then back through the wire)
            for _ in range(10):
                t2 = Transaction(raw)
                o2 = t2.outputs[0]
                sg = o2.signable
                before = sg.to_message_bytes()
                desc = mutate_message(sg.message, r)
                if desc is None or sg.to_message_bytes() == before:
                    rec.log('A3.payload_field.noop_mutation_skipped')
                    continue
                ch2 = Transaction(chan_raw).outputs[0]
                try:
                    still = bool(o2.is_signed_by(ch2, ledger))
                except Exception as e:  # noqa
                    still = False
                    rec.log(f'A3.rejected_by_exception.{type(e).__name__}')
                rec.hit('A3.payload_field')
                rec.case(['A3', 'payload_field', kind, desc.split('.')[0]], nontrivial=True)
                if still:
                    rec.violation('C04/A3/still-validates/payload_field', f'{kind}: field mutation {desc} — is_signed_by still returns True',
                                  {'kind': kind, 'mutation': desc, 'tx': raw, 'channel_tx': chan_raw, 'message_before': before,
                                   'message_after': sg.to_message_bytes()})
                # and through the wire
                o2.script.generate()
                t2._reset()
                V.judge('A3', 'payload_field_wire', t2.raw, chan_raw, f'field mutation {desc} re-serialised', {'kind': kind, 'mutation': desc}, kind,
                        desc.split('.')[0])
            # signing channel hash / key replaced through the API
            t2 = Transaction(raw)
            t2.outputs[0].signable.signing_channel_hash = other.claim_hash
            t2.outputs[0].script.generate()
            t2._reset()
            V.judge('A3', 'channel_hash_replaced', t2.raw, chan_raw, 'signing channel hash replaced by another channel\'s', {'kind': kind}, kind)
            V.judge('A3', 'channel_hash_replaced', t2.raw, other_raw, 'signing channel hash replaced, validated against that other channel',
                    {'kind': kind}, kind)
    finally:
        await fx.close()


# ------------------------------------------------------------------------------------- fam: timelock  (A1 on a P2SH input)
def _script_num(n):
    if n == 0:
        return b''
    out = bytearray()
    while n:
        out.append(n & 0xFF)
        n >>= 8
    if out[-1] & 0x80:
        out.append(0)
    return bytes(out)


async def _run_timelock(rec, case):
    boot.import_lbry()
    from lbry.wallet import Transaction, Output, Input
    from lbry.wallet.bip32 import PrivateKey
    from lbry.wallet.constants import NULL_HASH32
    r = random.Random(case['seed'])
    random.seed(case['seed'])
    env = await open_env(r, 1, rate=50 if case['extra'] else r.choice([1, 50]))
    fx, ledger = env.fx, env.fx.ledger
    try:
        secret = r.randbytes(32)
        pk = PrivateKey.from_bytes(ledger, secret)
        pub = chansig.public_from_secret(secret)
        height = r.choice([1, 127, 128, 255, 256, 32767, 32768, 1000000, 8388607, 8388608, 499999999])
        num = _script_num(height)
        redeem = bytes([len(num)]) + num + b'\xb1\x75\x76\xa9\x14' + sighash.hash160(pub) + b'\x88\xac'
        amount = 3000 if case['extra'] else r.choice([10 ** 8, 10 ** 6, 10 ** 7])     # 3000 < fee of the input: the selector adds P2PKH inputs
        await env.fund([(0, r.choice([0, 1]), r.randrange(20), _factory(r, 'pay', r.randrange(10 ** 6, 10 ** 8))) for _ in range(4)])
        # the time-locked output lives in a transaction of somebody else
        env.counter += 1
        prev = Transaction(height=-2).add_outputs([Output.pay_pubkey_hash(amount + 10 ** 5, NULL_HASH32)]).outputs[0]
        ftx = Transaction(is_verified=True, height=20).add_inputs([Input.spend(prev)]).add_outputs(
            [Output.pay_script_hash(amount, sighash.hash160(redeem))])
        ftx.locktime = 700000 + env.counter
        ftx._reset()
        env.remember(ftx)
        try:
            tx = await Transaction.spend_time_lock(ftx.outputs[0], redeem, fx.accounts[0])
            await tx.sign([fx.accounts[0]], {pk.address: pk})
        except Exception as e:  # noqa
            from lbry.error import InsufficientFundsError
            if isinstance(e, InsufficientFundsError):
                rec.log('timelock.insufficient_funds_case_skipped')
                return
            raise
        raw = tx.raw
        verified, classes, naddr, m = check_inputs(rec, raw, env.spent, {'flow': 'timelock', 'height': height})
        if m['locktime'] != height:
            rec.log('timelock.locktime_differs_from_script_height')
        if verified and len(m['inputs']) > 1:
            rec.hit('A1.tx.timelock_mixed_with_p2pkh_inputs')
        rec.case(['timelock', height, len(m['inputs'])], nontrivial=verified > 0,
                 sample={'fam': 'timelock', 'height': height, 'inputs': len(m['inputs']), 'script_sig': m['inputs'][0]['script'].hex()})
    finally:
        await fx.close()


# ------------------------------------------------------------------------------------- fam: legacy  (A4)
def _run_legacy(rec, case):
    boot.import_lbry()
    from lbry.wallet import Ledger, Database, Headers
    ledger = Ledger({'db': Database(':memory:'), 'headers': Headers(':memory:')})
    V = Validator(rec, ledger)
    r = random.Random(case['seed'])
    pairs = legacy_pairs()
    part, parts = case['part'], case['parts']
    for pi, p in enumerate(pairs):
        raw, chan_raw = bytes.fromhex(p['stream_tx']), bytes.fromhex(p['channel_tx'])
        name = p['name']
        m, cm = minitx.parse(raw), minitx.parse(chan_raw)
        value = claim_value_of(m['outputs'][0]['script'])
        env = chansig.envelope(value)
        fmt = env['format']
        wit = {'pair': name, 'format': fmt}
        # ---- validates (lbry) and verifies (reference)
        ok, exc = V.validates(raw, chan_raw)
        rec.hit('A4.validates')
        if not ok:
            rec.violation(f'C04/A4/legacy-pair-does-not-validate/{fmt}', f'{name}: main-net signature made by an earlier release is not '
                          f'accepted by is_signed_by ({exc!r})', dict(wit, tx=raw, channel_tx=chan_raw))
        pub = chansig.channel_public_key(claim_value_of(cm['outputs'][0]['script']))
        chash = chansig.claim_hash(bytes.fromhex(cm['txid'])[::-1], 0)
        if fmt == 'v1':
            addr = chansig.address_bytes(sighash.p2pkh_tail(m['outputs'][0]['script']), chansig.MAINNET_P2PKH_PREFIX)
            digest = chansig.digest_v1(addr, env['unsigned_payload'], env['certificate_id'])
        else:
            digest = chansig.digest_v2(chansig.outpoint(m['inputs'][0]['txid'], m['inputs'][0]['nout']), env['channel_hash'], env['message'])
        if env['channel_hash'] != chash or not chansig.verify_compact(pub, env['signature'], digest):
            raise RuntimeError(f'harness: reference does not verify fixture pair {name}')
        rec.hit('A4.ref_verified')
        high_s = int.from_bytes(env['signature'][32:], 'big') > chansig.N // 2
        if high_s and ok:
            rec.hit('A4.high_s_validates')
        rec.hit('A4.format.' + fmt)
        rec.case(['legacy', name, part], nontrivial=True,
                 sample={'fam': 'legacy', 'pair': name, 'format': fmt, 'high_s': high_s, 'validates': ok, 'channel_claim_id': chash[::-1].hex(),
                         'signature': env['signature'].hex()} if part == pi else None)
        if not ok:
            continue
        others = [bytes.fromhex(q['channel_tx']) for qi, q in enumerate(pairs) if qi != pi]
        # deterministic partition of the bit positions over the shards: together the shards flip every bit
        sub = _ShardedMutations(V, part, parts)
        done = mutate_signed(rec, sub, r, raw, chan_raw, name, 'A4', True, [], v1=(fmt == 'v1'), payload_all=True)
        # the shards together flip EVERY bit of the signature, the signed payload, the channel hash and the first input's outpoint
        key = 'A4: every single bit of signature / payload / channel hash / first-input outpoint of the 3 main-net pairs (union of shards)'
        rec.exhaustive[key] = rec.exhaustive.get(key, True) and bool(done)
        for oc in others:
            V.judge('A4', 'other_channel', raw, oc, 'validated against the channel of another pair', wit, name)
        # damaged channel key (bits of the X/Y coordinates inside the DER SubjectPublicKeyInfo)
        poff = locate(chan_raw, pub, 'channel public key')
        for b in sorted(r.sample(range((len(pub) - 64) * 8, len(pub) * 8), 8)):
            V.judge('A4', 'channel_key_damaged', raw, flip(chan_raw, poff + b // 8, b % 8), f'channel public key bit {b} flipped',
                    dict(wit, bit=b), name, b)
        if fmt == 'v1':
            # v1 signatures commit to the claim address instead of the first input: observed
            hoff = locate(raw, sighash.p2pkh_tail(m['outputs'][0]['script']), 'claim address hash')
            V.judge('A4', 'v1_claim_address', flip(raw, hoff + 5, 1), chan_raw, '', {}, name, judged=False)


class _ShardedMutations:
    """Validator facade that lets each shard judge only its slice of an exhaustive mutation list (position % parts == part)."""
    def __init__(self, V, part, parts):
        self.V, self.part, self.parts, self.n = V, part, parts, 0
        self.T, self.rec, self.ledger = V.T, V.rec, V.ledger

    def validates(self, *a, **k):
        return self.V.validates(*a, **k)

    def judge(self, clause, cls, raw, chan_raw, what, witness, kind, pos=None, judged=True, null_check=None):
        self.n += 1
        if self.n % self.parts != self.part:
            return None
        return self.V.judge(clause, cls, raw, chan_raw, what, witness, kind, pos, judged, null_check)


def execute(rec, case):
    fam = case['fam']
    if fam == 'tx':
        walletfx.run(_run_tx(rec, case), timeout=900)
    elif fam == 'chan':
        walletfx.run(_run_chan(rec, case), timeout=900)
    elif fam == 'timelock':
        walletfx.run(_run_timelock(rec, case), timeout=300)
    elif fam == 'legacy':
        _run_legacy(rec, case)
    elif fam == 'dbreload':
        walletfx.run(_run_dbreload(rec, case), timeout=600)
    elif fam == 'foreign':
        _run_foreign(rec, case)
    elif fam == 'rotate':
        walletfx.run(_run_rotate(rec, case), timeout=600)
    else:
        raise ValueError(fam)


# ------------------------------------------------------------------------------------- outputs that went through the database
async def _run_dbreload(rec, case):
    """A1 for outputs that were stored and loaded again (added after seeded break C04-C): a channel / claim / support / payment output is
    confirmed 'on chain' as raw bytes, saved through the real database code, loaded back with the wallet's own listing calls (which attach
    channel keys) and then spent (abandon / plain spend).  The signature must verify over the script bytes that are ON CHAIN, i.e. parsed
    from the stored raw transaction by the independent parser - not over whatever the in-memory object regenerated.  Channel claims come
    in the present encoding and in the two earlier-release encodings (88-byte DER key in a v2 claim, v1 protobuf certificate)."""
    boot.import_lbry()
    import hashlib as _h
    import ecdsa
    from lbry.wallet import Wallet, Account, Ledger, Database, Headers, Transaction, Output, Input
    from lbry.wallet.bip32 import PrivateKey
    from lbry.schema.claim import Claim
    from lbry.schema.types.v1.legacy_claim_pb2 import Claim as OldClaimMessage
    r = random.Random(case['seed'])
    DER_PREFIX = bytes.fromhex('3056301006072a8648ce3d020106052b8104000a034200')
    ledger = Ledger({'db': Database(':memory:'), 'headers': Headers(':memory:'), 'network': walletfx.FakeNetwork()})
    await ledger.db.open()
    try:
        wallet = Wallet()
        account = Account.from_dict(ledger, wallet, {'seed': walletfx.SEEDS[r.randrange(3)]})
        await account.ensure_address_gap()
        addresses = await account.receiving.get_addresses()
        for kind in ('modern', 'v2-der', 'v1-cert', 'stream', 'support', 'payment'):
            holding = addresses[r.randrange(len(addresses))]
            h160 = ledger.address_to_hash160(holding)
            key = PrivateKey.from_bytes(ledger, _h.sha256(b'channel key %d' % r.getrandbits(40)).digest())
            uncompressed = ecdsa.SigningKey.from_string(key.private_key_bytes, curve=ecdsa.SECP256k1).get_verifying_key().to_string('uncompressed')
            amount = r.randrange(10 ** 6, 10 ** 8)
            if kind == 'modern':
                c = Claim()
                c.channel.public_key_bytes = key.public_key.pubkey_bytes
                c.channel.title = 'present encoding'
                txo = Output.pay_claim_name_pubkey_hash(amount, '@now', c.to_bytes(), h160)
            elif kind == 'v2-der':
                c = Claim()
                c.channel.public_key_bytes = DER_PREFIX + uncompressed
                c.channel.title = 'earlier release: DER key'
                txo = Output.pay_claim_name_pubkey_hash(amount, '@der', c.to_bytes(), h160)
            elif kind == 'v1-cert':
                old = OldClaimMessage()
                old.version = 1
                old.claimType = 2
                old.certificate.version = 1
                old.certificate.keyType = 3
                old.certificate.publicKey = DER_PREFIX + uncompressed
                txo = Output.pay_claim_name_pubkey_hash(amount, '@v1', old.SerializeToString(), h160)
            elif kind == 'stream':
                c = Claim()
                c.stream.title = 'a stream'
                txo = Output.pay_claim_name_pubkey_hash(amount, 'stream', c.to_bytes(), h160)
            elif kind == 'support':
                txo = Output.pay_support_pubkey_hash(amount, 'stream', r.randbytes(20).hex(), h160)
            else:
                txo = Output.pay_pubkey_hash(amount, h160)
            if kind in ('modern', 'v2-der', 'v1-cert'):
                account.add_channel_private_key(key)
            coin = Output.pay_pubkey_hash(10 ** 8, ledger.address_to_hash160(addresses[r.randrange(len(addresses))]))
            parent = Transaction().add_outputs([Output.pay_pubkey_hash(3 * 10 ** 8, r.randbytes(20))])
            built = Transaction(is_verified=True, height=5).add_inputs([Input.spend(parent.outputs[0])]).add_outputs([txo, coin])
            built.locktime = r.getrandbits(20)
            built._reset()
            raw_on_chain = built.raw
            confirmed = Transaction(raw_on_chain, height=5, is_verified=True)
            on_chain = minitx.parse(raw_on_chain)
            spent = {(on_chain['txid'], n): o['script'] for n, o in enumerate(on_chain['outputs'])}
            await ledger.db.insert_transaction(confirmed)
            for o in confirmed.outputs:
                a = o.get_address(ledger)
                await ledger.db.save_transaction_io(confirmed, a, ledger.address_to_hash160(a), f'{confirmed.id}:5:')
            # ---- load it back the way the wallet does, then spend it
            if kind in ('modern', 'v2-der', 'v1-cert'):
                loaded = [t for t in await ledger.get_channels(wallet=wallet, accounts=[account]) if t.tx_ref.id == confirmed.id]
                if loaded and not loaded[0].has_private_key:
                    rec.log('dbreload.channel_key_not_attached.' + kind)
            elif kind == 'stream':
                loaded = [t for t in await ledger.get_claims(wallet=wallet, accounts=[account]) if t.tx_ref.id == confirmed.id]
            elif kind == 'support':
                loaded = [t for t in await ledger.get_supports(wallet=wallet, accounts=[account]) if t.tx_ref.id == confirmed.id]
            else:
                loaded = [t for t in await account.get_utxos() if t.tx_ref.id == confirmed.id and t.position == 0]
            if not loaded:
                rec.log('dbreload.not_listed.' + kind)
                continue
            tx = await Transaction.create([Input.spend(loaded[0])], [], [account], account)
            rec.hit('A1.dbreload_checked')
            rec.hit('A1.dbreload.' + kind)
            # spent scripts of further inputs the builder may have added
            m = minitx.parse(tx.raw)
            for txin in m['inputs']:
                k = (txin['txid'], txin['nout'])
                if k not in spent:
                    rows = await ledger.db.db.execute_fetchall("select raw from tx where txid=?", (txin['txid'],))
                    pm = minitx.parse(bytes(rows[0]['raw']))
                    spent[k] = pm['outputs'][txin['nout']]['script']
            check_inputs(rec, tx.raw, spent, {'fam': 'dbreload', 'kind': kind, 'note': 'spent script = bytes of the stored raw transaction'})
            await ledger.release_tx(tx)
            rec.case(['dbreload', kind, len(m['inputs'])], sample={'fam': 'dbreload', 'kind': kind, 'inputs': len(m['inputs'])} if kind == 'v2-der' else None)
    finally:
        await ledger.db.close()


# ------------------------------------------------------------------------------------- fam: foreign  (A5: signed outside the wallet)
def _push(data):
    data = bytes(data)
    n = len(data)
    if n < 76:
        return bytes([n]) + data
    if n < 256:
        return b'\x4c' + bytes([n]) + data
    if n < 65536:
        return b'\x4d' + n.to_bytes(2, 'little') + data
    raise RuntimeError('harness: push too long')


def _compact_size(n):
    return bytes([n]) if n < 253 else b'\xfd' + n.to_bytes(2, 'little') if n <= 0xFFFF else b'\xfe' + n.to_bytes(4, 'little')


def wire_tx(inputs, outputs, version=1, locktime=0):
    """raw transaction assembled by the harness, as a server would send it.  inputs [(txid hex, nout, scriptSig, sequence)], outputs
    [(amount, script)]"""
    b = version.to_bytes(4, 'little') + _compact_size(len(inputs))
    for txid, nout, script, seq in inputs:
        b += bytes.fromhex(txid)[::-1] + nout.to_bytes(4, 'little') + _compact_size(len(script)) + script + seq.to_bytes(4, 'little')
    b += _compact_size(len(outputs))
    for amount, script in outputs:
        b += amount.to_bytes(8, 'little') + _compact_size(len(script)) + script
    return b + locktime.to_bytes(4, 'little')


def claim_script_bytes(op, name, value, pays_to, h160, claim_hash=None):
    """OP_CLAIM_NAME <name> <value> OP_2DROP OP_DROP | OP_UPDATE_CLAIM <name> <claim hash> <value> OP_2DROP OP_2DROP, then P2PKH or P2SH"""
    if op == 'claim_name':
        head = b'\xb5' + _push(name) + _push(value) + b'\x6d\x75'
    else:
        head = b'\xb7' + _push(name) + _push(claim_hash) + _push(value) + b'\x6d\x6d'
    return head + (b'\x76\xa9\x14' + h160 + b'\x88\xac' if pays_to == 'pubkey' else b'\xa9\x14' + h160 + b'\x87')


def claim_address_of(script):
    """the 25 raw bytes of the main-net address a claim script pays to, from the script bytes"""
    h = sighash.p2pkh_tail(script)
    if h is not None:
        return chansig.address_bytes(h, chansig.MAINNET_P2PKH_PREFIX)
    h = sighash.p2sh_hash(bytes(script)[-23:])
    if h is None:
        raise RuntimeError('harness: claim script pays neither to a public-key hash nor to a script hash')
    return chansig.address_bytes(h, chansig.MAINNET_P2SH_PREFIX)


def v1_stream_claim(r):
    """an earlier-release (lbryschema v1) stream claim, written field by field in canonical order by the reference's own protobuf
    writer: Claim{1 version, 2 claimType=stream, 3 Stream{1 version, 2 Metadata{1 version, 2 language, 3 title, 4 description, 5 author,
    6 license, 7 nsfw, [8 Fee{1 version, 2 currency, 3 address, 4 amount(float)}], [9 thumbnail], [11 licenseUrl]}, 3 Source{1 version,
    2 sourceType, 3 sd hash, 4 contentType}}}"""
    W, B = chansig.wire_varint_field, chansig.wire_bytes_field
    meta = (W(1, r.choice([1, 2, 3, 4])) + W(2, r.choice([1, 2, 3, 5, 7])) + B(3, text(r, r.choice([1, 12, 60])).encode()) +
            B(4, text(r, r.choice([0, 10, 300])).encode()) + B(5, text(r, r.choice([0, 8])).encode()) +
            B(6, r.choice([b'', b'Public Domain', b'Copyrighted (contact author)'])) + W(7, r.choice([0, 0, 1])))
    if r.random() < 0.4:
        meta += B(8, W(1, 1) + W(2, r.choice([1, 2, 3])) + B(3, chansig.address_bytes(r.randbytes(20), chansig.MAINNET_P2PKH_PREFIX)) +
                  bytes([4 << 3 | 5]) + struct.pack('<f', r.choice([0.5, 1.0, 2.0, 10.0])))
    if r.random() < 0.6:
        meta += B(9, b'https://thumb/' + str(r.randrange(10 ** 6)).encode())
    if r.random() < 0.2:
        meta += B(11, b'https://example.com/l')
    source = W(1, 1) + W(2, 1) + B(3, r.randbytes(48)) + B(4, r.choice([b'video/mp4', b'application/octet-stream']))
    return W(1, 1) + W(2, 1) + B(3, W(1, 1) + B(2, meta) + B(3, source))


def channel_value(form, secret):
    """channel claim value in one of the three encodings found on chain: v1 certificate (DER key), present format with the DER key of
    the transition releases, present format with a compressed key"""
    W, B = chansig.wire_varint_field, chansig.wire_bytes_field
    der = chansig.SPKI_SECP256K1_PREFIX + chansig.uncompressed_from_secret(secret)
    if form == 'v1-cert':
        return W(1, 1) + W(2, 2) + B(4, W(1, 1) + W(2, 3) + B(4, der))
    return b'\x00' + B(2, B(1, der if form == 'v2-der' else chansig.public_from_secret(secret))) + B(8, b'a channel')


def _run_foreign(rec, case):
    """A5 (added after seeded break C04-J): the wallet validates what others signed.  The three main-net pairs of A4 all pay to a public-key
    hash and are all name claims; here the independent signer produces signatures by the earlier releases' rule and by the present rule for
    every output template that can carry a claim, the harness serialises scripts and transactions itself, and the real is_signed_by judges
    them re-parsed from those bytes (what resolve / claim_search / claim_list do with data a server sent)."""
    boot.import_lbry()
    from lbry.wallet import Ledger, Database, Headers
    ledger = Ledger({'db': Database(':memory:'), 'headers': Headers(':memory:')})
    V = Validator(rec, ledger)
    r = random.Random(case['seed'])

    def funding_input():
        return (r.randbytes(32).hex(), r.choice([0, 1, 7]), _push(b'\x30' + r.randbytes(69) + b'\x01') + _push(b'\x02' + r.randbytes(32)),
                r.choice([0xFFFFFFFF, 0xFFFFFFFE]))

    def p2pkh():
        return b'\x76\xa9\x14' + r.randbytes(20) + b'\x88\xac'

    def channel_tx(form, op, sec):
        """-> (raw transaction, claim hash of the channel)"""
        chash = r.randbytes(20) if op == 'update_claim' else None
        script = claim_script_bytes(op, b'@' + text(r, 6).replace(' ', '_').encode(), channel_value(form, sec), r.choice(['pubkey', 'script']),
                                    r.randbytes(20), chash)
        raw = wire_tx([funding_input()], [(r.randrange(10 ** 5, 10 ** 8), script), (r.randrange(10 ** 5, 10 ** 8), p2pkh())],
                      locktime=r.getrandbits(20))
        return raw, chash or chansig.claim_hash(bytes.fromhex(minitx.parse(raw)['txid'])[::-1], 0)

    sec, other_sec = (r.randrange(1, chansig.N).to_bytes(32, 'big') for _ in range(2))
    forms = [(f, op) for f in ('v1-cert', 'v2-der', 'modern') for op in ('claim_name', 'update_claim')]
    for fmt in ('v1', 'v2'):
        for op in ('claim_name', 'update_claim'):
            for pays_to in ('pubkey', 'script'):
                if rec.out_of_time():
                    return
                template = f'{op}+pay_{pays_to}_hash'
                form, chan_op = r.choice(forms)
                chan_raw, chash = channel_tx(form, chan_op, sec)
                other_raw, _ = channel_tx(r.choice(['v1-cert', 'modern']), 'claim_name', other_sec)
                h160 = r.randbytes(20)
                inputs = [funding_input() for _ in range(r.choice([1, 1, 2, 3]))]
                if fmt == 'v1':
                    unsigned = v1_stream_claim(r)
                    address = chansig.address_bytes(h160, chansig.MAINNET_P2PKH_PREFIX if pays_to == 'pubkey' else chansig.MAINNET_P2SH_PREFIX)
                    sig = chansig.sign_compact(sec, chansig.digest_v1(address, unsigned, chash[::-1]))
                    value = unsigned + chansig.v1_signature_field(sig, chash[::-1])
                else:
                    message = make_claim(r, r.choice(['stream', 'repost', 'collection', 'empty'])).to_message_bytes()
                    sig = chansig.sign_compact(sec, chansig.digest_v2(chansig.outpoint(inputs[0][0], inputs[0][1]), chash, message))
                    value = b'\x01' + chash + sig + message
                script = claim_script_bytes(op, r.choice([b'old-stream', b'ab', 'ünï'.encode()]), value, pays_to, h160, r.randbytes(20))
                raw = wire_tx(inputs, [(r.randrange(10 ** 4, 10 ** 8), script)] + [(r.randrange(10 ** 4, 10 ** 8), p2pkh())] * r.choice([0, 1]),
                              locktime=r.getrandbits(20))
                # ---- reference side, from the bytes only (keeps the harness honest: writer, signer and reader must agree)
                m, cm = minitx.parse(raw), minitx.parse(chan_raw)
                env = chansig.envelope(claim_value_of(m['outputs'][0]['script']))
                pub = chansig.channel_public_key(claim_value_of(cm['outputs'][0]['script']))
                if fmt == 'v1':
                    digest = chansig.digest_v1(claim_address_of(m['outputs'][0]['script']), env['unsigned_payload'], env['certificate_id'])
                else:
                    digest = chansig.digest_v2(chansig.outpoint(m['inputs'][0]['txid'], m['inputs'][0]['nout']), env['channel_hash'], env['message'])
                if env['format'] != {'v1': 'v1', 'v2': 'v2-signed'}[fmt] or env['channel_hash'] != chash or \
                        not chansig.verify_compact(pub, env['signature'], digest):
                    raise RuntimeError(f'harness: reference does not verify its own {fmt} signature in {template}')
                rec.hit('A5.ref_verified')
                rec.log('A5.sig.high_s' if int.from_bytes(sig[32:], 'big') > chansig.N // 2 else 'A5.sig.low_s')
                # ---- the real code
                ok, exc = V.validates(raw, chan_raw)
                rec.hit('A5.validates')
                rec.hit('A5.format.' + fmt)
                rec.hit('A5.template.' + template)
                rec.hit(f'A5.channel.{form}.{chan_op}')
                rec.case(['foreign', fmt, template, form, chan_op], nontrivial=True,
                         sample={'fam': 'foreign', 'format': fmt, 'template': template, 'channel': f'{form} in {chan_op}', 'validates': ok,
                                 'claim_address': claim_address_of(m['outputs'][0]['script']).hex(), 'tx': raw.hex()} if (fmt, pays_to) == ('v1', 'script')
                         else None)
                if not ok:
                    rec.violation(f'C04/A5/independently-signed-claim-does-not-validate/{fmt}/{template}',
                                  f'{fmt}-format claim in a {template} output, signed by the independent signer for a {form} channel ({chan_op}): '
                                  f'the 64-byte signature verifies (ecdsa) over the reference digest {digest.hex()} but is_signed_by does not accept '
                                  f'it ({exc!r})', {'format': fmt, 'template': template, 'channel_form': form, 'tx': raw, 'channel_tx': chan_raw,
                                                    'digest': digest})
                    continue
                if fmt == 'v2' and pays_to != 'script':
                    continue        # mutations of present-format claims in the usual templates: A3
                mutate_signed(rec, V, r, raw, chan_raw, template, 'A5', False, [other_raw], v1=(fmt == 'v1'), budget_bits=16)
                poff = locate(chan_raw, pub, 'channel public key')
                for b in sorted(r.sample(range((len(pub) - 32) * 8, len(pub) * 8), 4)):
                    V.judge('A5', 'channel_key_damaged', raw, flip(chan_raw, poff + b // 8, b % 8), f'channel public key bit {b} flipped',
                            {'template': template, 'bit': b}, template, b)
                if fmt == 'v1':
                    # v1 signatures commit to the claim address: observed (the statement does not list the address)
                    hoff = locate(raw, h160, 'claim address hash')
                    V.judge('A5', 'v1_claim_address', flip(raw, hoff + r.randrange(20), r.randrange(8)), chan_raw, '', {}, template, judged=False)


# ------------------------------------------------------------------------------------- fam: rotate  (A6: through the wallet database)
async def _run_rotate(rec, case):
    """A6 (added after seeded break C04-I): the daemon never signs with the objects it built a moment ago - every command reads the claim
    and its channel back from the wallet database (get_channel_or_error -> Ledger.get_channels; stream_update / collection_update without
    channel arguments -> `old_txo.channel` as attached by Ledger.get_claims).  The history that matters is a channel that was updated in
    between, above all one whose signing key was REPLACED (channel_update --new_signing_key): its earlier versions, spent, are still in the
    database together with their keys.  The harness keeps its own record of every channel version it broadcast and judges each signature
    against the version it broadcast last."""
    boot.import_lbry()
    from lbry.wallet import Transaction
    from lbry.wallet.bip32 import PrivateKey
    from lbry.error import InsufficientFundsError
    from lbry.schema.claim import Claim
    r = random.Random(case['seed'])
    random.seed(case['seed'])
    env = await open_env(r, 2, single=False, rate=r.choice([1, 50]))
    fx, ledger = env.fx, env.fx.ledger
    wallet, funding = fx.wallet, list(fx.accounts)
    V = Validator(rec, ledger)
    try:
        nacc = len(funding)
        await env.fund([(r.randrange(nacc), r.choice([0, 0, 1]), r.randrange(25), _factory(r, 'pay', r.randrange(2 * 10 ** 7, 4 * 10 ** 7)))
                        for _ in range(r.randrange(12, 20))])
        versions = []       # harness-side record of the channel versions it broadcast, oldest first: raw tx, txid, secret, public key on the wire
        held = {}           # claim id -> {'raw', 'kind', 'pub': channel key under which the reference verified its present signature}
        replaced = 0

        async def addr():
            return await env.address(r.randrange(nacc), 0, r.randrange(20))

        chain = {'height': 20, 'mempool': []}

        async def publish(tx):
            """broadcast: seen in the mempool first (height 0) or mined at once; a block takes everything that waits in the mempool"""
            if r.random() < 0.5:
                await env.broadcast(tx, 0)
                chain['mempool'].append(tx)
            else:
                chain['height'] += r.choice([1, 1, 3])
                await env.confirm(chain['mempool'], chain['height'])
                await env.broadcast(tx, chain['height'], len(chain['mempool']) + 1)
                chain['mempool'] = []

        async def maybe_block():
            if chain['mempool'] and r.random() < 0.6:
                chain['height'] += 1
                await env.confirm(chain['mempool'], chain['height'])
                chain['mempool'] = []

        async def new_key():
            if case['newkey'] == 'deterministic':
                return await funding[0].generate_channel_private_key()      # channel_create, channel_update --new_signing_key
            key = PrivateKey.from_bytes(ledger, r.randbytes(32))            # channel_import
            funding[0].add_channel_private_key(key)
            return key

        def record_version(tx, secret):
            m = minitx.parse(tx.raw)
            versions.append({'raw': tx.raw, 'txid': m['txid'], 'secret': secret,
                             'pub': chansig.channel_public_key(claim_value_of(m['outputs'][0]['script']))})

        def judge(tx, kind, flow, stale):
            """the signature the wallet just made, against the channel version the harness broadcast last"""
            raw, cur = tx.raw, versions[-1]
            check_inputs(rec, raw, env.spent, {'flow': 'rotate/' + flow})
            wit = {'flow': flow, 'kind': kind, 'tx': raw, 'current_channel_tx': cur['raw'], 'channel_versions_broadcast': len(versions),
                   'signing_keys_replaced': replaced}
            ok_wire, exc = V.validates(raw, cur['raw'])
            if not ok_wire:
                rec.violation(f'C04/A6/is_signed_by-false/{flow}', f'{kind} signed with the channel the wallet database returned, after '
                              f'{len(versions) - 1} channel update(s) of which {replaced} replaced the signing key: does not validate against the '
                              f'channel as broadcast last ({exc!r})', wit)
            ok_ref = ref_check_signed(rec, raw, cur['raw'], 0, cur['secret'], kind, clause='A6',
                                      retired=[v['pub'] for v in versions[:-1] if v['pub'] != cur['pub']])
            rec.hit('A6.created_with_reloaded_channel' if flow == 'create-with-reloaded-channel' else 'A6.updated_reloaded_claim')
            if stale:
                rec.hit('A6.updated_after_key_replaced')
            m = minitx.parse(raw)
            rec.case(['rotate', flow, kind, len(versions), replaced, stale], nontrivial=True,
                     sample={'fam': 'rotate', 'flow': flow, 'kind': kind, 'channel_versions': len(versions), 'keys_replaced': replaced,
                             'previous_signature_was_stale': stale, 'txid': m['txid']} if stale else None)
            return (ok_wire and ok_ref), m

        async def observe_listing():
            """claim_list: a claim whose signature the reference verifies under the CURRENT channel key validates against the channel the
            listing attached (JSONResponseEncoder: is_channel_signature_valid = txo.is_signed_by(txo.channel, ledger))"""
            cur = versions[-1]
            for cid in sorted(held):
                s = held[cid]
                loaded = await ledger.get_claims(wallet=wallet, accounts=funding, claim_id=cid)
                if len(loaded) != 1 or loaded[0].tx_ref.tx.raw != s['raw']:
                    rec.log('A6.list.claim_not_listed_as_broadcast')
                    continue
                txo = loaded[0]
                att = txo.channel
                if att is None:
                    rec.log('A6.list.no_channel_attached')
                    continue
                try:
                    says = bool(txo.is_signed_by(att, ledger))
                except Exception as e:  # noqa
                    says = False
                    rec.log(f'A6.list.rejected_by_exception.{type(e).__name__}')
                if s['pub'] != cur['pub']:
                    # signed with a key the channel no longer carries: what the listing should say is not part of the statement
                    rec.log('A6.list.stale_signature.' + ('reported_valid' if says else 'reported_invalid'))
                    continue
                rec.hit('A6.listing_checked')
                if replaced:
                    rec.hit('A6.listing_checked_after_key_replaced')
                if not says:
                    pos = [i for i, v in enumerate(versions) if v['txid'] == att.tx_ref.id and att.position == 0]
                    which = 'unknown-channel-attached' if not pos else 'current-version-attached' if pos[0] == len(versions) - 1 \
                        else 'spent-version-attached'
                    what = 'an output the harness never broadcast as this channel' if not pos else f'version {pos[0] + 1}'
                    rec.violation(f'C04/A6/listed-claim-does-not-validate-against-attached-channel/{which}',
                                  f'{s["kind"]} {cid}: its signature verifies (ecdsa) under the key of the channel as broadcast last (version '
                                  f'{len(versions)} of {len(versions)}); the listing attached {what} ({att.tx_ref.id}:{att.position}) as its '
                                  f'channel and is_signed_by(attached channel) is False', {'tx': s['raw'], 'current_channel_tx': cur['raw'],
                                                                                'attached_channel_txid': att.tx_ref.id,
                                                                                'channel_versions_broadcast': [v['txid'] for v in versions]})

        # ---- channel_create (held by the account that hands out the signing keys, as with the daemon's default arguments: the next
        #      deterministic key is the first one no channel OF THAT ACCOUNT uses)
        tx = await Transaction.claim_create('@' + text(r, 6).replace(' ', '_'), make_claim(r, 'channel'), r.randrange(10 ** 5, 10 ** 6),
                                            await env.address(0, 0, r.randrange(20)), funding, funding[0])
        key = await new_key()
        tx.outputs[0].set_channel_private_key(key)
        await tx.sign(funding)
        check_inputs(rec, tx.raw, env.spent, {'flow': 'rotate/channel_create'})
        await publish(tx)
        record_version(tx, key.private_key_bytes)
        channel_id = chansig.claim_hash(bytes.fromhex(versions[0]['txid'])[::-1], 0)[::-1].hex()

        async def op_stream():
            # stream_create --channel_id: Daemon.get_channel_or_error(for_signing=True)
            found = await ledger.get_channels(wallet=wallet, accounts=funding, claim_id=channel_id)
            if len(found) != 1 or not found[0].has_private_key:
                rec.log('A6.create.channel_lookup_failed')
                return
            channel = found[0]
            kind = r.choice(['stream', 'stream', 'repost', 'collection'])
            try:
                tx = await Transaction.claim_create(r.choice(['s', 'stream-name', 'ünï']) + str(len(held)), make_claim(r, kind),
                                                    r.randrange(10 ** 4, 10 ** 6), await addr(), funding, funding[0], channel)
            except InsufficientFundsError:
                rec.log('rotate.insufficient_funds_step_skipped')
                return
            tx.outputs[0].sign(channel)
            await tx.sign(funding)
            ok, m = judge(tx, kind, 'create-with-reloaded-channel', False)
            await publish(tx)
            if ok:
                held[chansig.claim_hash(bytes.fromhex(m['txid'])[::-1], 0)[::-1].hex()] = {'raw': tx.raw, 'kind': kind, 'pub': versions[-1]['pub']}

        async def op_channel_update(replace_key):
            nonlocal replaced
            loaded = await ledger.get_claims(wallet=wallet, accounts=funding, claim_id=channel_id)
            if len(loaded) != 1 or not loaded[0].claim.is_channel:
                rec.log('A6.channel_update.channel_lookup_failed')
                return
            old = loaded[0]
            claim = Claim.from_bytes(old.claim.to_bytes())
            claim.message.title = text(r, 9)
            try:
                tx = await Transaction.claim_update(old, claim, old.amount, old.get_address(ledger), funding, funding[0])
            except InsufficientFundsError:
                rec.log('rotate.insufficient_funds_step_skipped')
                return
            new = tx.outputs[0]
            if replace_key:
                key = await new_key()
                new.set_channel_private_key(key)
                secret = key.private_key_bytes
            else:
                new.private_key = old.private_key
                secret = versions[-1]['secret']
            new.script.generate()
            await tx.sign(funding)
            check_inputs(rec, tx.raw, env.spent, {'flow': 'rotate/channel_update'})
            await publish(tx)
            record_version(tx, secret)
            changed = versions[-1]['pub'] != versions[-2]['pub']         # what counts is the key in the bytes that were broadcast
            if changed:
                replaced += 1
            rec.hit('A6.channel_key_replaced' if changed else 'A6.channel_key_kept')
            if changed != bool(replace_key):
                rec.log('A6.channel_update.key_on_wire_unexpected')

        async def op_edit(cid):
            # stream_update / collection_update <claim_id> --title=... : no channel arguments, the daemon signs with old_txo.channel
            loaded = await ledger.get_claims(wallet=wallet, accounts=funding, claim_id=cid)
            if len(loaded) != 1 or not loaded[0].claim.is_signed:
                rec.log('A6.edit.claim_lookup_failed')
                return
            old = loaded[0]
            channel = old.channel
            if channel is None or not channel.has_private_key:
                rec.log('A6.edit.no_signing_channel_attached')
                return
            claim = Claim.from_bytes(old.claim.to_bytes())
            claim.message.title = text(r, 10)
            try:
                tx = await Transaction.claim_update(old, claim, old.amount, r.choice([old.get_address(ledger), await addr()]), funding,
                                                    funding[0], channel)
            except InsufficientFundsError:
                rec.log('rotate.insufficient_funds_step_skipped')
                return
            tx.outputs[0].sign(channel)
            await tx.sign(funding)
            s = held[cid]
            ok, _ = judge(tx, s['kind'], 'update-of-reloaded-claim', s['pub'] != versions[-1]['pub'])
            await publish(tx)
            if ok:
                held[cid] = {'raw': tx.raw, 'kind': s['kind'], 'pub': versions[-1]['pub']}
            else:
                del held[cid]

        ops = ['stream'] + r.sample(['stream', 'keep', 'edit', 'replace'], r.randrange(0, 3)) + ['replace'] + \
            r.sample(['stream', 'keep', 'replace', 'edit', 'stream'], r.randrange(1, 4))
        for op in ops:
            if rec.out_of_time():
                return
            await maybe_block()
            if op == 'stream':
                await op_stream()
            elif op in ('keep', 'replace'):
                await op_channel_update(op == 'replace')
            elif held:
                await op_edit(r.choice(sorted(held)))
            await observe_listing()
        # every claim whose signature was made with a key the channel no longer carries is updated once, plus one that is up to date
        stale = [cid for cid in sorted(held) if held[cid]['pub'] != versions[-1]['pub']]
        fresh = [cid for cid in sorted(held) if cid not in stale]
        for cid in stale + fresh[:1]:
            await op_edit(cid)
        await observe_listing()
    finally:
        await fx.close()

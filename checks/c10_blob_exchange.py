"""C10 — blob exchange: honest transfer completes, liars never poison.  [H+M]
Real BlobServerProtocol over a real BlobManager+SQLiteStorage, real request_blob / BlobExchangeClientProtocol
writing into a second real BlobManager, connected by in-memory byte streams (vlib/memnet.py) whose both
directions are re-chunked by a seeded plan, on the virtual-clock loop (vlib/vclock.py).  Arrangements:
honest<->honest, real client vs scripted hostile server, scripted hostile client vs real server while an
honest client downloads.  Oracle X1-X6 (DESIGN §4 C10) with a wire monitor on the server->client stream.
Two more arrangements drive the server through its real entry point BlobServer.start_server (loop.create_server mapped onto the
in-memory net): (vi) one request byte string per connection under a catalogue of fragmentations - the server's verdict on it
(answered / refused) must not depend on where the stream was cut (X7); (vii) a link with a finite send window (asyncio's
pause_writing/resume_writing contract) and a server configured with idle_timeout != transfer_timeout: a slow honest reader, a reader
that stalls mid-blob, a silent connection (X8).
(viii) relay: in the race and pair arrangements (and for the first blob of (ix)) the node that has just downloaded the blob becomes the
server - a third node asks it for the blob over the real BlobServerProtocol; the header on the wire must name exactly the hash and the
length, and the third node must end with the verified blob (X9).  (ix) stream: ONE real BlobDownloader fetches several blobs in a row (as
a stream download does) from honest servers each holding only part of them and, in half of the cases, a scripted peer that serves its
first request(s) on every connection honestly and misbehaves afterwards: every blob an honest reachable server holds must end verified
(X10) - connections that are kept between blobs, peers set aside for a while and taken back are the history under test."""
import asyncio
import hashlib
import json
import os
import random
import shutil
import tempfile
import time

from vlib import boot, vclock, memnet

ID = 'C10'
LEVEL = 'exploration'
RULE = ('case = arrangement x blob set (1 byte .. 2 MiB, sd-blob JSON, content crafted to look like protocol JSON) x fragmentation plan per '
        'direction (1-byte, header alone, header glued to k body bytes, MTU, 64 KiB, coalesce-all, random) x for hostile arrangements one '
        'misbehaviour from the catalogue at a message position. distinct = hash(arrangement, misbehaviour, length class, known/unknown length, '
        'plans, position); non-trivial = everything except a single honest transfer with coalesce-all plans. request_cap: padded single-'
        'brace requests (sizes around and above the server\'s request cap) x fragmentation catalogue; slow_link: (idle, transfer) '
        'timeout configuration x blob size x pace of the reader; stream: 3-6 blobs x 2-3 honest servers (holdings: blob i on server i mod n, '
        'or random non-empty subsets) x optionally one scripted peer holding everything that is honest for its first 1-2 requests per '
        'connection and then applies one misbehaviour from the catalogue')
ASSUMPTIONS = ['the byte stream is modelled in memory (fragment boundaries are exactly the data_received calls a TCP stream could produce); '
               'no real sockets, so kernel-level behaviours (RST, half-open) are not exercised',
               'deadlines are virtual seconds: connect_timeout + 2 x peer_timeout for the client, idle_timeout + transfer_timeout for the server',
               'an exception raised inside data_received closes the connection (asyncio semantics) and is not itself a violation',
               'a header followed by the complete correct bytes plus excess bytes IS a complete correct copy (the client caps at the announced length)',
               'slow links are modelled by a send window on the in-memory stream: the writing transport tells its protocol to pause above '
               '64 KiB undelivered bytes and to resume below 16 KiB (asyncio defaults), deliveries are paced by the fragment plan',
               'an honest transfer is owed completion only if it needs less than the server\'s configured transfer_timeout; whether a stalled '
               'transfer is cut at transfer_timeout or only by idle_timeout + transfer_timeout is logged, not judged',
               'stream family: a blob held by an honest reachable server is owed to the downloader within 20 x (connect_timeout + 2 x '
               'peer_timeout) virtual seconds per blob (peers that failed are set aside for at most 30 s by the downloader); blob lengths '
               'are known beforehand except for the first blob (as for a stream: descriptor first, then content blobs)']
REQUIRED_HITS = ['X5.pair_checked', 'X2.orphan_file_blob', 'X5.race_checked', 'X1.checked', 'X2.honest_transfer', 'X2.blanks_content', 'X2.sequential_on_one_connection', 'X2.header_alone', 'X2.one_byte_fragments',
                 'X2.header_glued', 'X2.big_blob', 'X2.sd_blob', 'X3.client_liar_checked', 'X3.server_hostile_client_checked', 'X4.wire_checked',
                 'X4.not_held_request', 'X5.concurrent_honest_ok', 'X6.liar_then_honest', 'liar.wrong_hash', 'liar.wrong_length_unknown',
                 'liar.wrong_length_known', 'liar.flip', 'liar.short_stall', 'liar.short_close', 'liar.excess', 'liar.malformed_json',
                 'liar.huge_header', 'liar.not_available', 'liar.price', 'liar.error_object', 'liar.second_header', 'hostile_client.oversize',
                 'hostile_client.invalid_json', 'hostile_client.invalid_hash', 'hostile_client.disconnect_mid_transfer', 'hostile_client.slow_partial',
                 'X7.request_verdict_checked', 'X7.refused_whole', 'X7.served_whole', 'X7.oversized_in_fragments_below_cap',
                 'X8.slow_transfer_longer_than_idle_timeout', 'X8.stalled_reader_checked', 'X8.silent_connection_checked',
                 'X9.relay_checked', 'X9.relay_after_race_for_unknown_length', 'X9.relay_after_stalling_loser_unknown_length',
                 'X10.stream_checked', 'X10.partial_holders', 'X10.kept_peer_misbehaved_later', 'X10.peer_taken_back_after_being_set_aside']
MAX = 2 * 1024 * 1024
CT, PT = 3.0, 5.0            # client connect / peer timeouts (virtual s)
IDLE, XFER = 30.0, 60.0      # server idle / transfer timeouts (virtual s)
_TMP = {}
LIARS = ['wrong_hash', 'wrong_length_shorter', 'wrong_length_longer', 'wrong_length_zero', 'wrong_length_negative', 'wrong_length_huge',
         'wrong_length_string', 'flip', 'short_stall', 'short_close', 'excess', 'junk_before_header', 'malformed_json', 'huge_header',
         'unknown_keys', 'not_available', 'price', 'error_object', 'second_header', 'silent', 'close_immediately', 'header_only_then_close']
PAIR_LIARS = ['flip', 'short_close', 'short_stall', 'wrong_hash', 'junk_before_header', 'malformed_json', 'not_available', 'price', 'error_object',
              'second_header', 'silent', 'close_immediately', 'header_only_then_close', 'truthful_header_then_corrupt']
STREAM_LIARS = ['flip', 'short_close', 'short_stall', 'wrong_hash', 'junk_before_header', 'malformed_json', 'not_available', 'price', 'error_object',
                'second_header', 'silent', 'header_only_then_close', 'excess', 'wrong_length_shorter', 'wrong_length_longer']
PADDINGS = ['extra_member', 'availability_list', 'leading_blanks']
TIMEOUTS = [(2.0, 20.0), (30.0, 60.0), (20.0, 3.0), (5.0, 40.0), (60.0, 30.0)]     # server (idle, transfer) configurations of the slow_link family
HOSTILE_CLIENT = ['oversize', 'invalid_json', 'non_dict_json', 'no_request_keys', 'wrong_types', 'deep_nesting', 'unknown_hash', 'invalid_hash',
                  'disconnect_mid_transfer', 'slow_partial', 'garbage_binary', 'two_requests_glued']


def plan(tier):
    return {'shards': 16, 'budget_s': 55 if tier == 'quick' else 800}


def shard_setup(rec, tier):
    # memory-backed scratch space where there is one: every case opens 2-5 sqlite databases, and their commits (fsync) on a busy disk cost
    # far more wall time than everything the check itself computes
    shm = '/dev/shm' if os.path.isdir('/dev/shm') and os.access('/dev/shm', os.W_OK) else None
    if shm:
        # what shards that were killed (watchdog, a runner that stops at the first violation) left behind hours ago; a live shard touches
        # its directory at every case and lives 45 minutes at most
        for name in os.listdir(shm):
            old = os.path.join(shm, name)
            try:
                if name.startswith('verif-c10-') and time.time() - os.stat(old).st_mtime > 3 * 3600:
                    shutil.rmtree(old, ignore_errors=True)
            except OSError:
                pass
    _TMP['dir'] = tempfile.mkdtemp(prefix='verif-c10-', dir=shm)


def shard_finish(rec, tier):
    shutil.rmtree(_TMP.pop('dir', ''), ignore_errors=True)


def gen_cases(rng, tier, shard, nshards):
    q = tier == 'quick'
    n_h, n_l, n_c = (30, 132, 42) if q else (400, 2200, 600)
    fams = [
        [{'fam': 'honest', 'seed': rng.getrandbits(48), 'big': i % 5 == 4} for i in range(n_h)],
        [{'fam': 'liar', 'seed': rng.getrandbits(48), 'liar': LIARS[(i + shard) % len(LIARS)], 'known': (i // len(LIARS)) % 2 == 0} for i in range(n_l)],
        [{'fam': 'hostile_client', 'seed': rng.getrandbits(48), 'kind': HOSTILE_CLIENT[(i + shard) % len(HOSTILE_CLIENT)]} for i in range(n_c)],
    ]
    fams.append([{'fam': 'race', 'seed': rng.getrandbits(48), 'liars': [LIARS[(i * 5 + shard + j) % len(LIARS)] for j in range(rng.choice([1, 2]))],
                  'known': i % 2 == 0} for i in range(30 if q else 500)])
    fams.append([{'fam': 'pair', 'seed': rng.getrandbits(48), 'liar': PAIR_LIARS[(i + shard) % len(PAIR_LIARS)], 'liar_first': (i // 2) % 2 == 0,
                  'known': i % 2 == 0} for i in range(28 if q else 500)])
    fams.append([{'fam': 'request_cap', 'seed': rng.getrandbits(48), 'padding': PADDINGS[(i + shard) % len(PADDINGS)]} for i in range(4 if q else 120)])
    fams.append([{'fam': 'slow_link', 'seed': rng.getrandbits(48), 'timeouts': list(TIMEOUTS[(i + shard) % len(TIMEOUTS)])} for i in range(4 if q else 80)])
    fams.append([{'fam': 'stream', 'seed': rng.getrandbits(48), 'holdings': ['alternating', 'random'][(i // 2) % 2],
                  'liar': None if i % 2 == 0 else STREAM_LIARS[(i // 2 + shard) % len(STREAM_LIARS)]} for i in range(12 if q else 300)])
    while any(fams):
        for f, w in zip(fams, (1, 4, 1, 1, 1, 1, 1, 1)):
            for _ in range(w):
                if f:
                    yield f.pop(0)


# ------------------------------------------------------------------------------ helpers
def make_plan(r, style):
    """fragmentation plan: callable(available) -> (n, delay)"""
    state = {'first': True}
    if style == 'all':
        return lambda avail: (avail, 0)
    if style == 'bytes':
        return lambda avail: (1, 0)
    if style == 'mtu':
        return lambda avail: (1448, 0)
    if style == '64k':
        return lambda avail: (65536, 0)
    if style == 'rand':
        return lambda avail: (r.choice([1, 2, 7, 100, 1448, 4096, 70000, avail]), r.choice([0, 0, 0, 0.01]))
    if style.startswith('first:'):
        k = int(style.split(':')[1])

        def p(avail):
            if state['first']:
                state['first'] = False
                return k, 0
            return avail, 0
        return p
    raise ValueError(style)


def blob_content(r, cls):
    if cls == 'tiny':
        return r.randbytes(r.choice([1, 2, 16, 17, 100]))
    if cls == 'small':
        return r.randbytes(r.randrange(200, 5000))
    if cls == 'mid':
        return r.randbytes(r.choice([65536, 65537, 200000]))
    if cls == 'big':
        return r.randbytes(r.choice([MAX, MAX - 1, 2 ** 20]))
    if cls == 'sd':
        return json.dumps({'blobs': [{'blob_hash': r.randbytes(48).hex(), 'blob_num': 0, 'iv': r.randbytes(16).hex(), 'length': 2097152},
                                     {'blob_num': 1, 'iv': r.randbytes(16).hex(), 'length': 0}], 'key': r.randbytes(16).hex(),
                           'stream_hash': r.randbytes(48).hex(), 'stream_name': '61', 'stream_type': 'lbryfile', 'suggested_file_name': '61'}).encode()
    if cls == 'jsonlike':
        head = r.choice([b'{"available_blobs": []}', b'{"blob_data_payment_rate": "RATE_ACCEPTED"}', b'{"lbrycrd_address": "x"}',
                         b'{"incoming_blob": {"blob_hash": "00", "length": 5}}'])
        return head + r.randbytes(r.randrange(0, 3000))
    if cls == 'braces':
        return b'}' * r.randrange(1, 2000) + r.randbytes(100)
    if cls == 'blanks':
        # text-like blobs: runs of blanks, tabs and line ends, also at the very start and end, so that wherever the stream is cut the
        # fragment is likely to begin or end with white space (seeded break C10-F stripped the segment that carried the header)
        ws = b' \t\n\r\x0b\x0c'
        n = r.choice([1, 2, 17, 300, 5000, 70000])
        body = bytearray(r.choice(ws) if r.random() < 0.6 else r.randrange(256) for _ in range(n))
        body[-1] = r.choice(ws)
        if r.random() < 0.5:
            body[0] = r.choice(ws)
        return bytes(body)
    raise ValueError(cls)


def sha384(b):
    return hashlib.sha384(b).hexdigest()


async def make_manager(loop, base, name, preload=None):
    """preload: {hash: bytes} written into the blob directory BEFORE the manager starts (a blob file the database does not know yet:
    held verified and served, but not yet in the completed set the availability answer is computed from)"""
    from lbry.conf import Config
    from lbry.extras.daemon.storage import SQLiteStorage
    from lbry.blob.blob_manager import BlobManager
    d = os.path.join(base, name)
    os.makedirs(d)
    for hh, content in (preload or {}).items():
        with open(os.path.join(d, hh), 'wb') as f:
            f.write(content)
    conf = Config(data_dir=d, download_dir=d, wallet=d, save_files=True, fixed_peers=[], tracker_servers=[])
    storage = SQLiteStorage(conf, os.path.join(d, 'lbrynet.sqlite'))
    bm = BlobManager(loop, d, storage, conf)
    await storage.open()
    await bm.setup()
    return bm, storage, d


async def add_blob(bm, content):
    h = sha384(content)
    blob = bm.get_blob(h, len(content))
    w = blob.get_blob_writer()
    w.write(content)
    await blob.verified.wait()
    for _ in range(5):          # let blob_completed (storage.add_blobs) finish
        await asyncio.sleep(0)
    return h


def check_wire(rec, wire, held, closed, label):
    """X4: every server->client byte after a JSON header belongs to the blob the header names, the header's hash/length equal a blob
    the server holds verified, bytes equal that file; nothing is streamed for blobs not held."""
    rec.hit('X4.wire_checked')
    pos = 0
    dec = json.JSONDecoder()
    n = len(wire)
    while pos < n:
        head = bytes(wire[pos:pos + 4096]).decode('latin1')
        try:
            obj, end = dec.raw_decode(head)
        except ValueError:
            rec.violation('C10/X4/server-sent-bytes-outside-any-response', f'{label}: server stream has bytes at offset {pos} that are neither a JSON '
                          f'response nor the body of an announced blob', {'offset': pos, 'next': bytes(wire[pos:pos + 40])})
            return False
        pos += end
        inc = obj.get('incoming_blob') if isinstance(obj, dict) else None
        if isinstance(inc, dict) and 'blob_hash' in inc:
            h, ln = inc['blob_hash'], inc.get('length')
            if h not in held:
                rec.violation('C10/X4/server-announced-blob-it-does-not-hold', f'{label}: header names {h[:12]} which the server does not hold verified', {})
                return False
            if ln != len(held[h]):
                rec.violation('C10/X4/server-announced-wrong-length', f'{label}: header length {ln}, blob has {len(held[h])}', {})
                return False
            body = bytes(wire[pos:pos + ln])
            if body != held[h][:len(body)]:
                rec.violation('C10/X4/server-sent-wrong-bytes', f'{label}: streamed bytes differ from the held blob', {'hash': h[:12]})
                return False
            if len(body) < ln and not closed:
                rec.log('X4.body_incomplete_connection_open')
            pos += len(body)
    return True


async def check_relay(rec, loop, net, r, bm, base, h, content, addr, history):
    """X9 (arrangement viii): the node behind blob manager `bm` has just downloaded blob h; now it is the server.  A third node asks it for
    the blob (length unknown to it, as for any blob asked for by hash alone): X4 on the wire (header names exactly hash and length, the
    bytes are the blob) and the third node ends with the verified, byte-identical blob.  `history` names how bm got the blob."""
    from lbry.blob_exchange.server import BlobServerProtocol
    from lbry.blob_exchange.client import request_blob
    from lbry.blob.blob_file import BlobFile
    rec.hit('X9.relay_checked')
    held_len = bm.get_blob(h).get_length()
    if held_len != len(content):
        rec.log(f'X9.downloaded_blob_object_reports_length_{"none" if held_len is None else "wrong"}')
    tdir = os.path.join(base, 'third-' + addr)
    os.makedirs(tdir)
    net.listen(addr, 3333, lambda: BlobServerProtocol(loop, bm, 'bQEaw42GXsgCAGio1nxFncJSyRmnztSCjP', IDLE, XFER))
    style = r.choice(['all', 'mtu', 'first:30', 'rand']) if len(content) < 20000 else r.choice(['all', 'mtu', '64k'])
    old_factory, old_delay = net.plan_factory, net.connect_delay
    net.plan_factory = lambda d: make_plan(r, style if d == 's2c' else 'all')
    net.connect_delay = 0.0
    blob3 = BlobFile(loop, h, None, None, tdir)
    n0 = len(net.connections)
    protocol = None
    try:
        _, protocol = await request_blob(loop, blob3, addr, 3333, CT, PT)
    except asyncio.CancelledError:
        rec.log('request_blob_cancelled.relay')
    except Exception as e:  # noqa
        rec.log(f'request_blob_raised.relay.{type(e).__name__}')
    finally:
        net.plan_factory, net.connect_delay = old_factory, old_delay
    for _ in range(5):
        await asyncio.sleep(0)
    ok3 = blob3.get_is_verified()
    wire_ok = True
    for conn in net.connections[n0:]:
        wire_ok = check_wire(rec, conn.s2c.wire, {h: content}, conn.server_tr._lost, f'relay after {history}') and wire_ok
    if ok3:
        with open(os.path.join(tdir, h), 'rb') as f:
            if f.read() != content:
                rec.violation('C10/X1/verified-blob-bytes-differ/relay', f'third node verified bytes that are not the blob (relay after {history})', {})
    else:
        wire = bytes(net.connections[n0].s2c.wire[:300]) if len(net.connections) > n0 else b''
        rec.violation(f'C10/X9/node-that-downloaded-the-blob-cannot-serve-it/{history}',
                      f'a node downloaded a {len(content)}-byte blob ({history}) and holds it verified; a third node asking it for the blob ended '
                      f'unverified (the serving node\'s blob object says length {held_len}; its answer began {wire[:160]!r})',
                      {'history': history, 'length': len(content), 'serving_blob_length': held_len, 'plan_s2c': style, 'wire_ok': wire_ok,
                       'answer_head': wire[:200], 'data_received_exceptions': net.data_received_exceptions[-3:]})
    if protocol:
        protocol.close()
    blob3.close()
    return ok3 and wire_ok


# ------------------------------------------------------------------------------ arrangement (i): honest <-> honest
async def _honest(rec, case, loop):
    boot.import_lbry()
    from lbry.blob_exchange.server import BlobServerProtocol
    from lbry.blob_exchange.client import request_blob
    r = random.Random(case['seed'])
    base = tempfile.mkdtemp(dir=_TMP['dir'])
    net = memnet.Net(loop)
    net.install()
    try:
        # blob files that are on the server's disk before it starts (unknown to its database in this session): served, but absent
        # from the availability list - the client must still end with the blob (added after seeded break C10-D)
        orphan = {}
        for _ in range(r.choice([0, 0, 1, 2])):
            oc = blob_content(r, r.choice(['small', 'mid', 'mid']))
            orphan[sha384(oc)] = oc
        sbm, sst, sdir = await make_manager(loop, base, 'server', preload=orphan)
        cbm, cst, cdir = await make_manager(loop, base, 'client')
        classes = ['tiny', 'small', 'mid', 'sd', 'jsonlike', 'braces', 'small', 'blanks', 'blanks'] + (['big'] if case['big'] else [])
        nblobs = r.randrange(1, 5)
        held = dict(orphan)
        order = [(hh, 'orphan-file') for hh in orphan]
        for hh in orphan:
            rec.hit('X2.orphan_file_blob')
        for _ in range(nblobs):
            cls = r.choice(classes)
            c = blob_content(r, cls)
            if sha384(c) in held:       # two identical tiny blobs (one blank, say): one is enough
                continue
            h = await add_blob(sbm, c)
            held[h] = c
            order.append((h, cls))
        if case['big'] and not any(c == 'big' for _, c in order):
            c = blob_content(r, 'big')
            held[await add_blob(sbm, c)] = c
            order.append((sha384(c), 'big'))
        not_held = sha384(r.randbytes(50))
        net.listen('10.0.0.1', 3333, lambda: BlobServerProtocol(loop, sbm, 'bQEaw42GXsgCAGio1nxFncJSyRmnztSCjP', IDLE, XFER))
        styles_s2c = r.choice(['all', 'bytes', 'mtu', '64k', 'rand', 'first:HEADER', 'first:HEADER+k'])
        styles_c2s = r.choice(['all', 'bytes', 'rand', 'first:10'])
        hdr_len = {}

        def factory(direction):
            if direction == 'c2s':
                return make_plan(r, styles_c2s)
            st = styles_s2c
            if st.startswith('first:HEADER'):
                # header alone / header glued to k body bytes: header length is known once the server wrote it; plan looks at the buffer
                k = 0 if st == 'first:HEADER' else r.choice([1, 15, 1000])
                state = {'n': 0}

                def p(avail, _pipe=[None]):
                    # find the header end in the pipe buffer (first fragment of each response)
                    pipe = net.connections[-1].s2c
                    buf = bytes(pipe.buf[:2000])
                    if buf[:1] == b'{':
                        try:
                            _, end = json.JSONDecoder().raw_decode(buf.decode('latin1'))
                            return end + k, 0
                        except ValueError:
                            pass
                    return avail, 0
                return p
            if st == 'bytes' and any(len(held[h]) > 20000 for h, _ in order):
                return make_plan(r, 'rand')
            return make_plan(r, st)
        net.plan_factory = factory
        protocol = None
        nreq = 0
        t_conn = loop.time()
        sequence = [h for h, _ in order]
        if r.random() < 0.5:
            sequence.insert(r.randrange(len(sequence) + 1), not_held)
        for h in sequence:
            cls = dict(order).get(h, 'not_held')
            known = r.random() < 0.5 and h in held
            blob = cbm.get_blob(h, len(held[h]) if known else None)
            t0 = loop.time()
            try:
                got, protocol = await request_blob(loop, blob, '10.0.0.1', 3333, CT, PT, connected_protocol=protocol)
            except asyncio.CancelledError:
                # request_blob re-raises the cancellation of its writer (connection lost / another writer won): a failed request
                rec.log('request_blob_cancelled.honest')
                got, protocol = 0, None
            except Exception as e:  # noqa
                rec.violation(f'C10/X2/request_blob-raised/{type(e).__name__}', f'honest transfer of a {cls} blob raised {e!r}',
                              {'class': cls, 'plan_s2c': styles_s2c, 'plan_c2s': styles_c2s})
                return
            dt = loop.time() - t0
            nreq += 1
            rec.hit('X1.checked')
            if h == not_held:
                rec.hit('X4.not_held_request')
                if blob.get_is_verified() or os.path.isfile(os.path.join(cdir, h)):
                    rec.violation('C10/X1/verified-blob-nobody-sent', 'blob the server does not hold became verified', {})
                    return
                continue
            rec.hit('X2.honest_transfer')
            if cls == 'blanks':
                rec.hit('X2.blanks_content')
            if nreq > 1:
                rec.hit('X2.sequential_on_one_connection')
            if styles_s2c == 'first:HEADER':
                rec.hit('X2.header_alone')
            if styles_s2c == 'first:HEADER+k':
                rec.hit('X2.header_glued')
            if styles_s2c == 'bytes' or styles_c2s == 'bytes':
                rec.hit('X2.one_byte_fragments')
            if cls == 'big':
                rec.hit('X2.big_blob')
            if cls == 'sd':
                rec.hit('X2.sd_blob')
            ok = blob.get_is_verified()
            disk = None
            if ok:
                with open(os.path.join(cdir, h), 'rb') as f:
                    disk = f.read()
                if disk != held[h]:
                    rec.violation('C10/X1/verified-blob-bytes-differ', f'verified {cls} blob differs from what the server holds', {'class': cls})
                    return
            if not ok or dt > 2 * PT + CT:
                rec.violation(f'C10/X2/honest-transfer-failed/{cls}-content',
                              f'honest server holds the {cls} blob ({len(held[h])} bytes, client knew length: {known}) but the client ended '
                              f'verified={ok} after {dt:.1f} virtual s (plans s2c={styles_s2c} c2s={styles_c2s}, request #{nreq} on the connection)',
                              {'class': cls, 'len': len(held[h]), 'known_length': known, 'plan_s2c': styles_s2c, 'plan_c2s': styles_c2s,
                               'head': held[h][:60], 'returned_protocol': protocol is not None})
                if protocol is None:
                    continue
        for conn in net.connections:
            check_wire(rec, conn.s2c.wire, held, conn.server_tr._lost, 'honest')
        rec.case(['honest', [c for _, c in order], styles_s2c, styles_c2s, len(sequence)],
                 nontrivial=not (len(sequence) == 1 and styles_s2c == 'all' and styles_c2s == 'all'),
                 sample={'arrangement': 'honest', 'blobs': [(c, len(held[h])) for h, c in order], 'plan_s2c': styles_s2c, 'plan_c2s': styles_c2s,
                         'requests': len(sequence), 'fragments_s2c': sum(c.s2c.fragments for c in net.connections),
                         'virtual_seconds': round(loop.time() - t_conn, 3)})
        if protocol:
            protocol.close()
        sbm.stop()
        cbm.stop()
        await sst.close()
        await cst.close()
    finally:
        shutil.rmtree(base, ignore_errors=True)


# ------------------------------------------------------------------------------ arrangement (ii): real client vs hostile server
class Liar(asyncio.Protocol):
    """scripted hostile server: answers the first request according to `kind`"""
    def __init__(self, loop, r, kind, h, content, other):
        self.loop, self.r, self.kind, self.h, self.c, self.other = loop, r, kind, h, content, other
        self.tr = None
        self.buf = b''
        self.answered = False

    def connection_made(self, transport):
        self.tr = transport
        if self.kind == 'close_immediately':
            transport.close()

    def header(self, blob_hash, length, avail=True, rate='RATE_ACCEPTED', extra=None):
        d = {'blob_data_payment_rate': rate, 'incoming_blob': {'blob_hash': blob_hash, 'length': length}}
        if avail is not None:
            d['available_blobs'] = [blob_hash] if avail else []
        if extra:
            d.update(extra)
        return json.dumps(d).encode()

    def data_received(self, data):
        self.buf += data
        if self.answered or b'}' not in self.buf:
            return
        self.answered = True
        k, h, c, w, r = self.kind, self.h, self.c, self.tr.write, self.r
        L = len(c)
        if k == 'wrong_hash':
            oc = self.other
            w(self.header(sha384(oc), len(oc)) + oc)
        elif k.startswith('wrong_length_'):
            v = {'shorter': max(0, L - r.choice([1, L // 2 or 1])), 'longer': L + r.choice([1, 100]), 'zero': 0, 'negative': -5, 'huge': MAX + 1,
                 'string': str(L)}[k.split('_')[2]]
            w(self.header(h, v) + c)
        elif k == 'flip':
            b = bytearray(c)
            b[r.choice([0, L - 1, r.randrange(L)])] ^= 1 << r.randrange(8)
            w(self.header(h, L) + bytes(b))
        elif k == 'short_stall':
            w(self.header(h, L) + c[:r.randrange(0, L)])
        elif k == 'short_close':
            w(self.header(h, L) + c[:r.randrange(0, L)])
            self.tr.close()
        elif k == 'header_only_then_close':
            w(self.header(h, L))
            self.tr.close()
        elif k == 'excess':
            w(self.header(h, L) + c + r.randbytes(r.choice([1, 100])))
        elif k == 'junk_before_header':
            w(r.randbytes(20).replace(b'}', b'x') + self.header(h, L) + c)
        elif k == 'malformed_json':
            w(r.choice([b'{"incoming_blob": {"blob_hash": }', b'{{{{}', b'{"a": 1}}', b'[1, 2, 3]}', b'{"incoming_blob": 5, "available_blobs": 7}',
                        b'{"incoming_blob": {"length": 5}, "available_blobs": ["' + h.encode() + b'"], "blob_data_payment_rate": "RATE_ACCEPTED"}']) + c)
        elif k == 'huge_header':
            w(b'{"available_blobs": ["' + b'a' * (1 << 20))
        elif k == 'unknown_keys':
            w(self.header(h, L, extra={'surprise': 1}) + c)
        elif k == 'not_available':
            w(r.choice([json.dumps({'available_blobs': [], 'blob_data_payment_rate': 'RATE_ACCEPTED'}).encode(),
                        self.header(h, L, avail=False) + c, self.header(h, L, avail=None) + c]))
        elif k == 'price':
            w(self.header(h, L, rate=r.choice(['RATE_TOO_LOW', 'RATE_UNSET'])) + c)
        elif k == 'error_object':
            w(json.dumps({'available_blobs': [h], 'blob_data_payment_rate': 'RATE_ACCEPTED', 'incoming_blob': {'error': 'nope'}}).encode() + c)
        elif k == 'second_header':
            m = r.randrange(0, L + 1)
            w(self.header(h, L) + c[:m] + self.header(h, L) + c[m:])
        elif k == 'silent':
            pass


async def _liar(rec, case, loop):
    boot.import_lbry()
    from lbry.blob_exchange.server import BlobServerProtocol
    from lbry.blob_exchange.client import request_blob
    r = random.Random(case['seed'])
    kind, known = case['liar'], case['known']
    base = tempfile.mkdtemp(dir=_TMP['dir'])
    net = memnet.Net(loop)
    net.install()
    try:
        sbm, sst, sdir = await make_manager(loop, base, 'server')
        cbm, cst, cdir = await make_manager(loop, base, 'client')
        cls = r.choice(['tiny', 'small', 'small', 'mid', 'sd'])
        content = blob_content(r, cls)
        other = blob_content(r, 'small')
        h = await add_blob(sbm, content)
        net.listen('10.0.0.66', 3333, lambda: Liar(loop, r, kind, h, content, other))
        net.listen('10.0.0.1', 3333, lambda: BlobServerProtocol(loop, sbm, 'bQEaw42GXsgCAGio1nxFncJSyRmnztSCjP', IDLE, XFER))
        style = r.choice(['all', 'all', 'bytes', 'mtu', 'rand', 'first:30', 'first:200']) if len(content) < 20000 else r.choice(['all', 'mtu', 'rand'])
        if kind == 'huge_header':
            style = r.choice(['all', '64k', 'mtu'])       # a 1 MiB flood in 1-byte fragments is a million quadratic buffer appends: CPU only
        net.plan_factory = lambda d: make_plan(r, style if d == 's2c' else r.choice(['all', 'rand']))
        hit = 'liar.' + ({'wrong_length_shorter': 'wrong_length', 'wrong_length_longer': 'wrong_length', 'wrong_length_zero': 'wrong_length',
                          'wrong_length_negative': 'wrong_length', 'wrong_length_huge': 'wrong_length',
                          'wrong_length_string': 'wrong_length'}.get(kind, kind))
        if hit == 'liar.wrong_length':
            hit += '_known' if known else '_unknown'
        rec.hit(hit)
        blob = cbm.get_blob(h, len(content) if known else None)
        t0 = loop.time()
        exc = None
        try:
            got, protocol = await asyncio.wait_for(request_blob(loop, blob, '10.0.0.66', 3333, CT, PT), CT + 2 * PT + 100)
        except asyncio.TimeoutError:
            rec.violation(f'C10/X3/client-exceeded-timeouts/{kind}', f'request_blob had not returned {CT + 2 * PT + 100} virtual s after the request to liar {kind}',
                          {'liar': kind})
            return
        except asyncio.CancelledError:
            rec.log(f'request_blob_cancelled.{kind}')
            got, protocol = 0, None
        except Exception as e:  # noqa  the statement is silent on exceptions: logged, state still judged
            exc, protocol = e, None
            rec.log(f'request_blob_raised_against_liar.{kind}.{type(e).__name__}')
        dt = loop.time() - t0
        rec.hit('X1.checked')
        path = os.path.join(cdir, h)
        legit = kind in ('excess', 'unknown_keys') or (kind == 'not_available' and False)
        # a save that was already under way (the peer did deliver the complete correct bytes) finishes first
        for _ in range(10):
            await asyncio.sleep(0)
        await asyncio.sleep(0.001)
        verified = blob.get_is_verified()
        if not verified and os.path.isfile(path):
            await asyncio.sleep(0.05)
            verified = blob.get_is_verified()
        if verified:
            with open(path, 'rb') as f:
                disk = f.read()
            if disk != content:
                rec.violation(f'C10/X1/verified-blob-bytes-differ/{kind}', f'blob verified with bytes that are not the blob ({kind})', {'liar': kind})
                return
            # the bytes are right (hash matches) although the peer misbehaved: only possible because it did deliver the complete
            # correct bytes behind its header; the integrity clause (X1) is what matters then
            rec.log(f'verified_with_correct_bytes_despite_{kind}')
        rec.hit('X3.client_liar_checked')
        if not verified:
            # give the loop a moment, then: no file, connection closed, by the deadline
            deadline = CT + 2 * PT
            for _ in range(5):
                await asyncio.sleep(0)
            if os.path.isfile(path):
                rec.violation(f'C10/X3/file-left-on-disk-after-failed-download/{kind}', f'unverified blob file remains on disk after liar {kind}', {'liar': kind})
            if dt > deadline + 0.01:
                rec.violation(f'C10/X3/client-exceeded-timeouts/{kind}', f'request_blob returned after {dt:.2f} virtual s > {deadline}', {'liar': kind, 'dt': dt})
            conn = net.connections[0] if net.connections else None
            if conn is not None:
                await asyncio.sleep(0.01)
                if not conn.client_tr._lost and not conn.client_tr._closing:
                    await asyncio.sleep(deadline)
                    if not conn.client_tr._lost and not conn.client_tr._closing:
                        rec.violation(f'C10/X3/client-connection-left-open/{kind}', f'connection to liar {kind} still open {deadline} virtual s after the failure',
                                      {'liar': kind})
        elif kind in ('excess',):
            pass
        # ---- X6: a length the client knew beforehand (from the stream descriptor) is not the peer's to change
        if known and not verified and blob.get_length() != len(content):
            rec.violation('C10/X6/trusted-length-changed-by-peer' + (f'/{kind}' if not kind.startswith('wrong_length') else '/wrong_length'),
                          f'the client knew the blob is {len(content)} bytes long; after liar {kind} the blob object says {blob.get_length()}',
                          {'liar': kind, 'true_length': len(content), 'blob_length_after_liar': blob.get_length()})
        # ---- X6: the same blob object, now from an honest server
        if not verified:
            rec.hit('X6.liar_then_honest')
            try:
                got2, protocol2 = await request_blob(loop, blob, '10.0.0.1', 3333, CT, PT)
            except asyncio.CancelledError:
                got2, protocol2 = 0, None
            except Exception as e:  # noqa
                rec.violation(f'C10/X6/request_blob-raised-after-liar/{kind}/{type(e).__name__}', f'honest retry after liar {kind} raised {e!r}', {'liar': kind})
                return
            if not blob.get_is_verified():
                mech = 'sticky-wrong-length' if kind.startswith('wrong_length') and not known else 'other'
                rec.violation(f'C10/X6/poisoned-by-liar/{mech}' + ('' if mech != 'other' else f'/{kind}'),
                              f'after liar {kind} (client knew length: {known}) the same blob object cannot be downloaded from an honest server that holds it '
                              f'(blob.length now {blob.length}, true {len(content)})',
                              {'liar': kind, 'known_length': known, 'blob_length_after_liar': blob.length, 'true_length': len(content), 'class': cls})
            else:
                with open(path, 'rb') as f:
                    if f.read() != content:
                        rec.violation(f'C10/X1/verified-blob-bytes-differ/{kind}', 'bytes differ after honest retry', {'liar': kind})
            if protocol2:
                protocol2.close()
        if protocol:
            protocol.close()
        rec.case(['liar', kind, cls, known, style], sample={'arrangement': 'liar', 'misbehaviour': kind, 'blob': cls, 'length': len(content),
                                                             'client_knew_length': known, 'plan_s2c': style, 'verified_from_liar': verified,
                                                             'virtual_seconds_to_return': round(dt, 3), 'exception': repr(exc) if exc else None})
        sbm.stop()
        cbm.stop()
        await sst.close()
        await cst.close()
    finally:
        shutil.rmtree(base, ignore_errors=True)


# ------------------------------------------------------------------------------ arrangement (iii): hostile client vs real server
async def _hostile_client(rec, case, loop):
    boot.import_lbry()
    from lbry.blob_exchange.server import BlobServerProtocol
    from lbry.blob_exchange.client import request_blob
    from lbry.blob_exchange.serialization import BlobRequest
    r = random.Random(case['seed'])
    kind = case['kind']
    rec.hit('hostile_client.' + kind)
    base = tempfile.mkdtemp(dir=_TMP['dir'])
    net = memnet.Net(loop)
    net.install()
    try:
        sbm, sst, sdir = await make_manager(loop, base, 'server')
        cbm, cst, cdir = await make_manager(loop, base, 'client')
        content = blob_content(r, r.choice(['small', 'mid']))
        content2 = blob_content(r, 'mid')
        h = await add_blob(sbm, content)
        h2 = await add_blob(sbm, content2)
        held = {h: content, h2: content2}
        net.listen('10.0.0.1', 3333, lambda: BlobServerProtocol(loop, sbm, 'bQEaw42GXsgCAGio1nxFncJSyRmnztSCjP', IDLE, XFER))
        net.plan_factory = lambda d: make_plan(r, r.choice(['all', 'rand', 'mtu']))
        # the hostile side: a bare protocol we drive by hand
        class Raw(asyncio.Protocol):
            def __init__(self):
                self.got = bytearray()
                self.lost_at = None

            def connection_made(self, t):
                self.t = t

            def data_received(self, d):
                self.got += d

            def connection_lost(self, exc):
                self.lost_at = loop.time()
        tr, raw = await net.connect(Raw, '10.0.0.1', 3333)
        hconn = net.connections[-1]
        t_start = loop.time()
        good = BlobRequest.make_request_for_blob_hash(h).serialize()
        last_activity = t_start
        if kind == 'oversize':
            tr.write(b'{"requested_blob": "' + b'a' * r.choice([1200, 5000]) + b'"}')
        elif kind == 'invalid_json':
            tr.write(r.choice([b'{"requested_blob": }', b'}}}}', b'{nope}', b'\xff\xfe}']))
        elif kind == 'non_dict_json':
            tr.write(r.choice([b'[1, 2]}'[:-1] + b']', b'5}', b'"x"}', b'[{}]', b'null}']) + b'}')
        elif kind == 'no_request_keys':
            tr.write(b'{"hello": "world"}')
        elif kind == 'wrong_types':
            tr.write(json.dumps(r.choice([{'requested_blob': 5}, {'requested_blobs': 7, 'blob_data_payment_rate': 'x'}, {'requested_blob': None},
                                          {'requested_blob': ['a']}, {'requested_blobs': [], 'requested_blob': {}}])).encode())
        elif kind == 'deep_nesting':
            tr.write(b'[' * 1100 + b'}')
        elif kind == 'unknown_hash':
            tr.write(BlobRequest.make_request_for_blob_hash(sha384(b'nobody has this')).serialize())
        elif kind == 'invalid_hash':
            tr.write(json.dumps({'requested_blob': r.choice(['zz', 'g' * 96, '../../etc/passwd', 'A' * 96, ''])}).encode())
        elif kind == 'disconnect_mid_transfer':
            tr.write(BlobRequest.make_request_for_blob_hash(h2).serialize())
            for _ in range(r.randrange(3, 30)):
                await asyncio.sleep(0)
            tr.close()
        elif kind == 'slow_partial':
            tr.write(good[:r.randrange(1, len(good) - 1)])
        elif kind == 'garbage_binary':
            tr.write(r.randbytes(r.choice([10, 500, 1199])).replace(b'}', b'!'))
        elif kind == 'two_requests_glued':
            tr.write(good + BlobRequest.make_request_for_blob_hash(h2).serialize())
        # ---- X5: meanwhile an honest client downloads
        blob = cbm.get_blob(h2)
        try:
            got, protocol = await request_blob(loop, blob, '10.0.0.1', 3333, CT, PT)
        except asyncio.CancelledError:
            got, protocol = 0, None
        except Exception as e:  # noqa
            rec.violation(f'C10/X5/honest-download-raised/{kind}/{type(e).__name__}', f'honest download raised {e!r} while a hostile client ({kind}) was connected', {})
            return
        if not blob.get_is_verified():
            rec.violation(f'C10/X5/honest-download-failed-during-hostile-client/{kind}', f'honest client could not download while hostile client {kind} was connected', {'kind': kind})
        else:
            rec.hit('X5.concurrent_honest_ok')
        if protocol:
            protocol.close()
        # ---- X3 (server): the hostile connection is closed by idle_timeout + transfer_timeout
        rec.hit('X3.server_hostile_client_checked')
        deadline = IDLE + XFER
        await asyncio.sleep(deadline + 1)
        if not hconn.server_tr._lost and not hconn.server_tr._closing:
            rec.violation(f'C10/X3/server-connection-left-open/{kind}', f'server still holds the connection of hostile client {kind} '
                          f'{deadline + 1} virtual s after its last byte', {'kind': kind})
        # ---- X4 on every connection
        for conn in net.connections:
            check_wire(rec, conn.s2c.wire, held, conn.server_tr._lost, f'hostile_client:{kind}')
        if kind in ('unknown_hash', 'invalid_hash', 'no_request_keys', 'wrong_types'):
            # nothing may be streamed for blobs not held
            w = bytes(hconn.s2c.wire)
            if b'incoming_blob' in w and b'error' not in w and kind == 'unknown_hash':
                rec.violation('C10/X4/server-announced-blob-it-does-not-hold', f'{kind}: server announced a download', {'wire': w[:200]})
        rec.case(['hostile_client', kind, len(content)], sample={'arrangement': 'hostile_client', 'kind': kind, 'server_replied_bytes': len(hconn.s2c.wire),
                                                                  'server_closed_at_virtual_s': None if hconn.server_tr.closed_at is None else
                                                                  round(hconn.server_tr.closed_at - t_start, 2),
                                                                  'data_received_exceptions': net.data_received_exceptions[:3]})
        sbm.stop()
        cbm.stop()
        await sst.close()
        await cst.close()
    finally:
        shutil.rmtree(base, ignore_errors=True)


# ------------------------------------------------------------------------------ arrangement (iv): the real BlobDownloader, liars and one honest peer
async def _race(rec, case, loop):
    """the real BlobDownloader races several peers for one blob: 1-2 scripted liars and one honest server.  Whatever the liars do and
    in whatever order the peers are tried, the blob must end verified with exactly the right bytes within a bounded virtual time."""
    boot.import_lbry()
    from lbry.blob_exchange.server import BlobServerProtocol
    from lbry.blob_exchange.downloader import BlobDownloader
    from lbry.dht.peer import make_kademlia_peer
    r = random.Random(case['seed'])
    base = tempfile.mkdtemp(dir=_TMP['dir'])
    net = memnet.Net(loop)
    net.install()
    try:
        sbm, sst, sdir = await make_manager(loop, base, 'server')
        cbm, cst, cdir = await make_manager(loop, base, 'client')
        cls = r.choice(['tiny', 'small', 'mid', 'sd', 'jsonlike'])
        content = blob_content(r, cls)
        other = blob_content(r, 'small')
        h = await add_blob(sbm, content)
        peers = []
        for i, kind in enumerate(case['liars']):
            addr = f'5.9.{i + 1}.66'
            # each liar goes away after a few connections: the statement promises no lasting poisoning and that others are still
            # served; it does not promise progress while a faster lying peer keeps winning every race for an unknown-length blob
            # (observed: the honest response is refused as "unexpected length" against the liar's claim each round - logged)
            budget = {'n': r.choice([1, 2, 4])}

            def liar_factory(kind=kind, addr=addr, budget=budget):
                budget['n'] -= 1
                if budget['n'] <= 0:
                    net.refuse.add((addr, 3333))
                return Liar(loop, r, kind, h, content, other)
            net.listen(addr, 3333, liar_factory)
            peers.append(make_kademlia_peer(hashlib.sha384(b'liar%d' % i).digest(), addr, tcp_port=3333))
            rec.hit('race.liar.' + ('wrong_length' if kind.startswith('wrong_length') else kind))
        net.listen('5.9.0.1', 3333, lambda: BlobServerProtocol(loop, sbm, 'bQEaw42GXsgCAGio1nxFncJSyRmnztSCjP', IDLE, XFER))
        peers.append(make_kademlia_peer(hashlib.sha384(b'honest').digest(), '5.9.0.1', tcp_port=3333))
        r.shuffle(peers)
        style = r.choice(['all', 'mtu', 'rand', 'first:30']) if len(content) < 20000 else r.choice(['all', 'mtu'])
        base_plan = {d: make_plan(r, style if d == 's2c' else 'all') for d in ('s2c', 'c2s')}
        # a little latency everywhere: a peer whose request ends in a cancellation is retried at once by the downloader (it is not
        # marked as failed); with zero latency that retry loop would spin at one virtual instant and starve the clock
        net.plan_factory = lambda d: (lambda avail, _p=base_plan[d]: (_p(avail)[0], 0.002))
        net.connect_delay = 0.02
        cconf = cbm.config
        cconf.peer_connect_timeout, cconf.blob_download_timeout = CT, PT
        pq = asyncio.Queue()
        # peers trickle in: sometimes the liars first, the honest peer a little later
        if r.random() < 0.5:
            pq.put_nowait(list(peers))
        else:
            pq.put_nowait(peers[:1])
            loop.call_later(r.choice([0.5, 2.0, 6.0]), pq.put_nowait, peers[1:])
        dl = BlobDownloader(loop, cconf, cbm, pq)
        t0 = loop.time()
        bound = 40 * (CT + 2 * PT)
        try:
            blob = await asyncio.wait_for(dl.download_blob(h, len(content) if case['known'] else None), bound)
            ok = blob.get_is_verified()
        except asyncio.TimeoutError:
            blob, ok = cbm.get_blob(h), False
        except Exception as e:  # noqa
            rec.violation(f'C10/X5/downloader-raised/{type(e).__name__}', f'BlobDownloader.download_blob raised {e!r} with liars {case["liars"]}', {'liars': case['liars']})
            return
        dt = loop.time() - t0
        dl.close()
        rec.hit('X5.race_checked')
        liars = '+'.join(sorted({('wrong_length' if k.startswith('wrong_length') else k) for k in case['liars']}))
        if not ok:
            rec.violation(f'C10/X5/honest-peer-available-but-download-never-completed/{liars}',
                          f'one honest server holds the {cls} blob ({len(content)} bytes, client knew length: {case["known"]}) next to liars {case["liars"]}, '
                          f'but BlobDownloader had not finished after {bound:.0f} virtual s', {'liars': case['liars'], 'class': cls, 'known': case['known'],
                                                                                            'blob_length_now': blob.length})
        else:
            with open(os.path.join(cdir, h), 'rb') as f:
                if f.read() != content:
                    rec.violation(f'C10/X1/verified-blob-bytes-differ/race/{liars}', 'downloader finished with wrong bytes', {'liars': case['liars']})
            # ---- X9: the downloading node now serves the blob to a third node
            if not case['known']:
                rec.hit('X9.relay_after_race_for_unknown_length')
            await check_relay(rec, loop, net, r, cbm, base, h, content, '5.9.0.200',
                              'downloader-race-' + ('known' if case['known'] else 'unknown') + '-length')
        rec.case(['race', sorted(case['liars']), cls, case['known'], style],
                 sample={'arrangement': 'race', 'liars': case['liars'], 'blob': cls, 'length': len(content), 'verified': ok,
                         'virtual_seconds': round(dt, 2), 'connections': len(net.connections)})
        sbm.stop()
        cbm.stop()
        await sst.close()
        await cst.close()
    finally:
        shutil.rmtree(base, ignore_errors=True)


# ------------------------------------------------------------------------------ arrangement (v): two concurrent requests for one blob object
async def _pair(rec, case, loop):
    """one liar and one honest server are asked for the same blob object at the same time by two plain request_blob calls (no downloader,
    no retry): whatever the liar does and whoever answers first, the honest request itself must end with the verified blob - a failing
    peer must not break a transfer that is under way from another peer (added after seeded break C10-C).  Liars that announce a wrong
    length are excluded here: refusing the other peer's different length is the code's documented behaviour (see race family)."""
    boot.import_lbry()
    from lbry.blob_exchange.server import BlobServerProtocol
    from lbry.blob_exchange.client import request_blob
    r = random.Random(case['seed'])
    kind = case['liar']
    base = tempfile.mkdtemp(dir=_TMP['dir'])
    net = memnet.Net(loop)
    net.install()
    try:
        sbm, sst, sdir = await make_manager(loop, base, 'server')
        cbm, cst, cdir = await make_manager(loop, base, 'client')
        cls = r.choice(['small', 'mid', 'mid', 'sd'])
        content = blob_content(r, cls)
        other = blob_content(r, 'small')
        h = await add_blob(sbm, content)
        lkind = 'flip' if kind == 'truthful_header_then_corrupt' else kind
        net.listen('5.8.0.66', 3333, lambda: Liar(loop, r, lkind, h, content, other))
        net.listen('5.8.0.1', 3333, lambda: BlobServerProtocol(loop, sbm, 'bQEaw42GXsgCAGio1nxFncJSyRmnztSCjP', IDLE, XFER))
        # fragment plans with small delays so that the two transfers really overlap; who answers first is seeded
        liar_first = case['liar_first']
        plans = {'liar': r.choice(['mtu', 'rand', 'first:200']), 'honest': r.choice(['mtu', 'rand', '64k'])}
        made = []

        def factory(direction):
            # connections are created liar first, honest second (see below); each pipe gets its own plan and pace
            who = 'liar' if len(made) < 2 else 'honest'
            made.append(who)
            base_p = make_plan(r, plans[who] if direction == 's2c' else 'all')
            pace = (0.001 if liar_first else 0.004) if who == 'liar' else (0.004 if liar_first else 0.001)
            return lambda avail: (base_p(avail)[0], pace)
        net.plan_factory = factory
        blob = cbm.get_blob(h, len(content) if case['known'] else None)
        t_liar = loop.create_task(request_blob(loop, blob, '5.8.0.66', 3333, CT, PT))
        await asyncio.sleep(0)
        t_honest = loop.create_task(request_blob(loop, blob, '5.8.0.1', 3333, CT, PT))
        res = await asyncio.gather(t_liar, t_honest, return_exceptions=True)
        rec.hit('X5.pair_checked')
        rec.hit('pair.' + kind)
        for _ in range(10):
            await asyncio.sleep(0)
        await asyncio.sleep(0.01)
        ok = blob.get_is_verified()
        honest_res = res[1]
        if ok:
            with open(os.path.join(cdir, h), 'rb') as f:
                if f.read() != content:
                    rec.violation(f'C10/X1/verified-blob-bytes-differ/pair/{kind}', 'verified with wrong bytes', {'liar': kind})
            # ---- X9: the downloading node now serves the blob to a third node.  With a liar that never finishes (silent, stalls after part
            # of the bytes) its request is still open at the moment the honest transfer completes
            if not case['known']:
                rec.hit('X9.relay_after_race_for_unknown_length')
                if kind in ('silent', 'short_stall'):
                    rec.hit('X9.relay_after_stalling_loser_unknown_length')
            await check_relay(rec, loop, net, r, cbm, base, h, content, '5.8.0.200',
                              'two-concurrent-requests-' + ('known' if case['known'] else 'unknown') + '-length')
        else:
            rec.violation(f'C10/X5/concurrent-liar-broke-the-honest-transfer/{kind}',
                          f'liar ({kind}, answering {"first" if liar_first else "second"}) and an honest server were asked for the same {cls} blob '
                          f'({len(content)} bytes, client knew length: {case["known"]}) at the same time; the honest request ended {honest_res!r} and the '
                          f'blob is not verified', {'liar': kind, 'liar_first': liar_first, 'known': case['known'], 'honest_result': repr(honest_res),
                                                    'liar_result': repr(res[0]), 'blob_length': blob.length,
                                                    'data_received_exceptions': net.data_received_exceptions[:3]})
        for x in res:
            if isinstance(x, tuple) and x[1]:
                x[1].close()
        rec.case(['pair', kind, cls, case['known'], liar_first, plans['liar'], plans['honest']],
                 sample={'arrangement': 'pair', 'liar': kind, 'liar_first': liar_first, 'blob': cls, 'length': len(content), 'verified': ok})
        sbm.stop()
        cbm.stop()
        await sst.close()
        await cst.close()
    finally:
        shutil.rmtree(base, ignore_errors=True)


# ------------------------------------------------------------------------------ arrangement (ix): one BlobDownloader, several blobs and peers
class ScriptedPeer(Liar):
    """holds every blob of `blobs`; on each connection the first `honest_first` requests are answered as an honest server would, the next
    one according to `kind` (the Liar catalogue, applied to whatever blob that request names), later ones not at all"""
    def __init__(self, loop, r, kind, blobs, other, honest_first, journal):
        super().__init__(loop, r, kind, None, None, other)
        self.blobs, self.honest_first, self.journal = blobs, honest_first, journal
        self.nreq = 0
        self.lied_at = None
        self.answered = True        # Liar.data_received stays quiet until a request is handed to it below

    def data_received(self, data):
        self.buf += data
        if self.lied_at is not None or b'}' not in self.buf:
            return
        raw, self.buf = self.buf, b''
        try:
            wanted = json.loads(raw.decode('latin1')).get('requested_blob')
        except (ValueError, AttributeError):
            return self.tr.close()
        self.nreq += 1
        if wanted not in self.blobs:
            self.journal.append(('honest-no', wanted))
            return self.tr.write(json.dumps({'available_blobs': [], 'blob_data_payment_rate': 'RATE_ACCEPTED'}).encode())
        if self.nreq <= self.honest_first:
            self.journal.append(('honest', wanted))
            return self.tr.write(self.header(wanted, len(self.blobs[wanted])) + self.blobs[wanted])
        self.journal.append(('lie', wanted))
        self.lied_at = self.loop.time()
        self.h, self.c, self.answered = wanted, self.blobs[wanted], False
        self.buf = raw
        Liar.data_received(self, b'')


async def _stream(rec, case, loop):
    """ONE real BlobDownloader (as StreamDownloader and blob_get use it) fetches several blobs one after the other.  Peers: 2-3 real
    servers, every blob on at least one of them but none of them necessarily holding all; optionally a scripted peer that holds
    everything, answers the first request(s) of every connection honestly (so that the downloader keeps the connection) and misbehaves
    at the next one.  Whatever happened at earlier blobs - connections kept, peers set aside because they did not have a blob or lied -
    every blob ends verified and byte-identical within the bound (X10), nothing else gets verified (X1), X4 on every real server's wire."""
    boot.import_lbry()
    from lbry.blob_exchange.server import BlobServerProtocol
    from lbry.blob_exchange.downloader import BlobDownloader
    from lbry.dht.peer import make_kademlia_peer
    r = random.Random(case['seed'])
    kind = case['liar']
    base = tempfile.mkdtemp(dir=_TMP['dir'])
    net = memnet.Net(loop)
    net.install()
    try:
        n_srv = r.choice([2, 2, 3])
        n_blobs = r.randrange(3, 7)
        contents, seen = [], set()
        while len(contents) < n_blobs:
            c = blob_content(r, 'sd' if not contents and r.random() < 0.5 else r.choice(['tiny', 'small', 'small', 'mid', 'jsonlike']))
            if sha384(c) not in seen:
                seen.add(sha384(c))
                contents.append(c)
        hashes = [sha384(c) for c in contents]
        if case['holdings'] == 'alternating':
            first = r.randrange(n_srv)
            holders = [{(first + i) % n_srv} for i in range(n_blobs)]
        else:
            holders = [set(r.sample(range(n_srv), r.choice([1, 1, 2]))) for _ in range(n_blobs)]
        cbm, cst, cdir = await make_manager(loop, base, 'client')
        servers, held_by, peers = [], {}, []
        for j in range(n_srv):
            bm, st, _ = await make_manager(loop, base, f'server{j}')
            held = {}
            for i, c in enumerate(contents):
                if j in holders[i]:
                    held[await add_blob(bm, c)] = c
            addr = f'5.7.0.{j + 1}'
            net.listen(addr, 3333, lambda bm=bm: BlobServerProtocol(loop, bm, 'bQEaw42GXsgCAGio1nxFncJSyRmnztSCjP', IDLE, XFER))
            servers.append((bm, st))
            held_by[addr] = held
            peers.append(make_kademlia_peer(hashlib.sha384(b'stream-honest%d' % j).digest(), addr, tcp_port=3333))
        journal = []
        scripted = []
        honest_first = None
        if kind is not None:
            honest_first = r.choice([1, 1, 2])
            every = dict(zip(hashes, contents))
            other = blob_content(r, 'small')

            def scripted_factory():
                scripted.append(ScriptedPeer(loop, r, kind, every, other, honest_first, journal))
                return scripted[-1]
            net.listen('5.7.0.66', 3333, scripted_factory)
            peers.append(make_kademlia_peer(hashlib.sha384(b'stream-scripted').digest(), '5.7.0.66', tcp_port=3333))
        r.shuffle(peers)
        style = r.choice(['all', 'mtu', 'rand', 'first:30']) if max(map(len, contents)) < 20000 else r.choice(['all', 'mtu', '64k'])
        base_plan = {d: make_plan(r, style if d == 's2c' else 'all') for d in ('s2c', 'c2s')}
        lat = r.choice([0.001, 0.002, 0.01])       # some latency everywhere: see the race family
        net.plan_factory = lambda d: (lambda avail, _p=base_plan[d]: (_p(avail)[0], lat))
        net.connect_delay = 0.02
        cconf = cbm.config
        cconf.peer_connect_timeout, cconf.blob_download_timeout = CT, PT
        pq = asyncio.Queue()
        pq.put_nowait(list(peers))
        dl = BlobDownloader(loop, cconf, cbm, pq)
        bound = 20 * (CT + 2 * PT)
        first_unknown = r.random() < 0.5
        took, stuck = [], None
        set_aside = set()           # addresses of honest servers that were asked for a blob they do not hold, of the scripted peer once it misbehaved

        def asked_for(conn):
            out, pos, w = [], 0, bytes(conn.c2s.wire).decode('latin1')
            while pos < len(w):
                try:
                    obj, pos = json.JSONDecoder().raw_decode(w, pos)
                except ValueError:
                    break
                out.append(obj.get('requested_blob') if isinstance(obj, dict) else None)
            return out
        for i, (h, c) in enumerate(zip(hashes, contents)):
            t0 = loop.time()
            ncon = len(net.connections)
            try:
                blob = await asyncio.wait_for(dl.download_blob(h, None if i == 0 and first_unknown else len(c)), bound)
                ok = blob.get_is_verified()
            except asyncio.TimeoutError:
                blob, ok = cbm.get_blob(h), False
            except Exception as e:  # noqa
                rec.violation(f'C10/X10/downloader-raised/{type(e).__name__}', f'BlobDownloader.download_blob raised {e!r} at blob #{i + 1} of {n_blobs}',
                              {'liar': kind, 'holdings': case['holdings']})
                return
            took.append(round(loop.time() - t0, 2))
            rec.hit('X10.stream_checked')
            if len(holders[i]) < n_srv:
                rec.hit('X10.partial_holders')
            for conn in net.connections[ncon:]:
                a = conn.client_tr.get_extra_info('peername')[0]
                if a in set_aside:
                    rec.hit('X10.peer_taken_back_after_being_set_aside')
            for conn in net.connections:
                a = conn.client_tr.get_extra_info('peername')[0]
                if a in held_by and any(x not in held_by[a] for x in asked_for(conn)):
                    set_aside.add(a)
            if any(s.lied_at is not None for s in scripted):
                set_aside.add('5.7.0.66')
            if not ok:
                stuck = i
                lied = [w for w, _ in journal].count('lie')
                hist = 'partial-holders-only' if kind is None else (f'kept-peer-then-{kind}' if lied else f'peer-{kind}-not-yet-misbehaving')
                rec.violation(f'C10/X10/blob-held-by-honest-server-never-downloaded/{hist}',
                              f'one BlobDownloader, {n_blobs} blobs, {n_srv} honest servers (blob i held by servers {[sorted(x) for x in holders]}), scripted '
                              f'peer holding all: {f"{kind} after {honest_first} honest answer(s) on each connection" if kind else "none"}; blobs #1..#{i} took {took[:-1]} virtual s, '
                              f'blob #{i + 1} ({len(c)} bytes, held by honest server(s) {sorted(holders[i])}) was not downloaded within {bound:.0f} virtual s '
                              f'(downloader: {len(getattr(dl, "ignored", ()))} peers set aside, {len(getattr(dl, "connections", ()))} connections kept, '
                              f'{len(getattr(dl, "active_connections", ()))} requests active; {len(net.connections)} connections made)',
                              {'liar': kind, 'holdings': case['holdings'], 'holders': [sorted(x) for x in holders], 'stuck_at_blob': i + 1,
                               'virtual_seconds_per_blob': took, 'scripted_peer_journal': [w for w, _ in journal][-12:],
                               'first_length_unknown': first_unknown, 'lengths': [len(x) for x in contents]})
                break
            with open(os.path.join(cdir, h), 'rb') as f:
                if f.read() != c:
                    rec.violation('C10/X1/verified-blob-bytes-differ/stream' + (f'/{kind}' if kind else ''), f'blob #{i + 1} verified with wrong bytes',
                                  {'liar': kind})
                    stuck = i
                    break
        if any(w == 'lie' for w, _ in journal) and any(s.nreq > 1 and s.lied_at is not None for s in scripted):
            rec.hit('X10.kept_peer_misbehaved_later')
        # ---- X3 at this message position: a connection on which the peer misbehaved is closed by the client within its timeouts
        deadline = CT + 2 * PT
        for s in scripted:
            # (only misbehaviours that never include the complete correct bytes: after those the connection may rightly be kept)
            if s.lied_at is not None and kind in ('flip', 'short_close', 'short_stall', 'wrong_hash', 'silent', 'header_only_then_close') and \
                    loop.time() - s.lied_at > deadline + 0.01:
                conn = next((cn for cn in net.connections if cn.server_tr is s.tr), None)
                if conn is not None and not conn.client_tr._lost and not conn.client_tr._closing:
                    rec.violation(f'C10/X3/client-connection-left-open/later-request/{kind}', f'connection on which the peer misbehaved ({kind}) at request '
                                  f'#{s.nreq} is still open {loop.time() - s.lied_at:.1f} virtual s later', {'liar': kind, 'request_on_connection': s.nreq})
        dl.close()
        for _ in range(5):
            await asyncio.sleep(0)
        # ---- X1: nothing but the blobs asked for, each with its bytes, is on the client's disk
        for name in os.listdir(cdir):
            if len(name) == 96 and name not in hashes:
                rec.violation('C10/X1/verified-blob-nobody-asked-for/stream', 'a blob file that was never asked for is on the client\'s disk', {'liar': kind})
        for conn in net.connections:
            a = conn.client_tr.get_extra_info('peername')[0]
            if a in held_by:
                check_wire(rec, conn.s2c.wire, held_by[a], conn.server_tr._lost, 'stream')
        # ---- X9: the first blob (unknown length in half of the cases, possibly raced between several holders) served on to a third node
        if stuck != 0:
            if first_unknown:
                rec.hit('X9.relay_after_race_for_unknown_length')
            await check_relay(rec, loop, net, r, cbm, base, hashes[0], contents[0], '5.7.0.200',
                              'several-blobs-one-downloader-' + ('unknown' if first_unknown else 'known') + '-length')
        rec.case(['stream', case['holdings'], kind, n_srv, n_blobs, [sorted(x) for x in holders], style, first_unknown],
                 sample={'arrangement': 'stream', 'holdings': [sorted(x) for x in holders], 'scripted_peer': kind, 'lengths': [len(x) for x in contents],
                         'virtual_seconds_per_blob': took, 'connections': len(net.connections), 'scripted_peer_journal': [w for w, _ in journal][:12],
                         'first_length_unknown': first_unknown})
        cbm.stop()
        await cst.close()
        for bm, st in servers:
            bm.stop()
            await st.close()
    finally:
        shutil.rmtree(base, ignore_errors=True)


# ------------------------------------------------------------------------------ the real BlobServer on the in-memory net
class _MemServer:
    """what BlobServer.start_server uses of the object loop.create_server returns"""
    def __init__(self, net, key):
        self.net, self.key = net, key

    async def __aenter__(self):
        return self

    async def __aexit__(self, *exc):
        self.close()

    def close(self):
        self.net.servers.pop(self.key, None)

    async def serve_forever(self):
        await self.net.loop.create_future()


class _WindowPipe(memnet.Pipe):
    """a direction of a slow link: at most one fragment per `pace` virtual seconds (also when the writer hands the bytes over piecemeal
    and the buffer runs empty in between), and after every delivery the writing transport re-evaluates its flow control"""
    src = None
    pace = 0.0
    not_before = 0.0

    def _schedule(self, delay):
        super()._schedule(max(delay or 0, self.not_before - self.net.loop.time()))

    def _deliver(self):
        if self.buf and self.dst is not None and not self.dst._paused:
            self.not_before = self.net.loop.time() + self.pace
        super()._deliver()
        src = self.src
        if src is not None and not src._lost and src._protocol is not None:
            src._maybe_resume_protocol()


class _WindowTransport(memnet.MemTransport):
    """MemTransport with a finite send window (asyncio's write flow control: pause_writing above the high-water mark of undelivered
    bytes, resume_writing below the low-water mark), as a socket whose peer reads slowly or not at all"""
    def get_write_buffer_size(self):
        return len(self._out.buf)

    def write(self, data):
        super().write(data)
        if not self._closing and not self._lost:
            self._maybe_pause_protocol()


async def windowed_connect(net, protocol_factory, host, port, pace=0.0):
    """Net.connect, then the server->client direction gets the send window and the pace (nothing has flowed yet)"""
    tr, proto = await net.connect(protocol_factory, host, port)
    conn = net.connections[-1]
    conn.s2c.__class__ = _WindowPipe
    conn.s2c.src, conn.s2c.pace = conn.server_tr, pace
    conn.server_tr.__class__ = _WindowTransport
    return tr, proto


def serve_in_memory(net, loop, windowed=False):
    """loop.create_server (what BlobServer.start_server calls) registers the protocol factory on the in-memory net"""
    async def create_server(protocol_factory, host=None, port=None, **kw):
        net.listen(host, port, protocol_factory)
        return _MemServer(net, (host, port))
    loop.create_server = create_server
    if windowed:
        async def create_connection(protocol_factory, host=None, port=None, **kw):
            return await windowed_connect(net, protocol_factory, host, port, pace=getattr(net, 'link_pace', 0.0))
        loop.create_connection = create_connection


class _Raw(asyncio.Protocol):
    """a bare client driven by hand"""
    def __init__(self):
        self.got = bytearray()
        self.t = None

    def connection_made(self, t):
        self.t = t

    def data_received(self, d):
        self.got += d


# ------------------------------------------------------------------------------ arrangement (vi): one request, many fragmentations
def padded_request(r, h, kind, size):
    """a well-formed download request for the held blob h, blown up to exactly `size` bytes; exactly one closing brace, at the very end
    (so that no fragment but the last one can look complete to the server)"""
    from lbry.blob_exchange.serialization import BlobRequest
    d = BlobRequest.make_request_for_blob_hash(h).to_dict()
    plain = json.dumps(d).encode()
    if size is None or size <= len(plain):
        raw = plain
    elif kind == 'leading_blanks':
        raw = bytes(r.choice(b' \t\n\r') for _ in range(size - len(plain))) + plain
    elif kind == 'extra_member':
        d['padding'] = ''
        room = size - len(json.dumps(d).encode())
        if room < 0:
            return padded_request(r, h, 'leading_blanks', size)
        d['padding'] = 'x' * room
        raw = json.dumps(d).encode()
    else:   # an availability question about many blobs: the held one first, then hashes nobody has; the last entry is cut to fit
        d['requested_blobs'] = [h, '']
        room = size - len(json.dumps(d).encode())
        if room < 0:
            return padded_request(r, h, 'leading_blanks', size)
        while room > 100:
            d['requested_blobs'][-1] = r.randbytes(48).hex()
            d['requested_blobs'].append('')
            room = size - len(json.dumps(d).encode())
        d['requested_blobs'][-1] = r.randbytes(50).hex()[:room]
        raw = json.dumps(d).encode()
    assert (size is None or size <= len(plain) or len(raw) == size) and raw.count(b'}') == 1 and raw.endswith(b'}'), (kind, size, len(raw))
    return raw


def fragmentations(r, size, cap):
    """name -> the fragment sizes in which a request of `size` bytes arrives"""
    out = {'bytes': [1] * size, 'halves': [(size + 1) // 2], 'brace_alone': [size - 1], 'small_head': [r.choice([1, 10, 30])]}
    for name, k in (('below_cap_chunks', cap - 1), ('medium_chunks', r.choice([100, 400, 1000]))):
        out[name] = [k] * (size // k)
    cuts = sorted(r.sample(range(1, size), min(size - 1, r.choice([1, 2, 3]))))
    out['random_cuts'] = [b - a for a, b in zip([0] + cuts, cuts)]
    for name, frags in out.items():
        if sum(frags) < size:
            frags.append(size - sum(frags))
        assert sum(frags) == size and min(frags) > 0, (name, size)
    return out


def request_verdict(wire, closed, h, content):
    if not wire:
        return 'refused' if closed else 'ignored'
    try:
        obj, end = json.JSONDecoder().raw_decode(wire[:4096].decode('latin1'))
    except ValueError:
        return 'answered-with-garbage'
    inc = obj.get('incoming_blob') if isinstance(obj, dict) else None
    if isinstance(inc, dict) and inc.get('blob_hash') == h and wire[end:] == content:
        return 'served'
    return 'answered-without-the-blob'


async def _request_cap(rec, case, loop):
    """the same request byte string is sent on fresh connections to the real BlobServer, once in one segment and then cut in several
    ways.  'However the TCP byte stream is fragmented or coalesced': what the server does with it - stream the blob, or drop the
    connection without an answer (oversized request) - must be the same every time, and ordinary requests are still served afterwards."""
    boot.import_lbry()
    from lbry.blob_exchange import server as server_module
    r = random.Random(case['seed'])
    kind = case['padding']
    cap = int(getattr(server_module, 'MAX_REQUEST_SIZE', 1200))
    base = tempfile.mkdtemp(dir=_TMP['dir'])
    net = memnet.Net(loop)
    net.install()
    serve_in_memory(net, loop)
    try:
        sbm, sst, sdir = await make_manager(loop, base, 'server')
        content = blob_content(r, r.choice(['tiny', 'small', 'small', 'sd']))
        h = await add_blob(sbm, content)
        held = {h: content}
        server = server_module.BlobServer(loop, sbm, 'bQEaw42GXsgCAGio1nxFncJSyRmnztSCjP', idle_timeout=IDLE, transfer_timeout=XFER)
        server.start_server(3333, '10.0.0.1')
        await server.started_listening.wait()

        async def exchange(raw, sizes):
            it = iter(sizes)
            net.plan_factory = lambda d: (lambda avail: (next(it, avail), 0)) if d == 'c2s' else make_plan(r, 'all')
            tr, proto = await net.connect(_Raw, '10.0.0.1', 3333)
            conn = net.connections[-1]
            tr.write(raw)
            await asyncio.sleep(0.2)        # virtual; the clock only moves once every fragment is delivered and all file reads are done
            v = request_verdict(bytes(conn.s2c.wire), conn.server_tr._lost or conn.server_tr._closing, h, content)
            tr.close()
            return v
        sizes = [cap - 1, cap, cap + 1, cap + r.randrange(2, cap - 2), 2 * cap - 2, 2 * cap - 1 + r.randrange(0, 3000), r.randrange(400, cap - 1)]
        r.shuffle(sizes)
        verdicts = {}
        for size in sizes + [None]:        # None: the plain request, last ("keeps serving others")
            raw = padded_request(r, h, kind, size)
            whole = plain = await exchange(raw, [len(raw)])
            verdicts[len(raw)] = whole
            rec.hit('X7.refused_whole' if whole == 'refused' else 'X7.served_whole' if whole == 'served' else 'X7.other_whole')
            if whole == 'served' and len(raw) >= cap:
                rec.log('X7.request_of_cap_size_or_more_answered_in_one_segment')
            if whole == 'refused' and len(raw) < cap:
                rec.log('X7.request_below_cap_refused_in_one_segment')
            for style, frags in fragmentations(r, len(raw), cap).items():
                got = await exchange(raw, frags)
                rec.hit('X7.request_verdict_checked')
                if len(raw) >= cap and max(frags) < cap:
                    rec.hit('X7.oversized_in_fragments_below_cap')
                if got != whole:
                    mech = ('refused-request-answered-when-fragmented' if whole == 'refused' else
                            'served-request-not-served-when-fragmented' if whole == 'served' else 'verdict-depends-on-fragmentation')
                    rec.violation(f'C10/X7/{mech}/{kind}',
                                  f'a {len(raw)}-byte download request for a held blob ({kind}; the server\'s request cap is {cap}) sent in one '
                                  f'segment is {whole}, the same bytes cut as {style} ({len(frags)} fragments: {frags[:4]}{"..." if len(frags) > 4 else ""}) are {got}',
                                  {'request_bytes': len(raw), 'padding': kind, 'cap': cap, 'fragmentation': style, 'first_fragments': frags[:6],
                                   'whole': whole, 'fragmented': got, 'request_head': raw[:80]})
        if plain != 'served':
            rec.violation('C10/X5/plain-request-not-served-after-oversized-requests',
                          f'after {len(sizes)} padded requests on other connections the plain {len(raw)}-byte request for the held blob is {plain}',
                          {'padding': kind, 'verdicts': sorted(verdicts.items())})
        for conn in net.connections:
            check_wire(rec, conn.s2c.wire, held, conn.server_tr._lost, f'request_cap:{kind}')
        rec.case(['request_cap', kind, sorted(verdicts)], sample={'arrangement': 'request_cap', 'padding': kind, 'cap': cap, 'blob_length': len(content),
                                                                   'verdict_by_request_size': sorted(verdicts.items()), 'connections': len(net.connections)})
        server.stop_server()
        sbm.stop()
        await sst.close()
    finally:
        shutil.rmtree(base, ignore_errors=True)


# ------------------------------------------------------------------------------ arrangement (vii): slow link, configured timeouts
async def _slow_link(rec, case, loop):
    """the real BlobServer configured with idle_timeout != transfer_timeout, on a link with a finite send window.  (a) an honest client
    that reads slowly - the transfer lasts T, inside transfer_timeout and where possible longer than idle_timeout - still ends with the
    verified blob, and so does its next request on that connection; (b) a reader that stalls mid-blob, and a connection that never says
    anything, are closed by idle_timeout + transfer_timeout while an honest client is served; (c) X4 on every connection."""
    boot.import_lbry()
    from lbry.blob_exchange.server import BlobServer
    from lbry.blob_exchange.client import request_blob
    from lbry.blob_exchange.serialization import BlobRequest
    r = random.Random(case['seed'])
    idle, xfer = case['timeouts']
    base = tempfile.mkdtemp(dir=_TMP['dir'])
    net = memnet.Net(loop)
    net.install()
    serve_in_memory(net, loop, windowed=True)
    try:
        sbm, sst, sdir = await make_manager(loop, base, 'server')
        cbm, cst, cdir = await make_manager(loop, base, 'client')
        big = r.randbytes(r.choice([150000, 200000, 300000, 300000, 2 ** 20]))      # more than the send window; 2 MiB transfers: honest family
        smalls = [blob_content(r, 'small'), blob_content(r, 'small')]
        held = {}
        for c in [big] + smalls:
            held[await add_blob(sbm, c)] = c
        hb, hs, hs2 = list(held)
        server = BlobServer(loop, sbm, 'bQEaw42GXsgCAGio1nxFncJSyRmnztSCjP', idle_timeout=idle, transfer_timeout=xfer)
        server.start_server(3333, '10.0.0.1')
        await server.started_listening.wait()
        pt = max(idle, xfer) + 100      # the client is patient: only the server's timeouts are under test here
        # ---- (a) slow honest reader
        T = idle + (xfer - idle) * r.uniform(0.2, 0.7) if idle < xfer else xfer * r.uniform(0.2, 0.7)
        step = r.choice([4096, 16384, 65536])
        net.link_pace = T * step / len(big)
        net.plan_factory = lambda d: (lambda avail: (step, 0)) if d == 's2c' else make_plan(r, 'all')
        known = r.random() < 0.5
        blob = cbm.get_blob(hb, len(big) if known else None)
        t0 = loop.time()
        try:
            got, protocol = await request_blob(loop, blob, '10.0.0.1', 3333, CT, pt)
        except asyncio.CancelledError:
            rec.log('request_blob_cancelled.slow_link')
            got, protocol = 0, None
        except Exception as e:  # noqa
            rec.violation(f'C10/X8/request_blob-raised/{type(e).__name__}', f'slow honest transfer raised {e!r}', {'timeouts': [idle, xfer], 'T': T})
            return
        dt = loop.time() - t0
        rec.hit('X1.checked')
        rec.hit('X8.slow_transfer_checked')
        ok = blob.get_is_verified()
        if ok:
            if dt > idle:
                rec.hit('X8.slow_transfer_longer_than_idle_timeout')
            with open(os.path.join(cdir, hb), 'rb') as f:
                if f.read() != big:
                    rec.violation('C10/X1/verified-blob-bytes-differ/slow_link', 'verified blob differs from what the server holds', {})
                    return
        else:
            rec.violation(f'C10/X8/slow-honest-transfer-cut/{"longer" if T > idle else "shorter"}-than-idle-timeout',
                          f'server configured idle_timeout={idle} transfer_timeout={xfer} holds a {len(big)}-byte blob; an honest client whose link '
                          f'lets the transfer take {T:.1f} virtual s (< transfer_timeout) ended unverified after {dt:.1f} s, the server having '
                          f'written {net.connections[0].s2c.total} bytes (header included)',
                          {'idle_timeout': idle, 'transfer_timeout': xfer, 'transfer_needs_s': round(T, 2), 'ended_after_s': round(dt, 2),
                           'server_wrote': net.connections[0].s2c.total, 'length': len(big), 'known_length': known, 'fragment': step})
        first = net.connections[0]
        if protocol is not None:
            # the next request: on the same connection, or - when the server has meanwhile closed it as idle (its last bytes were still under
            # way on the slow link when its idle_timeout ran out: the keep-alive race, no fault of either side) - once more on a new one
            blob2 = cbm.get_blob(hs)
            for attempt in (1, 2):
                try:
                    _, protocol = await request_blob(loop, blob2, '10.0.0.1', 3333, CT, pt, connected_protocol=protocol)
                except asyncio.CancelledError:
                    protocol = None
                if blob2.get_is_verified() or attempt == 2 or not (first.server_tr._closing or first.server_tr._lost):
                    break
                rec.log('X8.next_request_crossed_the_idle_close')
                protocol = None
            if not blob2.get_is_verified():
                rec.violation('C10/X8/next-request-after-slow-transfer-failed', f'the request for a {len(smalls[0])}-byte blob after a {dt:.1f} s '
                              f'transfer (idle_timeout={idle}, transfer_timeout={xfer}) did not end verified (attempts: {attempt}, connections: '
                              f'{len(net.connections)})', {'idle_timeout': idle, 'transfer_timeout': xfer, 'slow_transfer_s': round(dt, 2),
                                                           'attempts': attempt, 'connections': len(net.connections)})
            elif len(net.connections) == 1:
                rec.hit('X2.sequential_on_one_connection')
        t_last = loop.time()
        # ---- (b) a reader that stalls mid-blob, a silent connection, an honest client meanwhile
        net.plan_factory = lambda d: make_plan(r, 'all')
        net.link_pace = 0.0
        stall_tr, _ = await windowed_connect(net, _Raw, '10.0.0.1', 3333)
        stalled = net.connections[-1]
        stall_tr.pause_reading()
        stall_tr.write(BlobRequest.make_request_for_blob_hash(hb).serialize())
        silent_tr, _ = await windowed_connect(net, _Raw, '10.0.0.1', 3333)
        silent = net.connections[-1]
        t_b = loop.time()
        await asyncio.sleep(min(idle, xfer) / 2)
        blob3 = cbm.get_blob(hs2)
        try:
            _, protocol3 = await request_blob(loop, blob3, '10.0.0.1', 3333, CT, pt)
        except asyncio.CancelledError:
            protocol3 = None
        if not blob3.get_is_verified():
            rec.violation('C10/X5/honest-download-failed-during-hostile-client/stalled_reader', 'honest client could not download while another '
                          'connection was stalled mid-blob', {'idle_timeout': idle, 'transfer_timeout': xfer})
        else:
            rec.hit('X5.concurrent_honest_ok')
        if protocol3:
            protocol3.close()
        deadline = idle + xfer
        await asyncio.sleep(deadline + 1)
        rec.hit('X8.stalled_reader_checked')
        rec.hit('X8.silent_connection_checked')
        if stalled.s2c.total >= len(big):
            rec.log('X8.window_did_not_hold_the_blob_back')
        for name, conn, since, tight in (('stalled_reader', stalled, t_b, xfer), ('silent', silent, t_b, idle), ('idle_after_transfer', first, t_last, idle)):
            st = conn.server_tr
            if not st._lost and not st._closing:
                rec.violation(f'C10/X3/server-connection-left-open/{name}', f'server (idle_timeout={idle}, transfer_timeout={xfer}) still holds the '
                              f'{name} connection {loop.time() - since:.1f} virtual s after its last byte', {'idle_timeout': idle, 'transfer_timeout': xfer})
            elif st.closed_at is not None and st.closed_at - since > tight + 1:
                rec.log(f'X8.{name}_closed_later_than_its_own_timeout')
        stall_tr.resume_reading()
        await asyncio.sleep(0.01)
        for conn in net.connections:
            check_wire(rec, conn.s2c.wire, held, conn.server_tr._lost, 'slow_link')
        rec.case(['slow_link', idle, xfer, len(big), step, known],
                 sample={'arrangement': 'slow_link', 'idle_timeout': idle, 'transfer_timeout': xfer, 'length': len(big), 'fragment': step,
                         'transfer_virtual_s': round(dt, 2), 'verified': ok,
                         'stalled_reader_closed_after_s': None if stalled.server_tr.closed_at is None else round(stalled.server_tr.closed_at - t_b, 2),
                         'stalled_reader_got_bytes': stalled.s2c.total,
                         'silent_closed_after_s': None if silent.server_tr.closed_at is None else round(silent.server_tr.closed_at - t_b, 2)})
        for t in (stall_tr, silent_tr):
            t.close()
        if protocol:
            protocol.close()
        server.stop_server()
        sbm.stop()
        cbm.stop()
        await sst.close()
        await cst.close()
    finally:
        shutil.rmtree(base, ignore_errors=True)


def execute(rec, case):
    fam = {'honest': _honest, 'liar': _liar, 'hostile_client': _hostile_client, 'race': _race, 'pair': _pair, 'request_cap': _request_cap,
           'slow_link': _slow_link, 'stream': _stream}[case['fam']]
    vclock.run(lambda loop: fam(rec, case, loop), wall_timeout=300)

"""C09 — wallet sync converges to the server's view.  [H+M]
Real Ledger.update_history / process_status_update / subscribe_addresses, real Database and real Account
gap logic; the harness is the server: a toy UTXO chain (blocks + mempool, independent tx encoder
vlib/ref/btc_tx.py, reference addresses from vlib/ref/bip32.py) grown in stages, status notifications
delivered in seeded random order, concurrently, with chaos yields on every network and sqlite call.
Oracle: reference ledger over the same chain (Y1-Y6, DESIGN §4 C09)."""
import asyncio
import hashlib
import random

from vlib import boot, chaos as chaos_mod, walletfx
from vlib.ref import bip32 as B, btc_tx as T, headers as R, merkle as M

ID = 'C09'
LEVEL = 'exploration'
RULE = ('case = scenario (1-2 accounts, gap setting, 3-6 stages of 3-14 transactions: fund / spend / re-spend / claim / update / abandon / '
        'support / purchase / sweep of unconfirmed parents, third-party outputs of every template kind, mempool->block transitions) replayed '
        'under 3 delivery schedules. evaluations = (scenario, schedule, stage) observations. distinct = hash(scenario seed, schedule '
        'interleaving signature, stage); non-trivial = stage contains a cross-address spend or a gap extension or a mempool transition')
ASSUMPTIONS = ['the fake server follows the Electrum/LBRY-hub address-status protocol: history = confirmed by (height, position) then mempool '
               '(height 0, or -1 with unconfirmed inputs); claim/support/update outputs are indexed under the address they pay',
               'server never retracts a transaction, <= 100 transactions per address (as the property quantifies)',
               'wallet addresses for funding are derived by the independent BIP32 reference, not read from the wallet',
               'headers are a mined sim chain connected through the real validator so that Merkle proofs are really checked']
REQUIRED_HITS = ['Y1.checked', 'Y2.checked', 'Y3.checked', 'Y4.checked', 'Y5.schedules_compared', 'stage.cross_address_spend',
                 'stage.change_notified_before_spent_address', 'stage.mempool_to_block', 'stage.gap_extension', 'stage.funded_at_gap_edge',
                 'tx.claim', 'tx.update', 'tx.support', 'tx.purchase', 'stream.stages', 'stream.notified_while_same_address_update_in_flight', 'tx.unconfirmed_parent', 'third_party.p2pk', 'third_party.p2sh',
                 'third_party.segwit', 'third_party.op_return', 'third_party.claim_script_hash', 'chaos.points']
MAXT = (1 << 255) - 1
PREFIX = b'\x55'
_S = {}


def plan(tier):
    return {'shards': 16, 'budget_s': 55 if tier == 'quick' else 800}


def shard_setup(rec, tier):
    # reference address chains for the fixture seeds (account key = master from pbkdf2(mnemonic, 'lbryum'); address = m/chain/n)
    _S['addr'] = {}
    for si, phrase in enumerate(walletfx.SEEDS[:2]):
        seed = hashlib.pbkdf2_hmac('sha512', phrase.encode('utf8'), b'lbryum', 2048, 64)
        root = B.master(seed).neuter()
        for chain in (0, 1):
            node = root.ckd_pub(chain)
            lst = []
            for n in range(70 if chain == 0 else 40):
                h = B.hash160(node.ckd_pub(n).pub_bytes)
                lst.append((h, B.b58check_encode(PREFIX + h)))
            _S['addr'][(si, chain)] = lst


def gen_cases(rng, tier, shard, nshards):
    n = 14 if tier == 'quick' else 400
    for i in range(n):
        yield {'fam': 'scenario', 'seed': rng.getrandbits(48), 'odd': False}
    for i in range(2 if tier == 'quick' else 40):
        yield {'fam': 'scenario', 'seed': rng.getrandbits(48), 'odd': True}     # separately reported class: scripts matching no template


# ------------------------------------------------------------------------------ toy chain / reference ledger
class ToyChain:
    def __init__(self, r):
        self.r = r
        self.tx = {}            # txid -> dict(raw, ins[(txid,n)], outs[dict(amount, script, pays, kind)], height, order)
        self.blocks = [[]]      # height -> [txid]
        self.mempool = []       # txids in arrival order
        self.spent = {}         # (txid, n) -> spending txid
        self.order = 0

    def add(self, ins, outs):
        tins = []
        for (ptx, pn) in ins:
            tins.append(T.TxIn(bytes.fromhex(ptx)[::-1], pn, T.redeem_p2pkh(self.r.randbytes(71) + b'\x01', b'\x02' + self.r.randbytes(32))))
        tx = T.Tx(1, tins, [T.TxOut(o['amount'], o['script']) for o in outs], 0)
        raw = T.encode_legacy(tx)
        txid = T.txid(tx)
        unconf = any(p in self.tx and self.tx[p]['height'] <= 0 for p, _ in ins)
        self.order += 1
        self.tx[txid] = {'raw': raw, 'ins': list(ins), 'outs': outs, 'height': -1 if unconf else 0, 'order': self.order}
        self.mempool.append(txid)
        for i in ins:
            self.spent[i] = txid
        return txid

    def mine(self, txids=None):
        """confirms the given mempool txs (default: all whose parents are confirmed or in the same block, in arrival order)."""
        chosen = []
        for t in list(self.mempool):
            if txids is not None and t not in txids:
                continue
            parents_ok = all(p not in self.tx or self.tx[p]['height'] > 0 or p in chosen for p, _ in self.tx[t]['ins'])
            if parents_ok:
                chosen.append(t)
        h = len(self.blocks)
        self.blocks.append(chosen)
        for t in chosen:
            self.tx[t]['height'] = h
            self.mempool.remove(t)
        for t in self.mempool:      # remaining mempool txs: recompute unconfirmed-parent flag
            self.tx[t]['height'] = -1 if any(p in self.tx and self.tx[p]['height'] <= 0 for p, _ in self.tx[t]['ins']) else 0
        return h

    def touches(self, txid, h160):
        t = self.tx[txid]
        if any(o['pays'] == h160 for o in t['outs']):
            return True
        for p, n in t['ins']:
            if p in self.tx and self.tx[p]['outs'][n]['pays'] == h160:
                return True
        return False

    def history(self, h160):
        out = []
        for h, blk in enumerate(self.blocks):
            for t in blk:
                if self.touches(t, h160):
                    out.append((t, h))
        for t in self.mempool:
            if self.touches(t, h160):
                out.append((t, self.tx[t]['height']))
        return out

    def status(self, h160):
        hist = self.history(h160)
        if not hist:
            return None
        return hashlib.sha256(''.join(f'{t}:{h}:' for t, h in hist).encode()).hexdigest()

    def merkle(self, txid):
        t = self.tx[txid]
        h = t['height']
        if h <= 0:
            return {'block_height': h}
        blk = self.blocks[h]
        leaves = [bytes.fromhex(x)[::-1] for x in blk]
        i = blk.index(txid)
        return {'block_height': h, 'pos': i, 'merkle': [b[::-1].hex() for b in M.branch(leaves, i)]}


class Server:
    def __init__(self, chain, ch):
        from lbry.wallet.stream import StreamController
        self.chain, self.ch = chain, ch
        self.on_header = StreamController().stream
        self.on_status = StreamController().stream
        self.is_connected = True
        self.client = None
        self.subscribed = {}        # address -> hash160
        self.last_sent = {}         # address -> status last told to the wallet
        self.calls = {'subscribe': 0, 'history': 0, 'batch': 0}

    async def retriable_call(self, function, *args, **kwargs):
        return await function(*args, **kwargs)

    async def subscribe_address(self, address, *addresses):
        addresses = (address,) + addresses
        await self.ch.point('net:subscribe:pre')
        out = []
        for a in addresses:
            payload = B.b58check_decode(a)
            self.subscribed[a] = payload[1:]
            st = self.chain.status(payload[1:])
            self.last_sent[a] = st
            out.append(st)
        self.calls['subscribe'] += 1
        await self.ch.point('net:subscribe:post')
        return out

    async def get_history(self, address):
        await self.ch.point('net:history:pre')
        h = self.chain.history(self.subscribed[address])
        self.calls['history'] += 1
        await self.ch.point('net:history:post')
        return [{'tx_hash': t, 'height': hh} for t, hh in h]

    async def get_transaction_batch(self, txids, restricted=True):
        await self.ch.point('net:batch:pre')
        out = {t: (self.chain.tx[t]['raw'].hex(), self.chain.merkle(t)) for t in txids}
        self.calls['batch'] += 1
        await self.ch.point('net:batch:post')
        return out

    async def get_merkle(self, txid, height):
        return self.chain.merkle(txid)


# ------------------------------------------------------------------------------ scenario (pure data, replayed under several schedules)
def make_scenario(seed, odd):
    """returns the list of stages; each stage = list of steps ('tx', ins, outs) / ('mine', None) built against a model of the chain.
    All randomness lives here so that the same scenario can be replayed under different delivery schedules."""
    r = random.Random(seed)
    nacc = r.choice([1, 1, 2])
    gaps = r.choice([(3, 2), (5, 3), (20, 6), (2, 1)])
    chain = ToyChain(random.Random(seed + 1))
    used_max = {(a, c): -1 for a in range(nacc) for c in (0, 1)}
    owned = {}                 # (txid, n) -> dict(amount, kind, acct, chain, idx)
    stages = []
    flags_all = []
    claim_payload = bytes.fromhex('0a020a00')       # smallest stream claim (valid protobuf)
    hits = []

    def pick_addr(a, c, flags):
        gap = gaps[c]
        hi = used_max[(a, c)] + gap
        lst = _S['addr'][(a, c)]
        hi = min(hi, len(lst) - 1)
        mode = r.random()
        if mode < 0.35:
            idx = hi                    # the very edge of the gap
            flags.add('funded_at_gap_edge')
        elif mode < 0.6 and used_max[(a, c)] >= 0:
            idx = r.randrange(0, used_max[(a, c)] + 1)      # address reuse
        else:
            idx = r.randrange(0, hi + 1)
        if idx > used_max[(a, c)]:
            used_max[(a, c)] = idx
            flags.add('gap_extension')
        return lst[idx][0], (a, c, idx)

    def third_party(flags):
        kind = r.choice(['p2pk', 'p2pkh', 'p2sh', 'segwit', 'op_return', 'claim_script_hash', 'support_script_hash', 'update_script_hash'])
        hits.append('third_party.' + kind)
        h = r.randbytes(20)
        if kind == 'p2pk':
            s = T.p2pk(b'\x03' + r.randbytes(32))
        elif kind == 'p2pkh':
            s = T.p2pkh(h)
        elif kind == 'p2sh':
            s = T.p2sh(h)
        elif kind == 'segwit':
            s = T.witness_program(r.choice([h, r.randbytes(32)]))
        elif kind == 'op_return':
            s = T.op_return(r.randbytes(r.choice([1, 20, 75])))
        elif kind == 'claim_script_hash':
            s = T.claim_name(b'other', claim_payload, T.p2sh(h))
        elif kind == 'support_script_hash':
            s = T.support_claim(b'other', r.randbytes(20), T.p2sh(h))
        else:
            s = T.update_claim(b'other', r.randbytes(20), claim_payload, T.p2sh(h))
        return {'amount': r.randrange(0 if kind == 'op_return' else 1, 10 ** 7), 'script': s, 'pays': None, 'kind': 'other'}

    def odd_output():
        k = r.choice(['bare_multisig', 'op_true', 'random', 'p2pkh_with_trailing_op'])
        hits.append('odd.' + k)
        if k == 'bare_multisig':
            s = T.multisig_script(1, [b'\x02' + r.randbytes(32), b'\x03' + r.randbytes(32)])
        elif k == 'op_true':
            s = b'\x51'
        elif k == 'random':
            s = bytes([0x6b, 0x6c, 0x75]) + bytes([0x61] * r.randrange(1, 5))        # OP_TOALTSTACK OP_FROMALTSTACK OP_DROP OP_NOP...
        else:
            s = T.p2pkh(r.randbytes(20)) + b'\x61'
        return {'amount': r.randrange(1, 10 ** 6), 'script': s, 'pays': None, 'kind': 'other'}

    def own_out(amount, kind, flags, chain_pref=None):
        a = r.randrange(nacc)
        c = chain_pref if chain_pref is not None else r.choice([0, 0, 1])
        h, where = pick_addr(a, c, flags)
        tail = T.p2pkh(h)
        if kind == 'pay':
            s = tail
        elif kind == 'claim':
            s = T.claim_name(r.choice([b'name', b'a', 'ünï'.encode()]), claim_payload if r.random() < 0.7 else r.randbytes(9), tail)
        elif kind == 'update':
            s = T.update_claim(b'name', r.randbytes(20), claim_payload, tail)
        elif kind == 'support':
            s = T.support_claim(b'name', r.randbytes(20), tail) if r.random() < 0.6 else \
                T.support_claim_data(b'name', r.randbytes(20), b'\x0a\x00', tail)
        return {'amount': amount, 'script': s, 'pays': h, 'kind': kind, 'where': where}

    nst = r.randrange(3, 7)
    for st in range(nst):
        steps, flags = [], set()
        ntx = r.randrange(3, 15)
        for _ in range(ntx):
            spendable = [k for k, v in owned.items() if k not in chain.spent and v['kind'] == 'pay']
            locked = [k for k, v in owned.items() if k not in chain.spent and v['kind'] in ('claim', 'update', 'support')]
            kind = r.choice(['fund', 'fund', 'spend', 'spend', 'spend', 'claim', 'update', 'abandon', 'support', 'purchase_in', 'purchase_out',
                             'sweep'])
            if kind != 'fund' and kind != 'purchase_in' and not spendable:
                kind = 'fund'
            ins, outs = [], []
            if kind == 'fund':
                ins = [(r.randbytes(32).hex(), r.randrange(3))]
                outs = [own_out(r.randrange(1000, 10 ** 9), 'pay', flags) for _ in range(r.choice([1, 1, 2, 3]))]
            elif kind in ('spend', 'sweep'):
                pool = spendable
                if kind == 'sweep':
                    unconf = [k for k in spendable if chain.tx[k[0]]['height'] <= 0]
                    pool = unconf or spendable
                ins = r.sample(pool, min(len(pool), r.choice([1, 1, 2, 3])))
                total = sum(owned[i]['amount'] for i in ins)
                outs = [{'amount': max(1, total // 3), 'script': T.p2pkh(r.randbytes(20)), 'pays': None, 'kind': 'other'}]
                if total > 3000:
                    outs.append(own_out(total // 2, 'pay', flags, chain_pref=1))
            elif kind == 'claim':
                ins = [r.choice(spendable)]
                total = owned[ins[0]]['amount']
                outs = [own_out(max(1, total // 4), 'claim', flags, chain_pref=0)]
                if total > 3000:
                    outs.append(own_out(total // 2, 'pay', flags, chain_pref=1))
                hits.append('tx.claim')
            elif kind == 'update':
                cl = [k for k in locked if owned[k]['kind'] in ('claim', 'update')]
                if not cl:
                    continue
                ins = [r.choice(cl)]
                outs = [own_out(owned[ins[0]]['amount'], 'update', flags, chain_pref=0)]
                hits.append('tx.update')
            elif kind == 'abandon':
                if not locked:
                    continue
                ins = [r.choice(locked)]
                outs = [own_out(max(1, owned[ins[0]]['amount'] - 100), 'pay', flags)]
            elif kind == 'support':
                ins = [r.choice(spendable)]
                total = owned[ins[0]]['amount']
                outs = [own_out(max(1, total // 3), 'support', flags, chain_pref=0)]
                if total > 3000:
                    outs.append(own_out(total // 3, 'pay', flags, chain_pref=1))
                hits.append('tx.support')
            elif kind == 'purchase_in':
                ins = [(r.randbytes(32).hex(), 0)]
                outs = [own_out(r.randrange(1000, 10 ** 8), 'pay', flags, chain_pref=0),
                        {'amount': 0, 'script': T.op_return(b'P' + b'\x0a\x14' + r.randbytes(20)), 'pays': None, 'kind': 'other'}]
                hits.append('tx.purchase')
            elif kind == 'purchase_out':
                ins = [r.choice(spendable)]
                total = owned[ins[0]]['amount']
                outs = [{'amount': max(1, total // 3), 'script': T.p2pkh(r.randbytes(20)), 'pays': None, 'kind': 'other'},
                        {'amount': 0, 'script': T.op_return(b'P' + b'\x0a\x14' + r.randbytes(20)), 'pays': None, 'kind': 'other'}]
                if total > 3000:
                    outs.append(own_out(total // 2, 'pay', flags, chain_pref=1))
                hits.append('tx.purchase')
            if r.random() < 0.5:
                outs.insert(r.randrange(len(outs) + 1) if kind not in ('purchase_in', 'purchase_out') else len(outs), third_party(flags))
            if odd and r.random() < 0.3:
                outs.append(odd_output())
                flags.add('odd_output')
            if any(i in owned for i in ins):
                addrs_in = {owned[i]['where'] for i in ins if i in owned}
                addrs_out = {o['where'] for o in outs if o.get('where')}
                if addrs_out - addrs_in:
                    flags.add('cross_address_spend')
            if any(i[0] in chain.tx and chain.tx[i[0]]['height'] <= 0 for i in ins):
                hits.append('tx.unconfirmed_parent')
            txid = chain.add(ins, outs)
            for n, o in enumerate(outs):
                if o['pays'] is not None:
                    owned[(txid, n)] = {'amount': o['amount'], 'kind': o['kind'], 'where': o['where']}
            steps.append(('tx', txid))
            if r.random() < 0.2:
                if chain.mempool and any(chain.tx[t]['order'] < chain.order for t in chain.mempool):
                    flags.add('mempool_to_block')
                steps.append(('mine', chain.mine()))
        if r.random() < 0.6 and chain.mempool:
            flags.add('mempool_to_block')
            steps.append(('mine', chain.mine()))
        stages.append(steps)
        flags_all.append(flags)
    return {'nacc': nacc, 'gaps': gaps, 'chain': chain, 'owned': owned, 'stages': stages, 'flags': flags_all, 'hits': hits}


def replay_chain_prefix(full, upto_stage):
    """rebuilds the server's chain state as it is after `upto_stage` stages (the scenario was generated in one go)."""
    c = ToyChain(random.Random(0))
    for st in full['stages'][:upto_stage + 1]:
        for kind, arg in st:
            if kind == 'tx':
                t = full['chain'].tx[arg]
                # re-insert with the recorded raw bytes / ids
                unconf = any(p in c.tx and c.tx[p]['height'] <= 0 for p, _ in t['ins'])
                c.order += 1
                c.tx[arg] = {'raw': t['raw'], 'ins': t['ins'], 'outs': t['outs'], 'height': -1 if unconf else 0, 'order': c.order}
                c.mempool.append(arg)
                for i in t['ins']:
                    c.spent[i] = arg
            else:
                c.mine()
    return c


# ------------------------------------------------------------------------------ one run of a scenario under one schedule
async def run_schedule(rec, scen, sched_seed, case):
    boot.import_lbry()
    from lbry.wallet import Wallet, Account, Ledger, Database
    from lbry.wallet.header import Headers
    r = random.Random(sched_seed)
    ch = chaos_mod.Chaos(sched_seed, max_yields=5)
    # ---- headers: mined sim chain grown together with the toy chain
    hchain = []

    def mine_header(root):
        h = len(hchain)
        if h == 0:
            target, bits, prev_hash = MAXT, R.target_to_compact(MAXT), bytes(32)
        else:
            prev = R.unpack(hchain[-1])
            pp = R.unpack(hchain[-2]) if h >= 2 else None
            target = R.next_target(MAXT, pp, prev)
            bits, prev_hash = R.target_to_compact(target), R.header_hash(hchain[-1])
        hchain.append(R.mine(1, prev_hash, root, bytes(32), 1_600_000_000 + 900 * h, bits, min(target, R.compact_to_target(bits))))
        return hchain[-1]
    g = mine_header(bytes(32))

    class SimHeaders(Headers):
        max_target = MAXT
        genesis_hash = R.header_hash_hex(g).encode()
        checkpoints = {}
    hdrs = SimHeaders(':memory:')
    await hdrs.open()
    await hdrs.connect(0, g)
    chain = ToyChain(random.Random(0))
    server = Server(chain, ch)
    ledger = Ledger({'db': Database(':memory:'), 'headers': hdrs, 'network': server})
    hdrs.checkpoints = {}
    await ledger.db.open()
    died = []
    orig_update = ledger.update_history

    inflight = {}

    async def watched_update(address, remote_status, *a, **k):
        inflight[address] = inflight.get(address, 0) + 1
        try:
            return await orig_update(address, remote_status, *a, **k)
        except asyncio.CancelledError:
            raise
        except BaseException as e:
            import traceback
            tb = traceback.extract_tb(e.__traceback__)
            inner = [f for f in tb if '/lbry/' in f.filename][-1:] or tb[-1:]
            died.append((type(e).__name__, f'{inner[0].filename.split("/lbry/")[-1]}:{inner[0].name}', str(e)[:200]))
            raise
        finally:
            inflight[address] -= 1
    ledger.update_history = watched_update
    chaos_mod.install_db(ch)
    observations = []
    try:
        wallet = Wallet()
        accounts = []
        for i in range(scen['nacc']):
            d = {"seed": walletfx.SEEDS[i], "name": f"acct{i}",
                 "address_generator": {"name": "deterministic-chain",
                                       "receiving": {"gap": scen['gaps'][0], "maximum_uses_per_address": 1},
                                       "change": {"gap": scen['gaps'][1], "maximum_uses_per_address": 1}}}
            acc = Account.from_dict(ledger, wallet, d)
            accounts.append(acc)
            await ledger.subscribe_account(acc)
        await _quiesce(ledger)
        streaming = bool(case.get('streaming', sched_seed % 3 == 2))
        overlapped = set()
        # pauses between two steps of the server, in loop iterations: from "all at once" to "longer than one address update takes", so
        # that a third notification for an address can arrive after the first update ended and while the second is running
        gaps = r.choice([[0, 0, 1, 2, 5, 12], [5, 20, 60, 150], [30, 100, 300, 600], [0, 10, 100, 400]])

        def notify_now():
            # streaming delivery: the status of every address the last step touched goes out at once, while the wallet may still be
            # working on earlier notifications for the same address (its history changes between two of its own history requests)
            out = []
            for a, h160 in list(server.subscribed.items()):
                st = chain.status(h160)
                if st != server.last_sent.get(a):
                    server.last_sent[a] = st
                    out.append((a, st))
            r.shuffle(out)
            for a, st in out:
                if inflight.get(a):
                    overlapped.add(a)
                ledger.process_status_update((a, st))
            return out

        for si, steps in enumerate(scen['stages']):
            # ---- the server's chain grows
            for kind, arg in steps:
                if kind == 'tx':
                    t = scen['chain'].tx[arg]
                    unconf = any(p in chain.tx and chain.tx[p]['height'] <= 0 for p, _ in t['ins'])
                    chain.order += 1
                    chain.tx[arg] = {'raw': t['raw'], 'ins': t['ins'], 'outs': t['outs'], 'height': -1 if unconf else 0, 'order': chain.order}
                    chain.mempool.append(arg)
                    for i in t['ins']:
                        chain.spent[i] = arg
                else:
                    h = chain.mine()
                    blk = chain.blocks[h]
                    root = M.root([bytes.fromhex(x)[::-1] for x in blk]) if blk else bytes(32)
                    raw = mine_header(root)
                    ch.enabled = False
                    added = await hdrs.connect(h, raw)
                    ch.enabled = True
                    if added != 1:
                        raise RuntimeError('harness: sim header rejected')
                if streaming:
                    notify_now()
                    for _ in range(r.choice(gaps)):
                        await asyncio.sleep(0)
            if streaming:
                rec.hit('stream.stages')
                if overlapped:
                    rec.hit('stream.notified_while_same_address_update_in_flight', len(overlapped))
                    overlapped.clear()
            # ---- notifications for every subscribed address whose status changed, in seeded random order, concurrently
            changed = []
            for a, h160 in list(server.subscribed.items()):
                st = chain.status(h160)
                if st != server.last_sent.get(a):
                    server.last_sent[a] = st
                    changed.append((a, st))
            r.shuffle(changed)
            flags = scen['flags'][si]
            # does some change/output address get notified before the address whose output was spent? (measured, not assumed)
            pos_of = {a: i for i, (a, _) in enumerate(changed)}
            for kind, arg in steps:
                if kind != 'tx':
                    continue
                t = chain.tx[arg]
                a_in = {B.b58check_encode(PREFIX + chain.tx[p]['outs'][n]['pays']) for p, n in t['ins']
                        if p in chain.tx and chain.tx[p]['outs'][n]['pays'] is not None}
                a_out = {B.b58check_encode(PREFIX + o['pays']) for o in t['outs'] if o['pays'] is not None} - a_in
                if any(x in pos_of and y in pos_of and pos_of[x] < pos_of[y] for x in a_out for y in a_in):
                    rec.hit('stage.change_notified_before_spent_address')
                    break
            for a, st in changed:
                ledger.process_status_update((a, st))
                for _ in range(r.choice([0, 0, 1, 3])):
                    await asyncio.sleep(0)
            await _quiesce(ledger)
            ch.enabled = False
            obs = await observe(ledger, accounts, scen)
            ch.enabled = True
            observations.append(obs)
            ok = judge(rec, scen, chain, server, obs, si, died, case, sched_seed)
            for f in flags:
                rec.hit('stage.' + f)
            rec.case([case['seed'], ch.signature(), si],
                     nontrivial=bool(flags & {'cross_address_spend', 'gap_extension', 'mempool_to_block'}),
                     sample={'scenario_seed': case['seed'], 'stage': si, 'txs_in_chain': len(chain.tx), 'blocks': len(chain.blocks),
                             'mempool': len(chain.mempool), 'subscribed_addresses': len(server.subscribed), 'notified': len(changed),
                             'flags': sorted(flags), 'balance': obs['spendable'], 'chaos_points': ch.points,
                             'server_calls': dict(server.calls)} if si == len(scen['stages']) - 1 else None)
            if not ok:
                break
        rec.hit('chaos.points', ch.points)
    finally:
        chaos_mod.uninstall_db()
        ledger._update_tasks.cancel()
        await ledger.db.close()
    return observations


async def _quiesce(ledger):
    for _ in range(10000):
        if len(ledger._update_tasks):
            await ledger._update_tasks.done.wait()
        for _ in range(3):
            await asyncio.sleep(0)
        if not len(ledger._update_tasks):
            return
    raise RuntimeError('harness watchdog: update tasks never drained')


async def observe(ledger, accounts, scen):
    obs = {'history': {}, 'spendable': 0, 'total': 0, 'utxos': set(), 'chains': {}}
    rows = await ledger.db.db.execute_fetchall("select address, history, used_times, account, chain, n from pubkey_address "
                                               "join account_address using (address)")
    id_to_i = {a.id: i for i, a in enumerate(accounts)}
    for row in rows:
        obs['history'][row['address']] = row['history'] or ''
        key = (id_to_i[row['account']], row['chain'])
        obs['chains'].setdefault(key, []).append((row['n'], row['address'], row['used_times'] or 0))
    for acc in accounts:
        obs['spendable'] += await acc.get_balance()
        obs['total'] += await acc.get_balance(include_claims=True)
        for t in await acc.get_utxos():
            obs['utxos'].add(t.id)
    return obs


def judge(rec, scen, chain, server, obs, stage, died, case, sched_seed):
    odd = case.get('odd')
    suffix = '/scenario-with-no-template-output' if odd else ''
    ok = True
    # ---- Y6: no update task died
    if died:
        kinds = sorted({f'{d[0]}@{d[1]}' for d in died})
        rec.violation(f'C09/Y6/update-task-died/{kinds[0]}{suffix}',
                      f'stage {stage}: {len(died)} address update task(s) died: {died[0][0]} at {died[0][1]}: {died[0][2]}',
                      {'died': died[:3], 'stage': stage, 'schedule_seed': sched_seed})
        return False
    # ---- reference view
    owned = {}
    for txid, t in chain.tx.items():
        for n, o in enumerate(t['outs']):
            if o['pays'] is not None:
                owned[(txid, n)] = o
    unspent = {k: o for k, o in owned.items() if k not in chain.spent}
    want_spendable = sum(o['amount'] for o in unspent.values() if o['kind'] == 'pay')
    want_total = sum(o['amount'] for o in unspent.values())
    want_utxos = {f'{k[0]}:{k[1]}' for k, o in unspent.items() if o['kind'] == 'pay'}
    # ---- Y4a: every address the server funded is known to the wallet (discovered)
    rec.hit('Y4.checked')
    known = {}
    for (ai, c), lst in obs['chains'].items():
        for n, address, used in lst:
            known[address] = (ai, c, n, used)
    for (ai, c), lst in _S['addr'].items():
        if ai >= scen['nacc']:
            continue
        for n, (h160, address) in enumerate(lst):
            hist = chain.history(h160)
            if hist and address not in known:
                rec.violation(f'C09/Y4/funded-address-within-gap-not-discovered{suffix}',
                              f'stage {stage}: address chain {c} index {n} has {len(hist)} transactions on the server but the wallet never generated/subscribed it '
                              f'(gap {scen["gaps"][c]})', {'chain': c, 'n': n, 'gap': scen['gaps'][c], 'known_max': max([x[0] for x in obs['chains'].get((ai, c), [(0,)])])})
                return False
    # ---- Y1: stored history == server history
    rec.hit('Y1.checked')
    for address, (ai, c, n, used) in known.items():
        h160 = _S['addr'][(ai, c)][n][0] if n < len(_S['addr'][(ai, c)]) else None
        if h160 is None:
            continue
        ref_addr = _S['addr'][(ai, c)][n][1]
        if ref_addr != address:
            rec.violation('C09/Y4/wallet-address-differs-from-reference-derivation', f'chain {c} index {n}: wallet {address}, reference {ref_addr}', {})
            return False
        want = ''.join(f'{t}:{h}:' for t, h in chain.history(h160))
        if obs['history'].get(address, '') != want:
            rec.violation(f'C09/Y1/stored-history-differs-from-server{suffix}',
                          f'stage {stage}: history of address chain {c} index {n} differs: server has {want.count(":") // 2} entries, wallet stored '
                          f'{obs["history"].get(address, "").count(":") // 2}',
                          {'chain': c, 'n': n, 'server': want[:400], 'wallet': obs['history'].get(address, '')[:400], 'schedule_seed': sched_seed})
            ok = False
            break
    # ---- Y2 balance, Y3 spendable set
    rec.hit('Y2.checked')
    if ok and (obs['spendable'] != want_spendable or obs['total'] != want_total):
        rec.violation(f'C09/Y2/balance-differs{suffix}',
                      f'stage {stage}: spendable {obs["spendable"]} (reference {want_spendable}), total incl. claims/supports {obs["total"]} (reference {want_total})',
                      {'spendable': obs['spendable'], 'want_spendable': want_spendable, 'total': obs['total'], 'want_total': want_total,
                       'schedule_seed': sched_seed})
        ok = False
    rec.hit('Y3.checked')
    if ok and obs['utxos'] != want_utxos:
        rec.violation(f'C09/Y3/spendable-set-differs{suffix}',
                      f'stage {stage}: get_utxos() has {len(obs["utxos"] - want_utxos)} extra and lacks {len(want_utxos - obs["utxos"])} outputs',
                      {'extra': sorted(obs['utxos'] - want_utxos)[:4], 'missing': sorted(want_utxos - obs['utxos'])[:4], 'schedule_seed': sched_seed})
        ok = False
    # ---- Y4b: each chain ends with >= gap unused addresses
    for (ai, c), lst in obs['chains'].items():
        lst = sorted(lst)
        trailing = 0
        for n, address, used in reversed(lst):
            h160 = _S['addr'][(ai, c)][n][0] if n < len(_S['addr'][(ai, c)]) else None
            if h160 is not None and chain.history(h160):
                break
            trailing += 1
        if ok and trailing < scen['gaps'][c]:
            rec.violation(f'C09/Y4/gap-not-maintained{suffix}',
                          f'stage {stage}: chain {c} ends with {trailing} unused addresses, gap is {scen["gaps"][c]} ({len(lst)} generated)',
                          {'chain': c, 'trailing': trailing, 'gap': scen['gaps'][c], 'generated': len(lst)})
            ok = False
    return ok


async def _case(rec, case):
    scen = make_scenario(case['seed'], case.get('odd'))
    for h in scen['hits']:
        rec.hit(h)
    finals = []
    for k in range(3):
        if rec.out_of_time() and k > 0:
            break
        obs = await run_schedule(rec, scen, case['seed'] * 7 + k, case)
        if len(obs) == len(scen['stages']):
            o = obs[-1]
            finals.append((sorted(o['history'].items()), o['spendable'], o['total'], sorted(o['utxos'])))
    if len(finals) >= 2:
        rec.hit('Y5.schedules_compared')
        if any(f != finals[0] for f in finals[1:]):
            rec.violation('C09/Y5/final-state-depends-on-delivery-order', 'the same staged chain under different notification schedules ended in different wallet states',
                          {'scenario_seed': case['seed']})


def execute(rec, case):
    walletfx.run(_case(rec, case), timeout=900)

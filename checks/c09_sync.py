"""C09 — wallet sync converges to the server's view.  [H+M]
Real Ledger.update_history / process_status_update / subscribe_addresses, real Database and real Account
gap logic; the harness is the server: a toy UTXO chain (blocks + mempool, independent tx encoder
vlib/ref/btc_tx.py, reference addresses from vlib/ref/bip32.py) grown in stages, status notifications
delivered in seeded random order, concurrently, with chaos yields on every network and sqlite call.
Block headers reach the wallet before, while or after the notifications about the block's transactions are processed (independent
streams). After the staged chain, rounds of payments the WALLET builds itself (inputs reserved by coin selection, some builds never
broadcast) come back through the same notifications, with the reservations dropped as at a daemon start (Y7).
In a third of the schedules the connection to the server is lost now and then: a stage (or its first steps) happens while the wallet is away,
nothing is pushed, the subscriptions die with the session; when the connection is back the ledger's on_connected handler (join_network)
subscribes the accounts again and the statuses it gets are the notifications the wallet has to catch up with (same clauses Y1-Y4).
Oracle: reference ledger over the same chain (Y1-Y7, DESIGN §4 C09)."""
import asyncio
import hashlib
import random

from vlib import boot, chaos as chaos_mod, walletfx
from vlib.ref import bip32 as B, btc_tx as T, headers as R, merkle as M

ID = 'C09'
LEVEL = 'exploration'
RULE = ('case = scenario (1-2 accounts, gap setting, 3-6 stages of 3-14 transactions: fund / spend / re-spend / claim / update / abandon / '
        'support / purchase / sweep of unconfirmed parents, third-party outputs of every template kind, mempool->block transitions) replayed '
        'under 3 delivery schedules (half of them with block headers arriving 1-2 blocks late; a third of them with connection losses: stages the '
        'server goes through unseen, followed by Ledger.join_network() on the same ledger, some while the stage still goes on), one of them followed by 2 rounds of '
        'wallet-built payments + release of all reservations. evaluations = (scenario, schedule, stage) observations. distinct = hash(scenario seed, schedule '
        'interleaving signature, stage); non-trivial = stage contains a cross-address spend or a gap extension or a mempool transition')
ASSUMPTIONS = ['the fake server follows the Electrum/LBRY-hub address-status protocol: history = confirmed by (height, position) then mempool '
               '(height 0, or -1 with unconfirmed inputs); claim/support/update outputs are indexed under the address they pay',
               'server never retracts a transaction, <= 100 transactions per address (as the property quantifies)',
               'wallet addresses for funding are derived by the independent BIP32 reference, not read from the wallet',
               'headers are a mined sim chain connected through the real validator so that Merkle proofs are really checked']
REQUIRED_HITS = ['Y1.checked', 'Y2.checked', 'Y3.checked', 'Y4.checked', 'Y5.schedules_compared', 'stage.cross_address_spend',
                 'stage.change_notified_before_spent_address', 'stage.mempool_to_block', 'stage.gap_extension', 'stage.funded_at_gap_edge',
                 'tx.claim', 'tx.update', 'tx.support', 'tx.purchase', 'stream.stages', 'stream.notified_while_same_address_update_in_flight', 'tx.unconfirmed_parent', 'third_party.p2pk', 'third_party.p2sh',
                 'third_party.segwit', 'third_party.op_return', 'third_party.claim_script_hash', 'chaos.points',
                 'hdr.tx_served_one_block_above_wallet_tip', 'Y7.checked', 'own.payment_synced_while_its_inputs_are_reserved',
                 'conn.reconnects', 'conn.known_address_changed_while_away', 'conn.unused_address_funded_while_away',
                 'conn.reconnected_while_stage_goes_on']
MAXT = (1 << 255) - 1
PREFIX = b'\x55'
_S = {}


def plan(tier):
    return {'shards': 16, 'budget_s': 55 if tier == 'quick' else 800}


def shard_setup(rec, tier):
    # reference address chains for the fixture seeds (account key = master from pbkdf2(mnemonic, 'lbryum'); address = m/chain/n)
    _S['addr'] = {}
    for si, phrase in enumerate(walletfx.SEEDS[:2]):
        seed = hashlib.pbkdf2_hmac('sha512', phrase.encode('utf8'), b'lbryum', 2048, 64)
        root = B.master(seed).neuter()
        for chain in (0, 1):
            node = root.ckd_pub(chain)
            _S.setdefault('node', {})[(si, chain)] = node
            lst = []
            for n in range(70 if chain == 0 else 40):
                h = B.hash160(node.ckd_pub(n).pub_bytes)
                lst.append((h, B.b58check_encode(PREFIX + h)))
            _S['addr'][(si, chain)] = lst


def _ref_owner(h160, nacc, extend=True):
    """(account, chain, n) of a reference address, or None. The change chain table is extended on demand (the wallet picks its own
    change address when it builds a payment)."""
    for _ in range(2):
        for (ai, c), lst in _S['addr'].items():
            if ai < nacc:
                for n, (h, _a) in enumerate(lst):
                    if h == h160:
                        return ai, c, n
        if not extend:
            break
        for ai in range(nacc):
            lst, node = _S['addr'][(ai, 1)], _S['node'][(ai, 1)]
            for n in range(len(lst), len(lst) + 20):
                h = B.hash160(node.ckd_pub(n).pub_bytes)
                lst.append((h, B.b58check_encode(PREFIX + h)))
        extend = False
    return None


def gen_cases(rng, tier, shard, nshards):
    n = 14 if tier == 'quick' else 400
    for i in range(n):
        yield {'fam': 'scenario', 'seed': rng.getrandbits(48), 'odd': False}
    for i in range(2 if tier == 'quick' else 40):
        yield {'fam': 'scenario', 'seed': rng.getrandbits(48), 'odd': True}     # separately reported class: scripts matching no template


# ------------------------------------------------------------------------------ toy chain / reference ledger
class ToyChain:
    def __init__(self, r):
        self.r = r
        self.tx = {}            # txid -> dict(raw, ins[(txid,n)], outs[dict(amount, script, pays, kind)], height, order)
        self.blocks = [[]]      # height -> [txid]
        self.mempool = []       # txids in arrival order
        self.spent = {}         # (txid, n) -> spending txid
        self.order = 0
        self.by_addr = {}       # hash160 -> [txid] in arrival order: index behind history() (history_scan() is the definition)

    def add(self, ins, outs):
        tins = []
        for (ptx, pn) in ins:
            tins.append(T.TxIn(bytes.fromhex(ptx)[::-1], pn, T.redeem_p2pkh(self.r.randbytes(71) + b'\x01', b'\x02' + self.r.randbytes(32))))
        tx = T.Tx(1, tins, [T.TxOut(o['amount'], o['script']) for o in outs], 0)
        raw = T.encode_legacy(tx)
        txid = T.txid(tx)
        unconf = any(p in self.tx and self.tx[p]['height'] <= 0 for p, _ in ins)
        self.order += 1
        self.tx[txid] = {'raw': raw, 'ins': list(ins), 'outs': outs, 'height': -1 if unconf else 0, 'order': self.order}
        self.mempool.append(txid)
        for i in ins:
            self.spent[i] = txid
        self._index(txid)
        return txid

    def _index(self, txid):
        t = self.tx[txid]
        hs = {o['pays'] for o in t['outs']} | {self.tx[p]['outs'][n]['pays'] for p, n in t['ins'] if p in self.tx}
        for h in hs:
            if h is not None:
                self.by_addr.setdefault(h, []).append(txid)

    def insert(self, txid, raw, ins, outs):
        """a finished transaction (a recorded scenario step, or one the wallet itself built and 'broadcast') enters the mempool."""
        unconf = any(p in self.tx and self.tx[p]['height'] <= 0 for p, _ in ins)
        self.order += 1
        self.tx[txid] = {'raw': raw, 'ins': list(ins), 'outs': outs, 'height': -1 if unconf else 0, 'order': self.order}
        self.mempool.append(txid)
        for i in ins:
            self.spent[i] = txid
        self._index(txid)

    def mine(self, txids=None):
        """confirms the given mempool txs (default: all whose parents are confirmed or in the same block, in arrival order)."""
        chosen = []
        for t in list(self.mempool):
            if txids is not None and t not in txids:
                continue
            parents_ok = all(p not in self.tx or self.tx[p]['height'] > 0 or p in chosen for p, _ in self.tx[t]['ins'])
            if parents_ok:
                chosen.append(t)
        h = len(self.blocks)
        self.blocks.append(chosen)
        for t in chosen:
            self.tx[t]['height'] = h
            self.mempool.remove(t)
        for t in self.mempool:      # remaining mempool txs: recompute unconfirmed-parent flag
            self.tx[t]['height'] = -1 if any(p in self.tx and self.tx[p]['height'] <= 0 for p, _ in self.tx[t]['ins']) else 0
        return h

    def touches(self, txid, h160):
        t = self.tx[txid]
        if any(o['pays'] == h160 for o in t['outs']):
            return True
        for p, n in t['ins']:
            if p in self.tx and self.tx[p]['outs'][n]['pays'] == h160:
                return True
        return False

    def history(self, h160):
        # confirmed by (height, position in block) then mempool in arrival order; a block keeps the arrival order of its transactions,
        # so both parts are the arrival-ordered index list sorted by height (judge() cross-checks samples against history_scan())
        txs = self.by_addr.get(h160)
        if not txs:
            return []
        conf = sorted((self.tx[t]['height'], self.tx[t]['order'], t) for t in txs if self.tx[t]['height'] > 0)
        return [(t, h) for h, _, t in conf] + [(t, self.tx[t]['height']) for t in txs if self.tx[t]['height'] <= 0]

    def history_scan(self, h160):
        out = []
        for h, blk in enumerate(self.blocks):
            for t in blk:
                if self.touches(t, h160):
                    out.append((t, h))
        for t in self.mempool:
            if self.touches(t, h160):
                out.append((t, self.tx[t]['height']))
        return out

    def status(self, h160):
        hist = self.history(h160)
        if not hist:
            return None
        return hashlib.sha256(''.join(f'{t}:{h}:' for t, h in hist).encode()).hexdigest()

    def merkle(self, txid):
        t = self.tx[txid]
        h = t['height']
        if h <= 0:
            return {'block_height': h}
        blk = self.blocks[h]
        leaves = [bytes.fromhex(x)[::-1] for x in blk]
        i = blk.index(txid)
        return {'block_height': h, 'pos': i, 'merkle': [b[::-1].hex() for b in M.branch(leaves, i)]}


class Server:
    def __init__(self, chain, ch):
        from lbry.wallet.stream import StreamController
        self.chain, self.ch = chain, ch
        self.on_header = StreamController().stream
        self.on_status = StreamController().stream
        self.is_connected = True
        self.client = None
        self.subscribed = {}        # address -> hash160
        self.last_sent = {}         # address -> status last told to the wallet
        self.calls = {'subscribe': 0, 'history': 0, 'batch': 0}
        self.headers = None         # the wallet's header store (only to MEASURE how far it is behind when a transaction is served)
        self.above_tip = {'one': 0, 'more': 0}
        self.latency = None         # () -> loop iterations a reply takes (slow history / transaction downloads)
        self.slow_replies = 0
        self.told_before_loss = {}  # address -> status last told to the wallet on the session that was lost

    def connection_lost(self):
        # a subscription lives as long as the session: nothing is pushed from now on, a new session starts without subscriptions
        self.is_connected = False
        self.told_before_loss = dict(self.last_sent)
        self.subscribed.clear()
        self.last_sent.clear()

    def connection_back(self):
        self.is_connected = True

    async def _reply_delay(self):
        n = self.latency() if self.latency else 0
        if n:
            self.slow_replies += 1
            for _ in range(n):
                await asyncio.sleep(0)

    async def retriable_call(self, function, *args, **kwargs):
        return await function(*args, **kwargs)

    async def subscribe_address(self, address, *addresses):
        addresses = (address,) + addresses
        await self.ch.point('net:subscribe:pre')
        out = []
        for a in addresses:
            payload = B.b58check_decode(a)
            self.subscribed[a] = payload[1:]
            st = self.chain.status(payload[1:])
            self.last_sent[a] = st
            out.append(st)
        self.calls['subscribe'] += 1
        await self.ch.point('net:subscribe:post')
        return out

    async def get_history(self, address):
        await self.ch.point('net:history:pre')
        h = self.chain.history(self.subscribed.get(address) or B.b58check_decode(address)[1:])      # answered for any address, subscribed or not
        self.calls['history'] += 1
        await self._reply_delay()
        await self.ch.point('net:history:post')
        return [{'tx_hash': t, 'height': hh} for t, hh in h]

    async def get_transaction_batch(self, txids, restricted=True):
        await self.ch.point('net:batch:pre')
        out = {t: (self.chain.tx[t]['raw'].hex(), self.chain.merkle(t)) for t in txids}
        if self.headers is not None:
            known = len(self.headers)       # heights 0..known-1 are stored by the wallet
            for t in txids:
                h = self.chain.tx[t]['height']
                if h >= known:
                    self.above_tip['one' if h == known else 'more'] += 1
        self.calls['batch'] += 1
        await self._reply_delay()
        await self.ch.point('net:batch:post')
        return out

    async def get_merkle(self, txid, height):
        return self.chain.merkle(txid)


# ------------------------------------------------------------------------------ scenario (pure data, replayed under several schedules)
def make_scenario(seed, odd):
    """returns the list of stages; each stage = list of steps ('tx', ins, outs) / ('mine', None) built against a model of the chain.
    All randomness lives here so that the same scenario can be replayed under different delivery schedules."""
    r = random.Random(seed)
    nacc = r.choice([1, 1, 2])
    gaps = r.choice([(3, 2), (5, 3), (20, 6), (2, 1)])
    chain = ToyChain(random.Random(seed + 1))
    used_max = {(a, c): -1 for a in range(nacc) for c in (0, 1)}
    owned = {}                 # (txid, n) -> dict(amount, kind, acct, chain, idx)
    stages = []
    flags_all = []
    claim_payload = bytes.fromhex('0a020a00')       # smallest stream claim (valid protobuf)
    hits = []

    def pick_addr(a, c, flags):
        gap = gaps[c]
        hi = used_max[(a, c)] + gap
        lst = _S['addr'][(a, c)]
        hi = min(hi, len(lst) - 1)
        mode = r.random()
        if mode < 0.35:
            idx = hi                    # the very edge of the gap
            flags.add('funded_at_gap_edge')
        elif mode < 0.6 and used_max[(a, c)] >= 0:
            idx = r.randrange(0, used_max[(a, c)] + 1)      # address reuse
        else:
            idx = r.randrange(0, hi + 1)
        if idx > used_max[(a, c)]:
            used_max[(a, c)] = idx
            flags.add('gap_extension')
        return lst[idx][0], (a, c, idx)

    def third_party(flags):
        kind = r.choice(['p2pk', 'p2pkh', 'p2sh', 'segwit', 'op_return', 'claim_script_hash', 'support_script_hash', 'update_script_hash'])
        hits.append('third_party.' + kind)
        h = r.randbytes(20)
        if kind == 'p2pk':
            s = T.p2pk(b'\x03' + r.randbytes(32))
        elif kind == 'p2pkh':
            s = T.p2pkh(h)
        elif kind == 'p2sh':
            s = T.p2sh(h)
        elif kind == 'segwit':
            s = T.witness_program(r.choice([h, r.randbytes(32)]))
        elif kind == 'op_return':
            s = T.op_return(r.randbytes(r.choice([1, 20, 75])))
        elif kind == 'claim_script_hash':
            s = T.claim_name(b'other', claim_payload, T.p2sh(h))
        elif kind == 'support_script_hash':
            s = T.support_claim(b'other', r.randbytes(20), T.p2sh(h))
        else:
            s = T.update_claim(b'other', r.randbytes(20), claim_payload, T.p2sh(h))
        return {'amount': r.randrange(0 if kind == 'op_return' else 1, 10 ** 7), 'script': s, 'pays': None, 'kind': 'other'}

    def odd_output():
        k = r.choice(['bare_multisig', 'op_true', 'random', 'p2pkh_with_trailing_op'])
        hits.append('odd.' + k)
        if k == 'bare_multisig':
            s = T.multisig_script(1, [b'\x02' + r.randbytes(32), b'\x03' + r.randbytes(32)])
        elif k == 'op_true':
            s = b'\x51'
        elif k == 'random':
            s = bytes([0x6b, 0x6c, 0x75]) + bytes([0x61] * r.randrange(1, 5))        # OP_TOALTSTACK OP_FROMALTSTACK OP_DROP OP_NOP...
        else:
            s = T.p2pkh(r.randbytes(20)) + b'\x61'
        return {'amount': r.randrange(1, 10 ** 6), 'script': s, 'pays': None, 'kind': 'other'}

    def own_out(amount, kind, flags, chain_pref=None):
        a = r.randrange(nacc)
        c = chain_pref if chain_pref is not None else r.choice([0, 0, 1])
        h, where = pick_addr(a, c, flags)
        tail = T.p2pkh(h)
        if kind == 'pay':
            s = tail
        elif kind == 'claim':
            s = T.claim_name(r.choice([b'name', b'a', 'ünï'.encode()]), claim_payload if r.random() < 0.7 else r.randbytes(9), tail)
        elif kind == 'update':
            s = T.update_claim(b'name', r.randbytes(20), claim_payload, tail)
        elif kind == 'support':
            s = T.support_claim(b'name', r.randbytes(20), tail) if r.random() < 0.6 else \
                T.support_claim_data(b'name', r.randbytes(20), b'\x0a\x00', tail)
        return {'amount': amount, 'script': s, 'pays': h, 'kind': kind, 'where': where}

    nst = r.randrange(3, 7)
    for st in range(nst):
        steps, flags = [], set()
        ntx = r.randrange(3, 15)
        for _ in range(ntx):
            spendable = [k for k, v in owned.items() if k not in chain.spent and v['kind'] == 'pay']
            locked = [k for k, v in owned.items() if k not in chain.spent and v['kind'] in ('claim', 'update', 'support')]
            kind = r.choice(['fund', 'fund', 'spend', 'spend', 'spend', 'claim', 'update', 'abandon', 'support', 'purchase_in', 'purchase_out',
                             'sweep'])
            if kind != 'fund' and kind != 'purchase_in' and not spendable:
                kind = 'fund'
            ins, outs = [], []
            if kind == 'fund':
                ins = [(r.randbytes(32).hex(), r.randrange(3))]
                outs = [own_out(r.randrange(1000, 10 ** 9), 'pay', flags) for _ in range(r.choice([1, 1, 2, 3]))]
            elif kind in ('spend', 'sweep'):
                pool = spendable
                if kind == 'sweep':
                    unconf = [k for k in spendable if chain.tx[k[0]]['height'] <= 0]
                    pool = unconf or spendable
                ins = r.sample(pool, min(len(pool), r.choice([1, 1, 2, 3])))
                total = sum(owned[i]['amount'] for i in ins)
                outs = [{'amount': max(1, total // 3), 'script': T.p2pkh(r.randbytes(20)), 'pays': None, 'kind': 'other'}]
                if total > 3000:
                    outs.append(own_out(total // 2, 'pay', flags, chain_pref=1))
            elif kind == 'claim':
                ins = [r.choice(spendable)]
                total = owned[ins[0]]['amount']
                outs = [own_out(max(1, total // 4), 'claim', flags, chain_pref=0)]
                if total > 3000:
                    outs.append(own_out(total // 2, 'pay', flags, chain_pref=1))
                hits.append('tx.claim')
            elif kind == 'update':
                cl = [k for k in locked if owned[k]['kind'] in ('claim', 'update')]
                if not cl:
                    continue
                ins = [r.choice(cl)]
                outs = [own_out(owned[ins[0]]['amount'], 'update', flags, chain_pref=0)]
                hits.append('tx.update')
            elif kind == 'abandon':
                if not locked:
                    continue
                ins = [r.choice(locked)]
                outs = [own_out(max(1, owned[ins[0]]['amount'] - 100), 'pay', flags)]
            elif kind == 'support':
                ins = [r.choice(spendable)]
                total = owned[ins[0]]['amount']
                outs = [own_out(max(1, total // 3), 'support', flags, chain_pref=0)]
                if total > 3000:
                    outs.append(own_out(total // 3, 'pay', flags, chain_pref=1))
                hits.append('tx.support')
            elif kind == 'purchase_in':
                ins = [(r.randbytes(32).hex(), 0)]
                outs = [own_out(r.randrange(1000, 10 ** 8), 'pay', flags, chain_pref=0),
                        {'amount': 0, 'script': T.op_return(b'P' + b'\x0a\x14' + r.randbytes(20)), 'pays': None, 'kind': 'other'}]
                hits.append('tx.purchase')
            elif kind == 'purchase_out':
                ins = [r.choice(spendable)]
                total = owned[ins[0]]['amount']
                outs = [{'amount': max(1, total // 3), 'script': T.p2pkh(r.randbytes(20)), 'pays': None, 'kind': 'other'},
                        {'amount': 0, 'script': T.op_return(b'P' + b'\x0a\x14' + r.randbytes(20)), 'pays': None, 'kind': 'other'}]
                if total > 3000:
                    outs.append(own_out(total // 2, 'pay', flags, chain_pref=1))
                hits.append('tx.purchase')
            if r.random() < 0.5:
                outs.insert(r.randrange(len(outs) + 1) if kind not in ('purchase_in', 'purchase_out') else len(outs), third_party(flags))
            if odd and r.random() < 0.3:
                outs.append(odd_output())
                flags.add('odd_output')
            if any(i in owned for i in ins):
                addrs_in = {owned[i]['where'] for i in ins if i in owned}
                addrs_out = {o['where'] for o in outs if o.get('where')}
                if addrs_out - addrs_in:
                    flags.add('cross_address_spend')
            if any(i[0] in chain.tx and chain.tx[i[0]]['height'] <= 0 for i in ins):
                hits.append('tx.unconfirmed_parent')
            txid = chain.add(ins, outs)
            for n, o in enumerate(outs):
                if o['pays'] is not None:
                    owned[(txid, n)] = {'amount': o['amount'], 'kind': o['kind'], 'where': o['where']}
            steps.append(('tx', txid))
            if r.random() < 0.2:
                if chain.mempool and any(chain.tx[t]['order'] < chain.order for t in chain.mempool):
                    flags.add('mempool_to_block')
                steps.append(('mine', chain.mine()))
        if r.random() < 0.6 and chain.mempool:
            flags.add('mempool_to_block')
            steps.append(('mine', chain.mine()))
        stages.append(steps)
        flags_all.append(flags)
    return {'nacc': nacc, 'gaps': gaps, 'chain': chain, 'owned': owned, 'stages': stages, 'flags': flags_all, 'hits': hits}


def replay_chain_prefix(full, upto_stage):
    """rebuilds the server's chain state as it is after `upto_stage` stages (the scenario was generated in one go)."""
    c = ToyChain(random.Random(0))
    for st in full['stages'][:upto_stage + 1]:
        for kind, arg in st:
            if kind == 'tx':
                t = full['chain'].tx[arg]
                # re-insert with the recorded raw bytes / ids
                c.insert(arg, t['raw'], t['ins'], t['outs'])
            else:
                c.mine()
    return c


# ------------------------------------------------------------------------------ one run of a scenario under one schedule
async def run_schedule(rec, scen, sched_seed, case, own=False):
    boot.import_lbry()
    from lbry.wallet import Wallet, Account, Ledger, Database
    from lbry.wallet.header import Headers
    r = random.Random(sched_seed)
    ch = chaos_mod.Chaos(sched_seed, max_yields=5)
    # ---- headers: mined sim chain grown together with the toy chain
    hchain = []

    def mine_header(root):
        h = len(hchain)
        if h == 0:
            target, bits, prev_hash = MAXT, R.target_to_compact(MAXT), bytes(32)
        else:
            prev = R.unpack(hchain[-1])
            pp = R.unpack(hchain[-2]) if h >= 2 else None
            target = R.next_target(MAXT, pp, prev)
            bits, prev_hash = R.target_to_compact(target), R.header_hash(hchain[-1])
        key = (h, prev_hash, root, bits)        # the schedules of one scenario mine the same blocks: the nonce search is done once
        if key not in _S['mined']:
            _S['mined'][key] = R.mine(1, prev_hash, root, bytes(32), 1_600_000_000 + 900 * h, bits, min(target, R.compact_to_target(bits)))
        hchain.append(_S['mined'][key])
        return hchain[-1]
    g = mine_header(bytes(32))

    class SimHeaders(Headers):
        max_target = MAXT
        genesis_hash = R.header_hash_hex(g).encode()
        checkpoints = {}
    hdrs = SimHeaders(':memory:')
    await hdrs.open()
    await hdrs.connect(0, g)
    chain = ToyChain(random.Random(0))
    server = Server(chain, ch)
    server.headers = hdrs
    ledger = Ledger({'db': Database(':memory:'), 'headers': hdrs, 'network': server})
    hdrs.checkpoints = {}
    await ledger.db.open()
    died = []
    orig_update = ledger.update_history

    inflight = {}

    async def watched_update(address, remote_status, *a, **k):
        inflight[address] = inflight.get(address, 0) + 1
        try:
            return await orig_update(address, remote_status, *a, **k)
        except asyncio.CancelledError:
            raise
        except BaseException as e:
            import traceback
            tb = traceback.extract_tb(e.__traceback__)
            inner = [f for f in tb if '/lbry/' in f.filename][-1:] or tb[-1:]
            died.append((type(e).__name__, f'{inner[0].filename.split("/lbry/")[-1]}:{inner[0].name}', str(e)[:200],
                         f'wallet held {len(hdrs)} headers, server chain had {len(chain.blocks)} blocks'))
            raise
        finally:
            inflight[address] -= 1
    ledger.update_history = watched_update
    chaos_mod.install_db(ch)
    observations = []
    try:
        wallet = Wallet()
        accounts = []
        for i in range(scen['nacc']):
            d = {"seed": walletfx.SEEDS[i], "name": f"acct{i}",
                 "address_generator": {"name": "deterministic-chain",
                                       "receiving": {"gap": scen['gaps'][0], "maximum_uses_per_address": 1},
                                       "change": {"gap": scen['gaps'][1], "maximum_uses_per_address": 1}}}
            acc = Account.from_dict(ledger, wallet, d)
            accounts.append(acc)
            await ledger.subscribe_account(acc)
        await _quiesce(ledger)
        streaming = bool(case.get('streaming', sched_seed % 3 == 2))
        overlapped = set()
        # pauses between two steps of the server, in loop iterations: from "all at once" to "longer than one address update takes", so
        # that a third notification for an address can arrive after the first update ended and while the second is running
        gaps = r.choice([[0, 0, 1, 2, 5, 12], [5, 20, 60, 150], [30, 100, 300, 600], [0, 10, 100, 400]])
        if streaming:
            # replies of the server take their time now and then (heavy tail, up to longer than the longest pause between two steps): a later
            # update of an address can overtake an earlier one that still waits for its download (own random stream)
            lr = random.Random(sched_seed * 40503 % (1 << 48) + 7)
            server.latency = lambda: lr.choice([0] * 12 + [3, 15, 60, 250, 700])

        # header and address notifications are independent streams of the server: in half of the schedules the header of a new block
        # reaches the wallet only after (or while) the notifications about the transactions of that block are processed; the wallet is
        # then 1-2 blocks behind the height the server reports for a transaction (own random stream: the other schedule draws stay as they are)
        hr = random.Random(sched_seed * 2654435761 % (1 << 48) + 11)
        hdr_lag = bool(case.get('hdr_lag', hr.random() < 0.5))
        pending_hdrs = []       # (height, raw) of blocks the server has mined whose header the wallet has not received yet
        # the connection to the server is lost now and then (a third of the schedules, own random stream): the server goes through a stage, or
        # its first steps, while the wallet is away. Nothing is pushed meanwhile (neither statuses nor headers) and the subscriptions die with
        # the session; when the connection is back, Network emits on_connected and the ledger's listener (Ledger.start: join_network)
        # subscribes the accounts again on the SAME ledger - the statuses returned there are the notifications it has to catch up with
        orr = random.Random(sched_seed * 69069 % (1 << 48) + 13)
        outages = bool(case.get('outages', orr.random() < 0.35))

        def reconnect():
            server.connection_back()
            told = server.told_before_loss
            moved = sum(1 for a, st in told.items() if chain.status(B.b58check_decode(a)[1:]) != st)
            fresh = sum(1 for a, st in told.items() if st is None and chain.status(B.b58check_decode(a)[1:]) is not None)
            rec.hit('conn.reconnects')
            if moved:
                rec.hit('conn.known_address_changed_while_away', moved)
            if fresh:
                rec.hit('conn.unused_address_funded_while_away', fresh)
            return asyncio.ensure_future(ledger.join_network(True))

        async def deliver_headers(keep=0):
            while len(pending_hdrs) > keep:
                h, raw = pending_hdrs.pop(0)
                ch.enabled = False
                added = await hdrs.connect(h, raw)
                ch.enabled = True
                if added != 1:
                    raise RuntimeError('harness: sim header rejected')

        async def server_mines(keep):
            h = chain.mine()
            blk = chain.blocks[h]
            root = M.root([bytes.fromhex(x)[::-1] for x in blk]) if blk else bytes(32)
            pending_hdrs.append((h, mine_header(root)))
            await deliver_headers(keep)
            return h

        def notify_now():
            # streaming delivery: the status of every address the last step touched goes out at once, while the wallet may still be
            # working on earlier notifications for the same address (its history changes between two of its own history requests)
            out = []
            for a, h160 in list(server.subscribed.items()):
                st = chain.status(h160)
                if st != server.last_sent.get(a):
                    server.last_sent[a] = st
                    out.append((a, st))
            r.shuffle(out)
            for a, st in out:
                if inflight.get(a):
                    overlapped.add(a)
                ledger.process_status_update((a, st))
            return out

        async def deliver_batch():
            """one notification for every subscribed address whose status changed, seeded random order; returns when all are processed"""
            changed = []
            for a, h160 in list(server.subscribed.items()):
                st = chain.status(h160)
                if st != server.last_sent.get(a):
                    server.last_sent[a] = st
                    changed.append((a, st))
            r.shuffle(changed)
            for a, st in changed:
                ledger.process_status_update((a, st))
                for _ in range(r.choice([0, 0, 1, 3])):
                    await asyncio.sleep(0)
            await _quiesce(ledger)
            return len(changed)

        async def look(full):
            ch.enabled = False
            try:
                return await (observe(ledger, accounts, scen) if full else observe_funds(accounts))
            finally:
                ch.enabled = True

        async def own_payment_rounds(first_stage):
            """Y7: the chain also grows by payments the WALLET builds (coin selection reserves the inputs), which come back through the
            ordinary address notifications like any other transaction; some builds are never broadcast and released again. Reservations
            are dropped at every daemon start (Ledger.start -> db.release_all_outputs): after such a 'restart' - before the payment is
            synced, while it sits in the mempool or after it confirmed - balance and spendable set still have to be the reference's."""
            from lbry.wallet import Transaction, Output
            from lbry.error import InsufficientFundsError
            nacc = scen['nacc']
            for rnd in range(2):
                stage = first_stage + rnd
                # the server funds a wallet address within the gap, so that every round has something to spend
                ai = r.randrange(nacc)
                lst = _S['addr'][(ai, 0)]
                paid = {o['pays'] for t in chain.tx.values() for o in t['outs'] if o['pays'] is not None}
                top = max([n for n, (h, _a) in enumerate(lst) if h in paid], default=-1)
                n = r.randrange(0, min(top + scen['gaps'][0], len(lst) - 1) + 1)
                chain.add([(r.randbytes(32).hex(), 0)], [{'amount': r.randrange(10 ** 7, 10 ** 9), 'script': T.p2pkh(lst[n][0]), 'pays': lst[n][0],
                                                          'kind': 'pay'}])
                await deliver_batch()
                # ---- the wallet builds 1-3 payments one after the other (each reserves its inputs)
                ledger.coin_selection_strategy = r.choice([None, 'prefer_confirmed', 'sqlite'])
                built, held = [], set()
                for _ in range(r.choice([1, 1, 2, 3])):
                    avail = sum(o['amount'] for t, tx in chain.tx.items() for k, o in enumerate(tx['outs'])
                                if o['pays'] is not None and o['kind'] == 'pay' and (t, k) not in chain.spent and (t, k) not in held)
                    if avail < 10 ** 6:
                        break
                    theirs = r.randbytes(20)
                    outs = [Output.pay_pubkey_hash(max(1000, avail // r.choice([2, 4, 10, 100])), theirs)]
                    if r.random() < 0.3:
                        outs.append(Output.pay_pubkey_hash(r.randrange(1000, 10 ** 5), lst[r.randrange(0, n + 1)][0]))      # and one of its own addresses
                    try:
                        tx = await Transaction.create([], outs, accounts, r.choice(accounts))
                    except InsufficientFundsError:
                        rec.hit(f'own.build_refused.{ledger.coin_selection_strategy or "standard"}')      # funding rules are C03's business
                        continue
                    d = T.decode(tx.raw)
                    if T.txid(d) != tx.id:
                        raise RuntimeError('harness: reference decoder and wallet disagree about the id of the built payment')
                    ins = [(i.prev_hash[::-1].hex(), i.prev_index) for i in d.inputs]
                    touts = []
                    for o in d.outputs:
                        h160 = o.script[3:23] if len(o.script) == 25 and o.script == T.p2pkh(o.script[3:23]) else None
                        mine = h160 is not None and h160 != theirs and _ref_owner(h160, nacc) is not None
                        if h160 is not None and h160 != theirs and not mine:
                            raise RuntimeError('harness: built payment pays a key hash that is neither the payee nor a reference wallet address')
                        touts.append({'amount': o.amount, 'script': o.script, 'pays': h160 if mine else None, 'kind': 'pay' if mine else 'other'})
                    held.update(ins)
                    built.append((tx, ins, touts))
                    rec.hit('own.payment_built')
                # ---- broadcast (the server takes it into its mempool) or failed broadcast (the wallet releases the inputs again)
                r.shuffle(built)
                sent = []
                restart = r.choice(['before_sync', 'in_mempool', 'confirmed', 'confirmed'])
                for j, (tx, ins, touts) in enumerate(built):
                    refused = any(i in chain.spent for i in ins)            # a server refuses a double spend (not expected from a synced wallet)
                    if refused or (r.random() < 0.25 and (sent or j < len(built) - 1)):
                        await ledger.release_tx(tx)
                        rec.hit('own.double_spend_refused_by_server' if refused else 'own.broadcast_failed_inputs_released')
                        continue
                    chain.insert(tx.id, tx.raw, ins, touts)
                    sent.append(tx)
                    if streaming and restart != 'before_sync':
                        notify_now()
                        for _ in range(r.choice(gaps)):
                            await asyncio.sleep(0)
                if not sent:
                    continue
                if restart == 'before_sync':
                    await ledger.db.release_all_outputs()
                    rec.hit('own.restart_before_payment_synced')
                else:
                    ch.enabled = False
                    rows = await ledger.db.db.execute_fetchall("select txoid from txo where is_reserved = 1")
                    ch.enabled = True
                    reserved = {row['txoid'] for row in rows}
                    nres = sum(1 for tx in sent for i in tx.inputs if i.txo_ref.id in reserved)
                    if nres:
                        rec.hit('own.payment_synced_while_its_inputs_are_reserved', nres)
                await deliver_batch()
                if not judge(rec, scen, chain, server, await look(True), stage, died, case, sched_seed):
                    return False
                if restart == 'in_mempool':
                    await ledger.db.release_all_outputs()
                    if not judge_released(rec, chain, await look(False), stage, case, sched_seed, 'payment in mempool'):
                        return False
                await server_mines(hr.choice([0, 1, 1, 2]) if hdr_lag else 0)
                await deliver_batch()
                await deliver_headers()
                if not judge(rec, scen, chain, server, await look(True), stage, died, case, sched_seed):
                    return False
                await ledger.db.release_all_outputs()
                if not judge_released(rec, chain, await look(False), stage, case, sched_seed, 'payment confirmed'):
                    return False
                rec.hit('own.rounds')
                rec.case([case['seed'], ch.signature(), stage], nontrivial=True)
            return True

        for si, steps in enumerate(scen['stages']):
            away = outages and orr.random() < 0.4
            back_at, joining = None, None
            if away:
                back_at = orr.choice([len(steps), len(steps), orr.randrange(0, len(steps) + 1)])       # after the stage / somewhere inside it
                server.connection_lost()            # the wallet is idle here (the previous stage was worked off)
            # ---- the server's chain grows
            for k, (kind, arg) in enumerate(steps):
                if away and k == back_at:
                    joining = reconnect()           # the rest of the stage is notified while the wallet catches up
                    rec.hit('conn.reconnected_while_stage_goes_on')
                if kind == 'tx':
                    t = scen['chain'].tx[arg]
                    chain.insert(arg, t['raw'], t['ins'], t['outs'])
                elif not server.is_connected:
                    await server_mines(1 << 30)     # no header reaches the wallet either; they come with a later block (or below)
                else:
                    await server_mines(hr.choice([0, 1, 1, 2]) if hdr_lag else 0)
                if streaming:
                    notify_now()
                    for _ in range(r.choice(gaps)):
                        await asyncio.sleep(0)
            if streaming:
                rec.hit('stream.stages')
                if overlapped:
                    rec.hit('stream.notified_while_same_address_update_in_flight', len(overlapped))
                    overlapped.clear()
            if away and joining is None:
                joining = reconnect()
                for _ in range(orr.choice([0, 1, 5, 40])):
                    await asyncio.sleep(0)
            # ---- notifications for every subscribed address whose status changed, in seeded random order, concurrently
            changed = []
            for a, h160 in list(server.subscribed.items()):
                st = chain.status(h160)
                if st != server.last_sent.get(a):
                    server.last_sent[a] = st
                    changed.append((a, st))
            r.shuffle(changed)
            flags = scen['flags'][si]
            # does some change/output address get notified before the address whose output was spent? (measured, not assumed)
            pos_of = {a: i for i, (a, _) in enumerate(changed)}
            for kind, arg in steps:
                if kind != 'tx':
                    continue
                t = chain.tx[arg]
                a_in = {B.b58check_encode(PREFIX + chain.tx[p]['outs'][n]['pays']) for p, n in t['ins']
                        if p in chain.tx and chain.tx[p]['outs'][n]['pays'] is not None}
                a_out = {B.b58check_encode(PREFIX + o['pays']) for o in t['outs'] if o['pays'] is not None} - a_in
                if any(x in pos_of and y in pos_of and pos_of[x] < pos_of[y] for x in a_out for y in a_in):
                    rec.hit('stage.change_notified_before_spent_address')
                    break
            hdr_at = hr.randrange(len(changed)) if pending_hdrs and changed and hr.random() < 0.3 else None
            for i, (a, st) in enumerate(changed):
                if i == hdr_at:
                    await deliver_headers()         # the late header arrives while the notifications are being worked on
                ledger.process_status_update((a, st))
                for _ in range(r.choice([0, 0, 1, 3])):
                    await asyncio.sleep(0)
            await _quiesce(ledger)
            if joining is not None:
                await joining                       # join_network returns when the subscriptions are made and every update they started ended
                await _quiesce(ledger)
            if hr.random() < 0.7:
                await deliver_headers()             # ... or after all of them were processed (else: with a later block)
            ch.enabled = False
            obs = await observe(ledger, accounts, scen)
            ch.enabled = True
            observations.append(obs)
            ok = judge(rec, scen, chain, server, obs, si, died, case, sched_seed, phase='/after-reconnect' if away else '')
            for f in flags:
                rec.hit('stage.' + f)
            rec.case([case['seed'], ch.signature(), si],
                     nontrivial=bool(flags & {'cross_address_spend', 'gap_extension', 'mempool_to_block'}),
                     sample={'scenario_seed': case['seed'], 'stage': si, 'txs_in_chain': len(chain.tx), 'blocks': len(chain.blocks),
                             'mempool': len(chain.mempool), 'subscribed_addresses': len(server.subscribed), 'notified': len(changed),
                             'flags': sorted(flags), 'balance': obs['spendable'], 'chaos_points': ch.points,
                             'server_calls': dict(server.calls)} if si == len(scen['stages']) - 1 else None)
            if not ok:
                break
        else:
            if case.get('own_payments', own):
                await own_payment_rounds(len(scen['stages']))
        rec.hit('chaos.points', ch.points)
        if server.slow_replies:
            rec.hit('stream.slow_server_replies', server.slow_replies)
        for k, n in server.above_tip.items():
            if n:
                rec.hit({'one': 'hdr.tx_served_one_block_above_wallet_tip', 'more': 'hdr.tx_served_further_above_wallet_tip'}[k], n)
    finally:
        chaos_mod.uninstall_db()
        ledger._update_tasks.cancel()
        await ledger.db.close()
    return observations


async def _quiesce(ledger):
    for _ in range(10000):
        if len(ledger._update_tasks):
            await ledger._update_tasks.done.wait()
        for _ in range(3):
            await asyncio.sleep(0)
        if not len(ledger._update_tasks):
            return
    raise RuntimeError('harness watchdog: update tasks never drained')


async def observe(ledger, accounts, scen):
    obs = {'history': {}, 'spendable': 0, 'total': 0, 'utxos': set(), 'chains': {}}
    rows = await ledger.db.db.execute_fetchall("select address, history, used_times, account, chain, n from pubkey_address "
                                               "join account_address using (address)")
    id_to_i = {a.id: i for i, a in enumerate(accounts)}
    for row in rows:
        obs['history'][row['address']] = row['history'] or ''
        key = (id_to_i[row['account']], row['chain'])
        obs['chains'].setdefault(key, []).append((row['n'], row['address'], row['used_times'] or 0))
    for acc in accounts:
        obs['spendable'] += await acc.get_balance()
        obs['total'] += await acc.get_balance(include_claims=True)
        for t in await acc.get_utxos():
            obs['utxos'].add(t.id)
    return obs


async def observe_funds(accounts):
    obs = {'spendable': 0, 'total': 0, 'utxos': set()}
    for acc in accounts:
        obs['spendable'] += await acc.get_balance()
        obs['total'] += await acc.get_balance(include_claims=True)
        for t in await acc.get_utxos():
            obs['utxos'].add(t.id)
    return obs


def judge_released(rec, chain, obs, stage, case, sched_seed, when):
    """Y7: no reservation is left (they were just released, as at a daemon start): balance and spendable set are the reference's; in
    particular no output that a known transaction spends is spendable again."""
    suffix = '/scenario-with-no-template-output' if case.get('odd') else ''
    rec.hit('Y7.checked')
    unspent = {(t, n): o for t, tx in chain.tx.items() for n, o in enumerate(tx['outs']) if o['pays'] is not None and (t, n) not in chain.spent}
    want_spendable = sum(o['amount'] for o in unspent.values() if o['kind'] == 'pay')
    want_total = sum(o['amount'] for o in unspent.values())
    want_utxos = {f'{k[0]}:{k[1]}' for k, o in unspent.items() if o['kind'] == 'pay'}
    if obs['utxos'] == want_utxos and obs['spendable'] == want_spendable and obs['total'] == want_total:
        return True
    extra = sorted(obs['utxos'] - want_utxos)
    respent = [x for x in extra if (x.rsplit(':', 1)[0], int(x.rsplit(':', 1)[1])) in chain.spent]
    what = 'output-spent-by-known-transaction-spendable-again' if respent else 'funds-differ'
    rec.violation(f'C09/Y7/{what}-after-reservations-released{suffix}',
                  f'stage {stage} ({when}, reservations released as at a daemon start): spendable {obs["spendable"]} (reference {want_spendable}), '
                  f'total {obs["total"]} (reference {want_total}), get_utxos() has {len(extra)} extra ({len(respent)} of them spent by a synced '
                  f'transaction) and lacks {len(want_utxos - obs["utxos"])} outputs',
                  {'extra': extra[:4], 'spent_by': [chain.spent[(x.rsplit(':', 1)[0], int(x.rsplit(':', 1)[1]))] for x in respent[:4]],
                   'missing': sorted(want_utxos - obs['utxos'])[:4], 'spendable': obs['spendable'], 'want_spendable': want_spendable,
                   'schedule_seed': sched_seed})
    return False


def judge(rec, scen, chain, server, obs, stage, died, case, sched_seed, phase=''):
    odd = case.get('odd')
    suffix = phase + ('/scenario-with-no-template-output' if odd else '')       # phase: the stage passed (partly) while the connection was lost
    ok = True
    # ---- Y6: no update task died
    if died:
        kinds = sorted({f'{d[0]}@{d[1]}' for d in died})
        rec.violation(f'C09/Y6/update-task-died/{kinds[0]}{suffix}',
                      f'stage {stage}: {len(died)} address update task(s) died: {died[0][0]} at {died[0][1]}: {died[0][2]}',
                      {'died': died[:3], 'stage': stage, 'schedule_seed': sched_seed})
        return False
    # ---- reference view
    owned = {}
    for txid, t in chain.tx.items():
        for n, o in enumerate(t['outs']):
            if o['pays'] is not None:
                owned[(txid, n)] = o
    unspent = {k: o for k, o in owned.items() if k not in chain.spent}
    want_spendable = sum(o['amount'] for o in unspent.values() if o['kind'] == 'pay')
    want_total = sum(o['amount'] for o in unspent.values())
    want_utxos = {f'{k[0]}:{k[1]}' for k, o in unspent.items() if o['kind'] == 'pay'}
    for (ai, c), lst in _S['addr'].items():         # harness self-check: the indexed history is the scanned one
        for n in range(stage % 6, len(lst), 6):
            if ai < scen['nacc'] and chain.history(lst[n][0]) != chain.history_scan(lst[n][0]):
                raise RuntimeError('harness: indexed address history differs from the scanned one')
    # ---- Y4a: every address the server funded is known to the wallet (discovered)
    rec.hit('Y4.checked')
    known = {}
    for (ai, c), lst in obs['chains'].items():
        for n, address, used in lst:
            known[address] = (ai, c, n, used)
    for (ai, c), lst in _S['addr'].items():
        if ai >= scen['nacc']:
            continue
        for n, (h160, address) in enumerate(lst):
            hist = chain.history(h160)
            if hist and address not in known:
                rec.violation(f'C09/Y4/funded-address-within-gap-not-discovered{suffix}',
                              f'stage {stage}: address chain {c} index {n} has {len(hist)} transactions on the server but the wallet never generated/subscribed it '
                              f'(gap {scen["gaps"][c]})', {'chain': c, 'n': n, 'gap': scen['gaps'][c], 'known_max': max([x[0] for x in obs['chains'].get((ai, c), [(0,)])])})
                return False
    # ---- Y1: stored history == server history
    rec.hit('Y1.checked')
    for address, (ai, c, n, used) in known.items():
        h160 = _S['addr'][(ai, c)][n][0] if n < len(_S['addr'][(ai, c)]) else None
        if h160 is None:
            continue
        ref_addr = _S['addr'][(ai, c)][n][1]
        if ref_addr != address:
            rec.violation('C09/Y4/wallet-address-differs-from-reference-derivation', f'chain {c} index {n}: wallet {address}, reference {ref_addr}', {})
            return False
        want = ''.join(f'{t}:{h}:' for t, h in chain.history(h160))
        if obs['history'].get(address, '') != want:
            rec.violation(f'C09/Y1/stored-history-differs-from-server{suffix}',
                          f'stage {stage}: history of address chain {c} index {n} differs: server has {want.count(":") // 2} entries, wallet stored '
                          f'{obs["history"].get(address, "").count(":") // 2}',
                          {'chain': c, 'n': n, 'server': want[:400], 'wallet': obs['history'].get(address, '')[:400], 'schedule_seed': sched_seed})
            ok = False
            break
    # ---- Y2 balance, Y3 spendable set
    rec.hit('Y2.checked')
    if ok and (obs['spendable'] != want_spendable or obs['total'] != want_total):
        rec.violation(f'C09/Y2/balance-differs{suffix}',
                      f'stage {stage}: spendable {obs["spendable"]} (reference {want_spendable}), total incl. claims/supports {obs["total"]} (reference {want_total})',
                      {'spendable': obs['spendable'], 'want_spendable': want_spendable, 'total': obs['total'], 'want_total': want_total,
                       'schedule_seed': sched_seed})
        ok = False
    rec.hit('Y3.checked')
    if ok and obs['utxos'] != want_utxos:
        rec.violation(f'C09/Y3/spendable-set-differs{suffix}',
                      f'stage {stage}: get_utxos() has {len(obs["utxos"] - want_utxos)} extra and lacks {len(want_utxos - obs["utxos"])} outputs',
                      {'extra': sorted(obs['utxos'] - want_utxos)[:4], 'missing': sorted(want_utxos - obs['utxos'])[:4], 'schedule_seed': sched_seed})
        ok = False
    # ---- Y4b: each chain ends with >= gap unused addresses
    for (ai, c), lst in obs['chains'].items():
        lst = sorted(lst)
        trailing = 0
        for n, address, used in reversed(lst):
            h160 = _S['addr'][(ai, c)][n][0] if n < len(_S['addr'][(ai, c)]) else None
            if h160 is not None and chain.history(h160):
                break
            trailing += 1
        if ok and trailing < scen['gaps'][c]:
            rec.violation(f'C09/Y4/gap-not-maintained{suffix}',
                          f'stage {stage}: chain {c} ends with {trailing} unused addresses, gap is {scen["gaps"][c]} ({len(lst)} generated)',
                          {'chain': c, 'trailing': trailing, 'gap': scen['gaps'][c], 'generated': len(lst)})
            ok = False
    return ok


async def _case(rec, case):
    scen = make_scenario(case['seed'], case.get('odd'))
    _S['mined'] = {}
    for h in scen['hits']:
        rec.hit(h)
    finals = []
    for k in range(3):
        if rec.out_of_time() and k > 0:
            break
        obs = await run_schedule(rec, scen, case['seed'] * 7 + k, case, own=(k == case['seed'] % 3))     # Y7 rounds after one of the schedules
        if len(obs) == len(scen['stages']):
            o = obs[-1]
            finals.append((sorted(o['history'].items()), o['spendable'], o['total'], sorted(o['utxos'])))
    if len(finals) >= 2:
        rec.hit('Y5.schedules_compared')
        if any(f != finals[0] for f in finals[1:]):
            rec.violation('C09/Y5/final-state-depends-on-delivery-order', 'the same staged chain under different notification schedules ended in different wallet states',
                          {'scenario_seed': case['seed']})


def execute(rec, case):
    walletfx.run(_case(rec, case), timeout=900)

"""C15 — Script templates: generate/parse inverse, classification exact.  [DIFF]

Real code driven: lbry.wallet.script (push_data / tokenize / Parser / Template.generate /
OutputScript + InputScript constructors and is_* predicates), lbry.wallet.transaction.Output /
Transaction (constructors taking Claim/Support/Purchase objects, raw round trip) and
lbry.wallet.database.Database.txo_to_row / tx_to_row.
Oracle: vlib/ref/script.py (independent push tokenizer, minimal-push test, opcode-pattern
classifier; cross-checked against fixtures/c15_script_vectors.json in shard_setup).

Clauses
  G1  a generated script, parsed again by a fresh Script(source), has the generating template's
      name and the generating values (sub-script of the time-lock redeem included).
      G1/push-many: the Parser's non-greedy PUSH_MANY mechanism (anchored by the property) is
      exercised with the generating template given as hint — see ASSUMPTIONS.
  G2  the independent tokenizer reads the generated source: well-formed, every push in the minimal
      form for its length, opcode pattern = the spec pattern of that template, payloads = values.
  G3  for ANY byte string offered as an output script: template name, values and every is_*
      predicate of the library equal the reference's opcode-pattern verdict ("no template" =
      ValueError or any other exception = unclassified; exception types are only logged).
  G4  Database.txo_to_row types claim/update outputs as a claim type, supports as support and
      everything else as 0 — claim-locked value is never typed spendable; purchase typing through
      tx_to_row on library-built and re-parsed purchase transactions.
  G5  a generated script parses back to its template and values also after the transport every library-made script
      takes: Output/Input.serialize_to -> Transaction.raw -> Transaction(raw) (how the wallet stores, broadcasts and
      reloads its own claims).  The harness keeps what it put into the transaction (scripts, amounts, previous outputs,
      lock time) and judges the re-read transaction against that; total script lengths sweep both sides of every
      width change of the script-length prefix (252|253, 65535|65536) and so do the input / output counts.  A raw form
      that differs from the reference framing (ref_tx below, written from the protocol documentation) is logged and the reference
      form is then read by the library too (a script offered in a standard-framed transaction is the script classified).
"""
import hashlib
import json
import os
import random

from vlib import boot
from vlib.ref import script as R

ID = 'C15'
LEVEL = 'exploration'
RULE = ('generated scripts: every template (13 output, pubkey / pubkey_hash / timelock / script_hash+timelock '
        'input, multi-sig only for the PUSH_MANY parser clause) x every value slot x the boundary lengths '
        '0,1,74..77,254..257,65534..65537,70000, every length 0..300 and 65500..65560 per slot (thorough: every '
        'length 0..70000 on three slots), lock heights of 1..5 byte widths, seeded random mixes, library '
        'constructors with real Claim/Support/Purchase objects; every generated script of the grid / random mixes and '
        'every 4th of the sweeps carried through Transaction.raw -> Transaction(raw) between two guard scripts, plus '
        'every template x slot fitted to every TOTAL script length 245..262 and 65528..65543 and transactions with '
        '1,2,3,251..256,300 (thorough: 65535, 65536) generated input / output scripts; byte strings: every string of length <=2 '
        '(thorough: <=3 with an opcode-alphabet first byte), token-level edits of every template (drop / duplicate / '
        'confusable opcode / OP_n in a push slot / extra push / foreign tail / double head), 1-3 byte mutations, '
        'truncation at every offset, non-minimal re-encodings, concatenations of two templates, opcode-alphabet '
        'random strings.  distinct = distinct script byte string; non-trivial = every script (each is an '
        'independent input of a pure parser)')
ASSUMPTIONS = [
    'minimal = shortest push form for the data length (direct/PUSHDATA1/2/4); BIP62 OP_n forms for one-byte values are not demanded',
    'a data push is opcode 0x00..0x4e (OP_0 = empty push); OP_1NEGATE/OP_1..OP_16 are not data pushes; a push running past the end '
    'makes the script malformed = matching no template (Bitcoin GetOp / lbrycrd DecodeClaimScript semantics)',
    'claim/support/update heads count only when followed by exactly a pay-to-pubkey-hash or pay-to-script-hash tail (the forms the SDK '
    'spec lists); heads with foreign tails are expected to be unclassified on both sides',
    'multi-signature redeem scripts are outside the claim: only the Parser mechanism "non-greedy PUSH_MANY" is judged, with the generating '
    'template supplied as hint and with harness-defined templates; first-match classification of multi-sig scripts is logged only',
    'input-side classification of arbitrary byte strings is logged, not judged (the classification sentence names output kinds only)',
    'negative lock heights are not generated; height 0 / empty hash refused by redeem_time_lock_script_hash is logged',
    'exceptions raised by txo_to_row (e.g. UnicodeDecodeError on a non-UTF-8 claim name) type nothing and are logged, not judged here',
    'G5: the transaction wire layout (4-byte version, CompactSize counts and script lengths, 32+4 byte previous output, 4-byte '
    'sequence, 8-byte amount, 4-byte lock time) is the Bitcoin one; library bytes that differ from it are only logged, what is judged '
    'is what the library reads back; the bare time-lock script never travels as an input script of its own and is not carried',
]
REQUIRED_HITS = [
    'ref.selfcheck_vectors', 'G1.roundtrip_checked', 'G1.via.ctor', 'G1.via.raw', 'G1.height_checked',
    'G1.subscript_checked', 'G1.pushmany_checked', 'G1.objects_checked',
    'G2.push_minimal_checked', 'G2.len0', 'G2.len75', 'G2.len76', 'G2.len255', 'G2.len256', 'G2.len65535',
    'G2.len65536', 'G2.len70000', 'G2.height_width1', 'G2.height_width2', 'G2.height_width3', 'G2.height_width4',
    'G2.height_width5',
    'G3.checked', 'G3.ref_classified', 'G3.ref_unclassified', 'G3.ref_malformed', 'G3.predicates_checked',
    'G3.in.generated', 'G3.in.enum', 'G3.in.token-edit', 'G3.in.mutate', 'G3.in.truncate', 'G3.in.nonminimal',
    'G3.in.concat', 'G3.in.random', 'G3.in.fixture',
    'G3.kind.claim', 'G3.kind.update', 'G3.kind.support', 'G3.kind.data', 'G3.kind.payment', 'G3.kind.none',
    'G4.checked', 'G4.claimish_checked', 'G4.payment_checked', 'G4.purchase_checked',
    'G5.carried_checked', 'G5.carried.output', 'G5.carried.input', 'G5.parse_checked', 'G5.script_len252', 'G5.script_len253',
    'G5.script_len254', 'G5.script_len65535', 'G5.script_len65536', 'G5.count_checked', 'G5.count252', 'G5.count253',
    'G5.count254',
]

BOUNDARY = [0, 1, 74, 75, 76, 77, 254, 255, 256, 257, 65534, 65535, 65536, 65537, 70000]
HEIGHTS = [0, 1, 16, 17, 127, 128, 255, 256, 32767, 32768, 65535, 65536, 2 ** 23 - 1, 2 ** 23, 2 ** 24 - 1, 2 ** 24,
           717738, 5 * 10 ** 8, 2 ** 31 - 1, 2 ** 31, 2 ** 32 - 1, 2 ** 32, 2 ** 39 - 1]
FRAME_LENS = (252, 253, 254, 65535, 65536)        # script lengths / counts on both sides of every CompactSize width change
FRAME_WINDOWS = [(245, 262), (65528, 65543)]
TX_COUNTS = [1, 2, 3, 251, 252, 253, 254, 255, 256, 300]
CLAIM_TYPES = (1, 2, 5, 6)        # stream, channel, collection, repost (lbry.wallet.constants.TXO_TYPES)
TYPE_NAMES = {0: 'other', 1: 'stream', 2: 'channel', 3: 'support', 4: 'purchase', 5: 'collection', 6: 'repost'}

# how to reach each template of the library: attribute name of the Template, classmethod constructor (if any)
OUT_T = {
    'pay_pubkey_full': ('PAY_PUBKEY_FULL', None),
    'pay_pubkey_hash': ('PAY_PUBKEY_HASH', 'pay_pubkey_hash'),
    'pay_script_hash': ('PAY_SCRIPT_HASH', 'pay_script_hash'),
    'pay_script_hash+segwit': ('PAY_SEGWIT', None),
    'return_data': ('RETURN_DATA', 'return_data'),
    'claim_name+pay_pubkey_hash': ('CLAIM_NAME_PUBKEY', 'pay_claim_name_pubkey_hash'),
    'claim_name+pay_script_hash': ('CLAIM_NAME_SCRIPT', None),
    'support_claim+pay_pubkey_hash': ('SUPPORT_CLAIM_PUBKEY', 'pay_support_pubkey_hash'),
    'support_claim+pay_script_hash': ('SUPPORT_CLAIM_SCRIPT', None),
    'support_claim+data+pay_pubkey_hash': ('SUPPORT_CLAIM_DATA_PUBKEY', 'pay_support_data_pubkey_hash'),
    'support_claim+data+pay_script_hash': ('SUPPORT_CLAIM_DATA_SCRIPT', None),
    'update_claim+pay_pubkey_hash': ('UPDATE_CLAIM_PUBKEY', 'pay_update_claim_pubkey_hash'),
    'update_claim+pay_script_hash': ('UPDATE_CLAIM_SCRIPT', None),
}
IN_T = {
    'pubkey': ('REDEEM_PUBKEY', None),
    'pubkey_hash': ('REDEEM_PUBKEY_HASH', 'redeem_pubkey_hash'),
    'timelock': ('TIME_LOCK_SCRIPT', None),
    'script_hash+timelock': ('REDEEM_SCRIPT_HASH_TIME_LOCK', 'redeem_time_lock_script_hash'),
}
IN_SLOTS = {
    'pubkey': ('signature',), 'pubkey_hash': ('signature', 'pubkey'),
    'timelock': ('pubkey_hash',), 'script_hash+timelock': ('signature', 'pubkey', 'pubkey_hash'),
}


def slots_of(side, tmpl):
    return R.OUTPUT_PATTERNS[tmpl][1] if side == 'output' else IN_SLOTS[tmpl]


def vias_of(side, tmpl):
    table = OUT_T if side == 'output' else IN_T
    v = ['raw']
    if table[tmpl][1]:
        v.append('ctor')
    if tmpl == 'script_hash+timelock':
        v.append('ctor_src')
    return v


def plan(tier):
    return {'shards': 16, 'budget_s': 40 if tier == 'quick' else 600}


# ------------------------------------------------------------------ value specs (JSON-able, compact)
def mk(spec):
    """['r', n, seed] random bytes · ['t', n, seed] UTF-8 text of exactly n bytes · ['h', hex] literal"""
    k = spec[0]
    if k == 'h':
        return bytes.fromhex(spec[1])
    n, seed = spec[1], spec[2]
    r = random.Random(seed)
    if k == 'r':
        return r.randbytes(n)
    if k == 't':
        out = bytearray()
        alphabet = 'abcdefghijklmnopqrstuvwxyz0123456789-@ éßжλ中文😀'
        while len(out) < n:
            ch = r.choice(alphabet).encode()
            if len(out) + len(ch) <= n:
                out += ch
            else:
                out += b'a'
        return bytes(out)
    raise ValueError(spec)


def small_spec(r, slot):
    if slot in ('pubkey_hash', 'script_hash', 'claim_id'):
        n = r.choice([20, 20, 20, 20, 0, 1, 19, 21, 32])
    elif slot == 'pubkey':
        n = r.choice([33, 33, 65, 0, 1])
    elif slot == 'signature':
        n = r.choice([71, 72, 73, 0, 1])
    elif slot == 'claim_name':
        n = r.choice([0, 1, 4, 8, 20, 40])
        return ['t' if r.random() < 0.8 else 'r', n, r.getrandbits(32)]
    else:
        n = r.randrange(0, 48)
    return ['r', n, r.getrandbits(32)]


# ------------------------------------------------------------------ case generation
_GEN_EXHAUSTED = False
ENUM_FIRST_BYTES = [0x00, 0x01, 0x02, 0x14, 0x4b, 0x4c, 0x4d, 0x4e, 0x4f, 0x51, 0x60, 0x6a, 0x6d, 0x75, 0x76, 0x87, 0x88,
                    0xa9, 0xac, 0xae, 0xb1, 0xb5, 0xb6, 0xb7]


def gen_cases(rng, tier, shard, nshards):
    global _GEN_EXHAUSTED
    _GEN_EXHAUSTED = False
    quick = tier == 'quick'
    idx = 0

    def mine():
        nonlocal idx
        idx += 1
        return (idx - 1) % nshards == shard

    if shard == 0:
        yield {'fam': 'fixtures'}
    # A. grid: every template x slot x boundary length x via; every height x time-lock form
    g = random.Random(15)
    for side, table in (('output', OUT_T), ('input', IN_T)):
        for tmpl in table:
            slots = slots_of(side, tmpl)
            for via in vias_of(side, tmpl):
                for slot in slots:
                    for n in BOUNDARY + [2, 20, 33]:
                        vals = {s: small_spec(g, s) for s in slots}
                        vals[slot] = ['t' if slot == 'claim_name' and n % 2 == 0 else 'r', n, g.getrandbits(32)]
                        case = {'fam': 'gen1', 'side': side, 'tmpl': tmpl, 'via': via, 'vals': vals}
                        if 'timelock' in tmpl:
                            case['height'] = g.choice(HEIGHTS[1:])
                        if mine():
                            yield case
                if 'timelock' in tmpl:
                    for h in HEIGHTS:
                        case = {'fam': 'gen1', 'side': side, 'tmpl': tmpl, 'via': via, 'height': h,
                                'vals': {s: small_spec(g, s) if s != 'pubkey_hash' else ['r', 20, g.getrandbits(32)]
                                         for s in slots}}
                        if mine():
                            yield case
    # A2. transaction framing: every template x slot fitted to total script lengths around the CompactSize width changes;
    #     numbers of inputs / outputs around the same boundaries
    for side, table in (('output', OUT_T), ('input', IN_T)):
        for tmpl in table:
            if tmpl == 'timelock':
                continue
            for slot in slots_of(side, tmpl):
                for lo, hi in FRAME_WINDOWS:
                    if mine():
                        yield {'fam': 'frame', 'side': side, 'tmpl': tmpl, 'slot': slot, 'lo': lo, 'hi': hi,
                               'seed': (lo * 31 + len(tmpl) * 7 + len(slot)) & 0xffffffff}
    for side in ('outputs', 'inputs'):
        for n in TX_COUNTS + ([] if quick else [65535, 65536]):
            if mine():
                yield {'fam': 'txcount', 'side': side, 'n': n, 'seed': rng.getrandbits(40)}
    # B. sweeps of every length
    windows = [(0, 300), (65500, 65560)]
    for side, table in (('output', OUT_T), ('input', IN_T)):
        for tmpl in table:
            for slot in slots_of(side, tmpl):
                for lo, hi in windows:
                    if lo > 1000 and quick and slot not in ('claim', 'data', 'support', 'signature', 'claim_name'):
                        continue
                    a = lo
                    while a <= hi:
                        b = min(hi, a + 49)
                        if mine():
                            yield {'fam': 'sweep', 'side': side, 'tmpl': tmpl, 'slot': slot, 'lo': a, 'hi': b,
                                   'seed': (a * 7919 + len(tmpl)) & 0xffffffff}
                        a = b + 1
    if not quick:
        for side, tmpl, slot in (('output', 'return_data', 'data'), ('output', 'claim_name+pay_pubkey_hash', 'claim'),
                                 ('input', 'pubkey_hash', 'signature')):
            a = 301
            while a <= 70000:
                b = min(70000, a + 99)
                if mine():
                    yield {'fam': 'sweep', 'side': side, 'tmpl': tmpl, 'slot': slot, 'lo': a, 'hi': b, 'seed': a}
                a = b + 1
    # C. exhaustive short byte strings
    if mine():
        yield {'fam': 'enum', 'len': 0, 'first': 0}
    for first in range(256):
        if mine():
            yield {'fam': 'enum', 'len': 2, 'first': first}       # also covers the 1-byte string [first]
    if not quick:
        for first in ENUM_FIRST_BYTES:
            for second in range(256):
                if mine():
                    yield {'fam': 'enum', 'len': 3, 'first': first, 'second': second}
    # D. PUSH_MANY parser mechanism
    for k in range(4 if quick else 40):
        yield {'fam': 'pushmany', 'seed': rng.getrandbits(40), 'count': 40}
    # E. library constructors taking schema objects; purchase typing
    for k in range(2 if quick else 20):
        yield {'fam': 'objects', 'seed': rng.getrandbits(40), 'count': 30}
        yield {'fam': 'purchase', 'seed': rng.getrandbits(40), 'count': 30}
    # F. seeded random mixes, interleaved so that a budget stop still covers every family
    rounds = 8 if quick else 250
    for k in range(rounds):
        yield {'fam': 'randgen', 'seed': rng.getrandbits(40), 'count': 150}
        for kind in ('token-edit', 'mutate', 'truncate', 'nonminimal', 'concat', 'random'):
            yield {'fam': 'bytes', 'kind': kind, 'seed': rng.getrandbits(40), 'count': 40 if kind == 'truncate' else 400}
        yield {'fam': 'bytes', 'kind': 'token-edit', 'side': 'input', 'seed': rng.getrandbits(40), 'count': 100}
    _GEN_EXHAUSTED = True


# ------------------------------------------------------------------ real-code access
_L = {}


def lib():
    if not _L:
        boot.import_lbry()
        from lbry.wallet import script as S
        from lbry.wallet.transaction import Output, Input, Transaction, TXORef
        from lbry.wallet.hash import TXRefImmutable
        from lbry.wallet.database import Database
        from lbry.wallet.ledger import Ledger
        from lbry.schema.claim import Claim
        from lbry.schema.support import Support
        from lbry.schema.purchase import Purchase
        db = Database(':memory:')
        db.ledger = Ledger
        _L.update(S=S, OutputScript=S.OutputScript, InputScript=S.InputScript, Script=S.Script, Template=S.Template,
                  Output=Output, Input=Input, Transaction=Transaction, TXORef=TXORef, TXRefImmutable=TXRefImmutable,
                  db=db, Ledger=Ledger, Claim=Claim, Support=Support, Purchase=Purchase)
    return _L


_VECTORS = None


def vectors():
    global _VECTORS
    if _VECTORS is None:
        with open(os.path.join(boot.VERIF, 'fixtures', 'c15_script_vectors.json')) as f:
            _VECTORS = json.load(f)['vectors']
    return _VECTORS


def shard_setup(rec, tier):
    n = R.self_check(vectors())          # raises AssertionError -> harness-error -> inconclusive
    rec.hit('ref.selfcheck_vectors', n)
    rec.exhaustive['all byte strings of length <= 2 as output scripts'] = False


def shard_finish(rec, tier):
    done = _GEN_EXHAUSTED and not rec.out_of_time()
    rec.exhaustive['all byte strings of length <= 2 as output scripts'] = bool(done)


# ------------------------------------------------------------------ G3 / G4 on one byte string
def hexs(b, limit=160):
    h = bytes(b).hex()
    return h if len(h) <= limit else f'{h[:limit]}..({len(b)} bytes)'


def lib_parse(rec, cls, src, hint=None, tag='G3'):
    """-> (script or None, name or None, values or None).  Only the parse itself is inside the try."""
    try:
        s = cls(src, template_hint=hint) if hint is not None else cls(src)
        name = s.template.name
        values = s.values
        if name == 'unknown':
            # since the C09 fix an OutputScript matching no template parses as the catch-all 'unknown' template instead of
            # raising ValueError: that IS the library's "no template" verdict (all predicates must then be False)
            rec.log(f'{tag}.unclassified_by/unknown-template')
            return s, None, values
        return s, name, values
    except ValueError:
        rec.log(f'{tag}.unclassified_by/ValueError')
        return None, None, None
    except Exception as e:  # noqa  (exception types on malformed scripts are logged, judged through the class only)
        rec.log(f'{tag}.unclassified_by/{type(e).__name__}')
        return None, None, None


def bytes1(side, src, label):
    return {'fam': 'bytes1', 'side': side, 'hex': bytes(src).hex(), 'label': label}


def check_output_bytes(rec, src, label, replay=None, count_case=True):
    """G3 + G4 for one byte string offered as an output script."""
    L = lib()
    src = bytes(src)
    replay = replay or bytes1('output', src, label)
    if count_case:
        rec.case(b'o' + src, sample={'output_script': hexs(src, 80), 'class': label} if len(src) < 80 else None)
    ref = R.classify_output(src)
    if len(ref.all_names) > 1:
        raise AssertionError(f'reference pattern table ambiguous on {src.hex()}: {ref.all_names}')
    want = ref.name if src else 'no_script'
    s, name, values = lib_parse(rec, L['OutputScript'], src)
    rec.hit('G3.checked')
    rec.hit('G3.in.' + label.split(':')[0])
    rec.hit('G3.kind.' + ref.kind)
    rec.hit('G3.ref_malformed' if ref.malformed else ('G3.ref_classified' if ref.name else 'G3.ref_unclassified'))
    if name != want:
        if ref.malformed and name is not None:
            key = f'C15/G3/truncated-push-classified-as/{name}'
            why = f'a push runs past the end of the script ({ref.malformed}) so no opcode sequence exists'
        else:
            key = f'C15/G3/ref={want or "unclassified"}/lbry={name or "unclassified"}'
            why = f'opcode pattern says {want or "no template"}; tokens {ref.tokens!r}'[:400]
        rec.violation(key, f'OutputScript({hexs(src)}) classified as {name or "no template"}: {why}',
                      {'script': src.hex() if len(src) < 4000 else hexs(src), 'lbry_template': name,
                       'lbry_values': values, 'ref_template': want, 'ref_malformed': ref.malformed, 'input_class': label},
                      case=replay)
    elif name is not None and name != 'no_script':
        exp = ref.values
        if set(values) != set(exp):
            rec.violation(f'C15/G3/values/{name}/slot-set', f'OutputScript({hexs(src)}).values has slots {sorted(values)}',
                          {'script': hexs(src, 4000), 'lbry': sorted(values), 'ref': sorted(exp)}, case=replay)
        else:
            for slot, v in exp.items():
                if values[slot] != v:
                    rec.violation(f'C15/G3/values/{name}/{slot}',
                                  f'OutputScript({hexs(src)}).values[{slot!r}] = {hexs(values[slot])}, the push carries {hexs(v)}',
                                  {'script': hexs(src, 4000), 'slot': slot, 'lbry': values[slot], 'ref': v}, case=replay)
    if s is not None:
        rec.hit('G3.predicates_checked')
        # a class mismatch is already reported above; predicates are judged where the class agrees
        for pred, expect in (ref.predicates().items() if name == want else ()):
            got = getattr(s, pred)
            if bool(got) != expect:
                rec.violation(f'C15/G3/predicate/{pred}/{want or "unclassified"}',
                              f'OutputScript({hexs(src)}).{pred} = {got!r}; opcodes say {want or "no template"} -> {expect}',
                              {'script': hexs(src, 4000), 'predicate': pred, 'lbry': bool(got), 'ref': expect,
                               'lbry_template': name, 'ref_template': want}, case=replay)
        check_row(rec, src, ref, label, replay)
    else:
        rec.log('G4.not_typed_unclassified')
    return ref, name


def check_row(rec, src, ref, label, replay):
    """G4: Database.txo_to_row on a transaction holding this output."""
    L = lib()
    txo = L['Output'](1000, L['OutputScript'](src))
    v = txo.script.values
    if len(v.get('pubkey_hash') or v.get('script_hash') or b'') > 520:
        rec.log('G4.skipped_hash_slot_over_520_bytes(base58 of it is quadratic)')
        return
    tx = L['Transaction']().add_outputs([txo])
    try:
        row = L['db'].txo_to_row(tx, tx.outputs[0])
    except Exception as e:  # noqa
        rec.log(f'G4.txo_to_row_raises/{type(e).__name__}/{ref.kind}')
        return
    tt = row.get('txo_type', 0)
    kind = ref.kind
    rec.hit('G4.checked')
    if kind in ('claim', 'update'):
        ok = tt in CLAIM_TYPES
        rec.hit('G4.claimish_checked')
    elif kind == 'support':
        ok = tt == 3
        rec.hit('G4.claimish_checked')
    else:
        ok = tt == 0
        rec.hit('G4.payment_checked' if kind == 'payment' else 'G4.other_checked')
    if not ok:
        rec.violation(f'C15/G4/{kind}-typed-{TYPE_NAMES.get(tt, tt)}',
                      f'txo_to_row gives txo_type={tt} ({TYPE_NAMES.get(tt, "?")}) to output script {hexs(src)} whose opcodes say {kind}'
                      f' ({ref.name or "no template"})',
                      {'script': hexs(src, 4000), 'txo_type': tt, 'ref_kind': kind, 'ref_template': ref.name,
                       'row': {k: v for k, v in row.items() if k != 'script'}, 'input_class': label}, case=replay)
    if kind in ('claim', 'update', 'support') and ok:
        if row.get('claim_name') != ref.values['claim_name'].decode():
            rec.violation(f'C15/G4/claim-name-column/{kind}', f'txo_to_row claim_name={row.get("claim_name")!r} for {hexs(src)}',
                          {'script': hexs(src, 4000), 'row_claim_name': row.get('claim_name'),
                           'pushed': ref.values['claim_name']}, case=replay)


def check_input_bytes(rec, src, label):
    """input side: observed and logged only (see ASSUMPTIONS)."""
    L = lib()
    src = bytes(src)
    rec.case(b'i' + src)
    ref = R.classify_input(src)
    s, name, values = lib_parse(rec, L['InputScript'], src, tag='G3i')
    if name == 'script_hash+timelock':
        try:
            sub = values['script']
            _ = sub.template.name, sub.values
        except Exception:  # noqa
            name = None
    if name and 'multi_sig' in name:
        rec.log('G3i.lbry_says_multisig(outside the claim)')
        return
    want = ref.name if src else 'no_script'
    rec.log('G3i.agree' if name == want else
            f'G3i.differ/ref={"malformed" if ref.malformed else want or "unclassified"}/lbry={name or "unclassified"}')


# ------------------------------------------------------------------ G1 / G2 on one generated script
def generate(rec, side, tmpl, via, vals, height):
    """run the real generator; -> (source, cls, hint-template or None) or None if refused/raised."""
    L = lib()
    cls = L['OutputScript'] if side == 'output' else L['InputScript']
    attr, ctor = (OUT_T if side == 'output' else IN_T)[tmpl]
    T = getattr(cls, attr)
    hint = T if tmpl == 'timelock' else None
    slots = slots_of(side, tmpl)
    if via == 'raw':
        values = dict(vals)
        if tmpl == 'timelock':
            values['height'] = height
        elif tmpl == 'script_hash+timelock':
            values = {'signature': vals['signature'], 'pubkey': vals['pubkey'],
                      'script': cls(template=cls.TIME_LOCK_SCRIPT,
                                    values={'height': height, 'pubkey_hash': vals['pubkey_hash']})}
        return T.generate(values), cls, hint
    if tmpl == 'script_hash+timelock':
        if via == 'ctor':
            try:
                s = cls.redeem_time_lock_script_hash(vals['signature'], vals['pubkey'], height=height,
                                                     pubkey_hash=vals['pubkey_hash'])
            except ValueError:
                if not height or not vals['pubkey_hash']:
                    rec.log('G1.ctor_refused_zero_height_or_empty_hash')
                    return None
                raise
        else:
            sub = cls.TIME_LOCK_SCRIPT.generate({'height': height, 'pubkey_hash': vals['pubkey_hash']})
            s = cls.redeem_time_lock_script_hash(vals['signature'], vals['pubkey'], script_source=sub)
        return s.source, cls, hint
    s = getattr(cls, ctor)(*[vals[slot] for slot in slots])
    if s.template.name != tmpl:
        rec.violation(f'C15/G1/constructor-template/{tmpl}', f'{ctor} built template {s.template.name}', {'ctor': ctor})
    return s.source, cls, hint


def check_generated(rec, side, tmpl, via, vals, height=None, replay=None, g3=True, carry=False):
    """vals: {slot: bytes}.  G1 + G2 (+ G3/G4 through check_output_bytes, + G5 through check_carried)."""
    L = lib()
    what = f'{side}:{tmpl} via {via} lens={ {k: len(v) for k, v in vals.items()} }' + (f' height={height}' if height is not None else '')
    try:
        got = generate(rec, side, tmpl, via, vals, height)
    except Exception as e:  # noqa
        rec.violation(f'C15/G1/generate-raises/{tmpl}/{type(e).__name__}', f'{what}: generation raised {e!r}',
                      {'vals': vals, 'height': height}, case=replay)
        return None
    if got is None:
        return None
    src, cls, hint = got
    rec.case((b'o' if side == 'output' else b'i') + src,
             sample={'template': tmpl, 'via': via, 'source': hexs(src, 120), 'height': height} if len(src) < 200 else None)
    rec.hit('G1.via.' + ('ctor' if via.startswith('ctor') else 'raw'))
    rec.hit(f'G1.tmpl.{tmpl}')
    # ---- G2: independent reading of the generated bytes
    try:
        toks = R.tokenize(src)
    except R.Malformed as e:
        rec.violation(f'C15/G2/generated-script-malformed/{tmpl}', f'{what}: generated source is not a well-formed script ({e})',
                      {'source': hexs(src, 4000)}, case=replay)
        return src
    for t in toks:
        if t.is_push:
            rec.hit('G2.push_minimal_checked')
            n = len(t.data)
            if n in BOUNDARY:
                rec.hit(f'G2.len{n}')
            rec.hit('G2.form.' + R.minimal_form(n))
            if not t.minimal:
                rec.violation(f'C15/G2/non-minimal-push/{t.form}-where-{R.minimal_form(n)}',
                              f'{what}: a {n}-byte value is pushed with {t.form} (minimal form is {R.minimal_form(n)}); '
                              f'source {hexs(src)}', {'len': n, 'form': t.form, 'source': hexs(src, 4000)}, case=replay)
    if side == 'output':
        rv = R.classify_output(src)
    elif tmpl == 'timelock':
        rv = R.classify_timelock(src)
    else:
        rv = R.classify_input(src)
    exp_ref = dict(vals)
    if tmpl == 'timelock':
        exp_ref['height'] = height
    elif tmpl == 'script_hash+timelock':
        exp_ref = {'signature': vals['signature'], 'pubkey': vals['pubkey'],
                   'script': {'height': height, 'pubkey_hash': vals['pubkey_hash']}}
    if rv.name != tmpl:
        rec.violation(f'C15/G2/generated-opcodes-not-the-spec-pattern/{tmpl}',
                      f'{what}: generated source {hexs(src)} reads as {rv.name or "no template"} by the spec patterns',
                      {'source': hexs(src, 4000), 'tokens': repr(toks)[:600]}, case=replay)
    else:
        have = {k: ({k2: v2 for k2, v2 in v.items() if k2 != 'height_raw'} if isinstance(v, dict) else v)
                for k, v in rv.values.items() if k != 'height_raw'}
        if have != exp_ref:
            bad = sorted(k for k in set(have) | set(exp_ref) if have.get(k) != exp_ref.get(k))
            rec.violation(f'C15/G2/generated-payload/{tmpl}/{bad[0]}',
                          f'{what}: the pushes of the generated source do not carry the values (slot {bad})',
                          {'source': hexs(src, 4000), 'slots': bad}, case=replay)
        if 'timelock' in tmpl:
            raw = (rv.values['script'] if tmpl != 'timelock' else rv.values)['height_raw']
            rec.hit(f'G2.height_width{len(raw)}')
            if raw != R.scriptnum_encode(height):
                rec.log('G2.height_not_canonical_scriptnum(logged)')
    # ---- G1: the library parses its own output back
    try:
        p = cls(src, template_hint=hint) if hint is not None else cls(src)
        pname, pvals = p.template.name, p.values
    except Exception as e:  # noqa
        rec.violation(f'C15/G1/parse-raises/{tmpl}/{type(e).__name__}', f'{what}: parsing the generated source raised {e!r}',
                      {'source': hexs(src, 4000)}, case=replay)
        return src
    rec.hit('G1.roundtrip_checked')
    if pname != tmpl:
        rec.violation(f'C15/G1/template-mismatch/{tmpl}-parsed-as-{pname}',
                      f'{what}: generated source {hexs(src)} parses as {pname}', {'source': hexs(src, 4000), 'parsed': pname},
                      case=replay)
        return src
    exp = dict(vals)
    sub = None
    if tmpl == 'timelock':
        exp['height'] = height
    elif tmpl == 'script_hash+timelock':
        exp = {'signature': vals['signature'], 'pubkey': vals['pubkey']}
        sub = pvals.get('script')
    got_vals = {k: v for k, v in pvals.items() if k != 'script'} if sub is not None else dict(pvals)
    if got_vals != exp:
        bad = sorted(k for k in set(got_vals) | set(exp) if got_vals.get(k) != exp.get(k))
        rec.violation(f'C15/G1/value-mismatch/{tmpl}/{bad[0]}',
                      f'{what}: parsed values differ in {bad}: got {hexs(repr(got_vals.get(bad[0])).encode(), 200)}',
                      {'source': hexs(src, 4000), 'slots': bad, 'got': got_vals.get(bad[0]), 'want': exp.get(bad[0])},
                      case=replay)
    if 'height' in exp:
        rec.hit('G1.height_checked')
    if tmpl == 'script_hash+timelock':
        try:
            sname, svals = sub.template.name, sub.values
        except Exception as e:  # noqa
            rec.violation(f'C15/G1/subscript-parse-raises/{type(e).__name__}', f'{what}: sub-script parse raised {e!r}',
                          {'source': hexs(src, 4000)}, case=replay)
            return src
        rec.hit('G1.subscript_checked')
        rec.hit('G1.height_checked')
        if sname != 'timelock' or svals != {'height': height, 'pubkey_hash': vals['pubkey_hash']}:
            bad = 'template' if sname != 'timelock' else ('height' if svals.get('height') != height else 'pubkey_hash')
            rec.violation(f'C15/G1/value-mismatch/script_hash+timelock/script.{bad}',
                          f'{what}: sub-script parsed as {sname} height={svals.get("height")!r}',
                          {'source': hexs(src, 4000), 'sub_template': sname, 'sub_values': svals}, case=replay)
    if g3 and side == 'output':
        check_output_bytes(rec, src, 'generated:' + tmpl, replay=replay, count_case=False)
    if carry and tmpl != 'timelock':
        one = {'src': src, 'tmpl': tmpl, 'exp': exp_ref}
        guards = carry_guards()
        again = dict(replay, carry=True) if replay else None
        if side == 'output':
            check_carried(rec, guards['in'][:1], [guards['out'][0], one, guards['out'][1]], what, again)
        else:
            check_carried(rec, [guards['in'][0], one, guards['in'][1]], guards['out'][:1], what, again)
    return src


# ------------------------------------------------------------------ G5: generated scripts carried in a transaction
def ref_compact(n):
    """Bitcoin CompactSize (the "variable length integer" of the protocol documentation): shortest of 1 / fd+2 / fe+4 / ff+8."""
    if n < 0xfd:
        return bytes([n])
    if n <= 0xffff:
        return b'\xfd' + n.to_bytes(2, 'little')
    if n <= 0xffffffff:
        return b'\xfe' + n.to_bytes(4, 'little')
    return b'\xff' + n.to_bytes(8, 'little')


def ref_tx(ins, outs, locktime, version=1):
    """wire form of a transaction without witness data, from the protocol documentation ("tx" message).
    ins: [(previous tx hash, previous index, script, sequence)] · outs: [(amount, script)]"""
    out = bytearray(version.to_bytes(4, 'little') + ref_compact(len(ins)))
    for h, pos, script, seq in ins:
        out += h + pos.to_bytes(4, 'little') + ref_compact(len(script)) + script + seq.to_bytes(4, 'little')
    out += ref_compact(len(outs))
    for amount, script in outs:
        out += amount.to_bytes(8, 'little') + ref_compact(len(script)) + script
    return bytes(out + locktime.to_bytes(4, 'little'))


_GUARDS = {}


def carry_guards():
    """neighbours of a carried script, assembled by the reference: they must come back untouched."""
    if not _GUARDS:
        _GUARDS['in'] = []
        _GUARDS['out'] = []
        for k in (1, 2):
            vals = {'signature': bytes([0x30 + k]) * 71, 'pubkey': bytes([2, k]) + bytes(31)}
            _GUARDS['in'].append({'src': R.build(R.INPUT_PATTERNS['pubkey_hash'][0], [vals['signature'], vals['pubkey']]),
                                  'tmpl': 'pubkey_hash', 'exp': vals, 'guard': True})
            vals = {'pubkey_hash': bytes([0xa0 + k]) * 20}
            _GUARDS['out'].append({'src': R.build(R.OUTPUT_PATTERNS['pay_pubkey_hash'][0], [vals['pubkey_hash']]),
                                   'tmpl': 'pay_pubkey_hash', 'exp': vals, 'guard': True})
    return _GUARDS


def expected_plain(tmpl, vals, height):
    """the generating values in the shape plain_parse gives (time-lock sub-script as a dict)."""
    if tmpl == 'script_hash+timelock':
        return {'signature': vals['signature'], 'pubkey': vals['pubkey'],
                'script': {'height': height, 'pubkey_hash': vals['pubkey_hash']}}
    return dict(vals)


def plain_parse(script):
    """(template name, values) of a library Script; a sub-script value is replaced by the dict of its own values."""
    return script.template.name, {k: (dict(v.values) if hasattr(v, 'template') else v) for k, v in script.values.items()}


def check_carried(rec, ins, outs, what, replay):
    """G5.  ins / outs: [{'src': script bytes, 'tmpl': generating template, 'exp': generating values}] in transaction order
    (at least one input: a transaction without inputs reads as the segwit marker).  The library builds the transaction,
    serialises it and reads its own bytes again; everything is compared with what the harness put in.  -> raw or None"""
    L = lib()
    Tx, Input, Output = L['Transaction'], L['Input'], L['Output']
    put_ins = [(hashlib.sha256(b'C15 previous tx %d' % k).digest(), k % 5, e['src'], 0xffffffff - (k % 3)) for k, e in enumerate(ins)]
    put_outs = [(1000 + 7 * k, e['src']) for k, e in enumerate(outs)]
    locktime = 500000 + len(ins) + len(outs)
    try:
        tx = Tx(locktime=locktime)
        tx.add_inputs([Input(L['TXORef'](L['TXRefImmutable'].from_hash(h, -1), pos), L['InputScript'](src), seq)
                       for h, pos, src, seq in put_ins])
        tx.add_outputs([Output(amount, L['OutputScript'](src)) for amount, src in put_outs])
        raw = tx.raw
    except Exception as x:  # noqa
        rec.violation(f'C15/G5/carried-in-tx/serialize-raises/{type(x).__name__}',
                      f'{what}: building / serialising the transaction raised {x!r}',
                      {'input_script_lengths': [len(e['src']) for e in ins][:300],
                       'output_script_lengths': [len(e['src']) for e in outs][:300]}, case=replay)
        return None
    rec.hit('G5.carried_checked')
    for side, els in (('input', ins), ('output', outs)):
        if len(els) in FRAME_LENS:
            rec.hit(f'G5.count{len(els)}')
        for e in els:
            if not e.get('guard'):
                rec.hit('G5.carried.' + side)
                if len(e['src']) in FRAME_LENS:
                    rec.hit(f'G5.script_len{len(e["src"])}')
    forms = [('carried-in-tx', raw)]
    ref_raw = ref_tx(put_ins, put_outs, locktime)
    if raw != ref_raw:
        rec.log('G5.raw_differs_from_reference_framing(logged)')
        forms.append(('reference-framed-tx', ref_raw))
    for clause, data in forms:
        lens = f'{len(ins)} inputs with script lengths {[len(e["src"]) for e in ins][:6]}, {len(outs)} outputs with script lengths ' \
               f'{[len(e["src"]) for e in outs][:6]}'
        wit = {'raw': hexs(data, 1200), 'input_script_lengths': [len(e['src']) for e in ins][:300],
               'output_script_lengths': [len(e['src']) for e in outs][:300]}
        try:
            again = Tx(data)
            got_ins = [(i.txo_ref.tx_ref.hash, i.txo_ref.position, i.coinbase if i.script is None else i.script.source, i.sequence)
                       for i in again.inputs]
            got_outs = [(o.amount, o.script.source) for o in again.outputs]
            got_lock = again.locktime
        except Exception as x:  # noqa
            rec.violation(f'C15/G5/{clause}/reread-raises/{type(x).__name__}',
                          f'{what}: Transaction(raw) of the transaction carrying the script ({lens}) raised {x!r}', wit, case=replay)
            continue
        if len(got_ins) != len(put_ins) or len(got_outs) != len(put_outs):
            rec.violation(f'C15/G5/{clause}/count-changed', f'{what}: wrote {lens}; read back {len(got_ins)} inputs, {len(got_outs)} outputs',
                          wit, case=replay)
            continue
        bad = None
        for side, si, els, put, got, objs in (('input', 2, ins, put_ins, got_ins, again.inputs),
                                              ('output', 1, outs, put_outs, got_outs, again.outputs)):
            for k, e in enumerate(els):
                back = got[k][si]
                if back != e['src']:
                    try:
                        now = objs[k].script.template.name
                    except Exception as x:  # noqa
                        now = f'no template ({type(x).__name__})'
                    bad = (f'C15/G5/{clause}/script-bytes-changed/{side}',
                           f'{side} {k} was written with the {len(e["src"])}-byte {e["tmpl"]} script {hexs(e["src"], 60)} and read back as '
                           f'{len(back or b"")} bytes {hexs(back or b"", 60)} = {now}')
                elif got[k] != put[k]:
                    bad = (f'C15/G5/{clause}/fields-changed/{side}',
                           f'{side} {k}: wrote {put[k][:si] + put[k][si + 1:]!r} around the script, read {got[k][:si] + got[k][si + 1:]!r}')
                if bad:
                    break
            if bad:
                break
        if not bad and got_lock != locktime:
            bad = (f'C15/G5/{clause}/fields-changed/locktime', f'lock time {locktime} read back as {got_lock}')
        if bad:
            rec.violation(bad[0], f'{what}: {lens}: {bad[1]}', wit, case=replay)
            continue
        # same bytes; the statement speaks of template and values, so read them off the re-read transaction's own script objects
        for side, els, objs in (('input', ins, again.inputs), ('output', outs, again.outputs)):
            for k, e in enumerate(els):
                try:
                    name, vals = plain_parse(objs[k].script)
                except Exception as x:  # noqa
                    rec.violation(f'C15/G5/{clause}/parse-raises/{e["tmpl"]}/{type(x).__name__}',
                                  f'{what}: {side} {k} of the re-read transaction does not parse: {x!r}', wit, case=replay)
                    continue
                rec.hit('G5.parse_checked')
                if name != e['tmpl']:
                    rec.violation(f'C15/G5/{clause}/template-mismatch/{e["tmpl"]}-read-as-{name}',
                                  f'{what}: {side} {k} of the re-read transaction parses as {name}', wit, case=replay)
                elif vals != e['exp']:
                    slot = sorted(s for s in set(vals) | set(e['exp']) if vals.get(s) != e['exp'].get(s))[0]
                    rec.violation(f'C15/G5/{clause}/value-mismatch/{e["tmpl"]}/{slot}',
                                  f'{what}: {side} {k} of the re-read transaction has another {slot}', wit, case=replay)
    return raw


def fit_length(rec, side, tmpl, via, spec, slot, height, total):
    """set the length of spec[slot] so that the whole generated script is `total` bytes long.  The push header width depends on the
    length, so iterate to the fixed point; a few totals cannot be reached through a given slot (-> False, nearest kept)."""
    seed = spec[slot][2]
    n = max(0, total - 40)
    for _ in range(6):
        spec[slot] = ['r', n, seed]
        try:
            got = generate(rec, side, tmpl, via, {k: mk(v) for k, v in spec.items()}, height)
        except Exception:  # noqa  (check_generated reports it on the same input)
            return False
        if got is None:
            return False
        if len(got[0]) == total:
            return True
        n = max(0, n + total - len(got[0]))
    return False


# ------------------------------------------------------------------ generators of hostile byte strings
CONFUSABLE = {0x6d: [0x75, 0x6e], 0x75: [0x6d], 0xb5: [0xb6, 0xb7, 0xb8], 0xb6: [0xb5, 0xb7], 0xb7: [0xb5, 0xb6, 0xb9],
              0x76: [0x6e, 0x77], 0xa9: [0xaa, 0xa8, 0xa6], 0x88: [0x87], 0x87: [0x88], 0xac: [0xad, 0xae],
              0x6a: [0x69, 0x6b], 0x00: [0x51, 0x4f], 0xb1: [0xb2, 0xb0]}
ALPHABET = ENUM_FIRST_BYTES + [0x03, 0x05, 0x20, 0x21, 0x50, 0x52, 0x61, 0x69, 0xb0, 0xb2, 0xb8, 0xb9, 0xff]


def rand_payload(r, slot=None):
    if slot:
        return mk(small_spec(r, slot))
    return r.randbytes(r.choice([0, 1, 1, 2, 20, 20, 33, r.randrange(0, 80)]))


def rand_valid_tokens(r, side='output', tmpl=None):
    """-> (name, [('op', int) | ('push', bytes, form-or-None)])"""
    if side == 'output':
        name = tmpl or r.choice(list(R.OUTPUT_PATTERNS))
        pattern, slots = R.OUTPUT_PATTERNS[name]
    else:
        name = tmpl or r.choice(list(R.INPUT_PATTERNS))
        pattern, slots = R.INPUT_PATTERNS[name]
    toks, k = [], 0
    for want in pattern:
        if want == R.P:
            slot = slots[k]
            k += 1
            if slot == 'script':
                data = R.build(R.TIMELOCK_PATTERN[0], [R.scriptnum_encode(r.choice(HEIGHTS[1:])), r.randbytes(20)])
            else:
                data = rand_payload(r, slot)
            toks.append(('push', data, None))
        else:
            toks.append(('op', want))
    return name, toks


def ser(toks):
    out = bytearray()
    for t in toks:
        if t[0] == 'op':
            out.append(t[1])
        else:
            out += R.push(t[1], t[2])
    return bytes(out)


def token_edit(r, side='output'):
    name, toks = rand_valid_tokens(r, side)
    e = r.randrange(13)
    i = r.randrange(len(toks))
    if e == 0:
        pass
    elif e == 1:
        del toks[i]
    elif e == 2:
        toks.insert(i, toks[i])
    elif e == 3:
        ops = [j for j, t in enumerate(toks) if t[0] == 'op']
        if ops:
            j = r.choice(ops)
            toks[j] = ('op', r.choice(CONFUSABLE.get(toks[j][1], [0x61])))
    elif e == 4:
        ps = [j for j, t in enumerate(toks) if t[0] == 'push']
        j = r.choice(ps)
        toks[j] = ('op', r.choice([0x4f, 0x50, 0x51, 0x52, 0x60, 0x61]))
    elif e == 5:
        toks.insert(r.randrange(len(toks) + 1), ('push', rand_payload(r), None))
    elif e == 6:
        toks.insert(r.randrange(len(toks) + 1), ('op', r.choice(ALPHABET[8:])))
    elif e == 7 and len(toks) > 1:
        j = r.randrange(len(toks) - 1)
        toks[j], toks[j + 1] = toks[j + 1], toks[j]
    elif e == 8:
        # claim-ish head with a foreign tail / no tail
        h = r.choice(list(R.CLAIM_HEADS))
        pattern, slots = R.CLAIM_HEADS[h]
        k = 0
        toks = []
        for want in pattern:
            if want == R.P:
                toks.append(('push', rand_payload(r, slots[k]), None))
                k += 1
            else:
                toks.append(('op', want))
        tail = r.choice(['pay_pubkey_full', 'pay_script_hash+segwit', 'return_data', '', 'pay_pubkey_hash', 'pay_script_hash'])
        if tail:
            toks += rand_valid_tokens(r, 'output', tail)[1]
    elif e == 9:
        # double head / head of another kind in front of a full script
        toks = rand_valid_tokens(r, 'output', r.choice([n for n in R.OUTPUT_PATTERNS if '+pay_' in n]))[1][:5 + r.randrange(2)] + toks
    elif e == 10:
        toks = [(t if t[0] == 'op' else ('push', t[1], r.choice([f for f in R.FORMS if R.form_allows(f, len(t[1]))])))
                for t in toks]
    elif e == 11:
        b = ser(toks)
        return 'token-edit', b[:max(0, len(b) - r.randrange(1, 6))]
    else:
        # replace an opcode or push header by a push opcode that swallows the rest
        b = bytearray(ser(toks))
        b[r.randrange(len(b))] = r.choice([0x4c, 0x4d, 0x4e, 0x4b, 0x20, 0x01])
        return 'token-edit', bytes(b)
    return 'token-edit', ser(toks)


def mutate(r, side='output'):
    b = bytearray(ser(rand_valid_tokens(r, side)[1]))
    for _ in range(r.randrange(1, 4)):
        m = r.randrange(3)
        if m == 0 and b:
            b[r.randrange(len(b))] = r.choice(ALPHABET) if r.random() < 0.6 else r.randrange(256)
        elif m == 1:
            b.insert(r.randrange(len(b) + 1), r.choice(ALPHABET) if r.random() < 0.6 else r.randrange(256))
        elif b:
            del b[r.randrange(len(b))]
    return 'mutate', bytes(b)


def concat(r, side='output'):
    a = ser(rand_valid_tokens(r, side)[1])
    b = ser(rand_valid_tokens(r, side)[1])
    return 'concat', a + b


def random_string(r):
    n = r.choice([1, 2, 3, 3, 4, 4, 5, 6, 7, 8, 10, 12, 25, 40])
    if r.random() < 0.7:
        return 'random', bytes(r.choice(ALPHABET) for _ in range(n))
    return 'random', r.randbytes(n)


HOSTILE_FIXED = [
    '6a01', '0001', '6a4c', '6a4d', '6a4e', '6a4d05', '6a4e010000', '6a4effffffff01', '6a4e00000000', '6a4d0000', '6a4c00',
    '004c00', '004e00000000', '6a4c0100', '6a4b' + '00' * 74, '6a4b' + '00' * 75, '76a94c88ac', '76a914' + '11' * 20 + '88',
    'b5006d7576a90088ac', 'b500006d7576a90088ac', 'b50000006d7576a90088ac', 'b6006d7576a90088ac', 'b600006d7576a90088ac',
    'b60000006d6d76a90088ac', 'b70000006d6d76a90088ac', 'b700006d6d76a90088ac', 'b70000006d7576a90088ac',
    'b500006d75a90087', 'b500006d75a900', 'b500006d750000', 'b500006d756a00', 'b500006d7500ac', 'b551516d7576a90088ac',
    'b54f006d7576a90088ac', '00', '51', '4f', '0000', '00ac', '6a00', '6a51', '6a4f', '6a6a', '6a0000', 'a90087', 'a95187',
]


# ------------------------------------------------------------------ execute
def execute(rec, case):
    L = lib()
    fam = case['fam']
    if fam == 'gen1':
        vals = {k: mk(v) for k, v in case['vals'].items()}
        check_generated(rec, case['side'], case['tmpl'], case['via'], vals, case.get('height'), replay=case,
                        carry=case.get('carry', True))
    elif fam == 'bytes1':
        src = bytes.fromhex(case['hex'])
        if case.get('side', 'output') == 'output':
            check_output_bytes(rec, src, case.get('label', 'replay'), replay=case)
        else:
            check_input_bytes(rec, src, case.get('label', 'replay'))
    elif fam == 'nonmin1':
        exec_nonminimal(rec, case)
    elif fam == 'fixtures':
        for hx in HOSTILE_FIXED:
            check_output_bytes(rec, bytes.fromhex(hx), 'fixture')
        for v in vectors():
            src = bytes.fromhex(v['script'])
            if v['side'] == 'output':
                ref, name = check_output_bytes(rec, src, 'fixture')
                if ref.name != v['name']:
                    raise AssertionError('reference disagrees with fixture ' + v['script'][:60])
            else:
                check_input_bytes(rec, src, 'fixture')
                if v['name'] in ('pubkey', 'pubkey_hash', 'script_hash+timelock') and v.get('minimal'):
                    # real main-net / upstream input scripts: these ARE library-generatable, judge G1 on them
                    s, name, values = lib_parse(rec, L['InputScript'], src, tag='G1fix')
                    rec.hit('G1.fixture_inputs_checked')
                    if name != v['name']:
                        rec.violation(f'C15/G1/fixture-input/{v["name"]}-parsed-as-{name}',
                                      f'InputScript({hexs(src)}) = {name}', {'script': src.hex()},
                                      case=bytes1('input', src, 'fixture'))
    elif fam == 'sweep':
        side, tmpl, slot = case['side'], case['tmpl'], case['slot']
        r = random.Random(case['seed'])
        slots = slots_of(side, tmpl)
        vias = vias_of(side, tmpl)
        for n in range(case['lo'], case['hi'] + 1):
            spec = {s: small_spec(r, s) for s in slots}
            spec[slot] = ['r', n, r.getrandbits(32)]
            via = vias[n % len(vias)]
            one = {'fam': 'gen1', 'side': side, 'tmpl': tmpl, 'via': via, 'vals': spec}
            if 'timelock' in tmpl:
                one['height'] = r.choice(HEIGHTS[1:])
            check_generated(rec, side, tmpl, via, {k: mk(v) for k, v in spec.items()}, one.get('height'), replay=one,
                            g3=(n % 4 == 0), carry=(n % 4 == 2))
            if rec.out_of_time():
                break
    elif fam == 'frame':
        side, tmpl, slot = case['side'], case['tmpl'], case['slot']
        r = random.Random(case['seed'])
        slots = slots_of(side, tmpl)
        vias = vias_of(side, tmpl)
        for total in range(case['lo'], case['hi'] + 1):
            spec = {s: small_spec(r, s) for s in slots}
            spec[slot] = ['r', 0, r.getrandbits(32)]
            via = vias[total % len(vias)]
            one = {'fam': 'gen1', 'side': side, 'tmpl': tmpl, 'via': via, 'vals': spec, 'carry': True}
            if 'timelock' in tmpl:
                one['height'] = r.choice(HEIGHTS[1:])
            rec.hit('G5.frame_fitted' if fit_length(rec, side, tmpl, via, spec, slot, one.get('height'), total)
                    else 'G5.frame_total_not_reached_through_this_slot')
            check_generated(rec, side, tmpl, via, {k: mk(v) for k, v in spec.items()}, one.get('height'), replay=one,
                            g3=False, carry=True)
            if rec.out_of_time():
                break
    elif fam == 'txcount':
        exec_txcount(rec, case)
    elif fam == 'randgen':
        r = random.Random(case['seed'])
        for _ in range(case['count']):
            side = 'output' if r.random() < 0.7 else 'input'
            tmpl = r.choice(list(OUT_T if side == 'output' else IN_T))
            slots = slots_of(side, tmpl)
            spec = {}
            for s in slots:
                u = r.random()
                if u < 0.7:
                    spec[s] = small_spec(r, s)
                elif u < 0.93:
                    spec[s] = ['r', max(0, r.choice(BOUNDARY[:10]) + r.randrange(-2, 3)), r.getrandbits(32)]
                elif u < 0.97:
                    spec[s] = ['r', max(0, r.choice(BOUNDARY[10:]) + r.randrange(-2, 3)), r.getrandbits(32)]
                else:
                    spec[s] = ['r', r.randrange(0, 70001), r.getrandbits(32)]
            via = r.choice(vias_of(side, tmpl))
            one = {'fam': 'gen1', 'side': side, 'tmpl': tmpl, 'via': via, 'vals': spec}
            if 'timelock' in tmpl:
                w = r.randrange(1, 6)
                one['height'] = r.choice([r.choice(HEIGHTS), r.randrange(1 << (8 * w - 1)), r.randrange(1, 2 ** 32)])
            check_generated(rec, side, tmpl, via, {k: mk(v) for k, v in spec.items()}, one.get('height'), replay=one, carry=True)
            if rec.out_of_time():
                break
    elif fam == 'enum':
        if case['len'] == 0:
            check_output_bytes(rec, b'', 'enum')
        elif case['len'] == 2:
            check_output_bytes(rec, bytes([case['first']]), 'enum')
            for b in range(256):
                check_output_bytes(rec, bytes([case['first'], b]), 'enum')
        else:
            for b in range(256):
                check_output_bytes(rec, bytes([case['first'], case['second'], b]), 'enum')
    elif fam == 'bytes':
        r = random.Random(case['seed'])
        kind, side = case['kind'], case.get('side', 'output')
        for _ in range(case['count']):
            if kind == 'token-edit':
                label, src = token_edit(r, side)
            elif kind == 'mutate':
                label, src = mutate(r, side)
            elif kind == 'concat':
                label, src = concat(r, side)
            elif kind == 'random':
                label, src = random_string(r)
            elif kind == 'truncate':
                full = ser(rand_valid_tokens(r, side)[1])
                if r.random() < 0.15:      # a script with a PUSHDATA1/2 push
                    full = R.build(R.OUTPUT_PATTERNS['return_data'][0], [r.randbytes(r.choice([76, 200, 255, 256, 300]))])
                offs = range(len(full)) if len(full) <= 120 else sorted(set(list(range(8)) + [r.randrange(len(full)) for _ in range(40)]
                                                                        + list(range(len(full) - 30, len(full)))))
                for o in offs:
                    check_output_bytes(rec, full[:o], 'truncate')
                continue
            elif kind == 'nonminimal':
                name, toks = rand_valid_tokens(r, side)
                one = {'fam': 'nonmin1', 'toks': [[t[0], t[1]] if t[0] == 'op' else ['push', t[1].hex()] for t in toks],
                       'forms': [r.choice([f for f in R.FORMS if R.form_allows(f, len(t[1]))]) for t in toks if t[0] == 'push'],
                       'name': name}
                exec_nonminimal(rec, one)
                continue
            if side == 'output':
                check_output_bytes(rec, src, label)
            else:
                check_input_bytes(rec, src, label)
            if rec.out_of_time():
                break
    elif fam == 'pushmany':
        exec_pushmany(rec, case)
    elif fam == 'objects':
        exec_objects(rec, case)
    elif fam == 'purchase':
        exec_purchase(rec, case)
    else:
        raise ValueError(f'unknown case family {fam}')


def exec_nonminimal(rec, case):
    """a valid output script re-encoded with chosen (possibly non-minimal) push forms keeps its class and values."""
    toks = [('op', t[1]) if t[0] == 'op' else ('push', bytes.fromhex(t[1]), None) for t in case['toks']]
    forms = list(case['forms'])
    k = 0
    out = []
    for t in toks:
        if t[0] == 'push':
            out.append(('push', t[1], forms[k]))
            k += 1
        else:
            out.append(t)
    src = ser(out)
    ref = R.classify_output(src)
    if ref.name != case['name'] or R.classify_output(ser(toks)).values != ref.values:
        raise AssertionError('reference: re-encoding changed the class ' + src.hex()[:80])
    rec.hit('G3.nonminimal_reencodings')
    if not all(t.minimal for t in ref.tokens if t.is_push):
        rec.hit('G3.nonminimal_with_a_nonminimal_push')
    check_output_bytes(rec, src, 'nonminimal', replay=case)


def exec_txcount(rec, case):
    """G5 on the number of inputs / outputs: a transaction carrying n generated scripts on one side."""
    r = random.Random(case['seed'])
    side = 'output' if case['side'] == 'outputs' else 'input'
    names = [t for t in (OUT_T if side == 'output' else IN_T) if t != 'timelock']
    els = []
    while len(els) < case['n']:
        tmpl = r.choice(names)
        vals = {s: mk(small_spec(r, s)) for s in slots_of(side, tmpl)}
        height = r.choice(HEIGHTS[1:]) if 'timelock' in tmpl else None
        if height is not None and not vals['pubkey_hash']:
            vals['pubkey_hash'] = r.randbytes(20)         # the constructor refuses an empty hash (logged in G1)
        try:
            got = generate(rec, side, tmpl, r.choice(vias_of(side, tmpl)), vals, height)
        except Exception as x:  # noqa  (generation failures are judged by G1 on the same input classes)
            rec.log(f'G5.count.generate_raises/{type(x).__name__}')
            got = None
        if got is None:
            continue
        els.append({'src': got[0], 'tmpl': tmpl, 'exp': expected_plain(tmpl, vals, height)})
    guards = carry_guards()
    what = f'transaction with {case["n"]} generated {side} scripts'
    raw = check_carried(rec, els, guards['out'][:1], what, case) if side == 'input' else \
        check_carried(rec, guards['in'][:1], els, what, case)
    if raw is not None:
        rec.case(b'n' + raw)
        rec.hit('G5.count_checked')


def exec_pushmany(rec, case):
    """Parser mechanism 'non-greedy PUSH_MANY' (anchored): generate -> parse with the generating template."""
    L = lib()
    S, I = L['S'], L['InputScript']
    r = random.Random(case['seed'])
    custom = [
        ('many,single', (S.PUSH_MANY('many'), S.PUSH_SINGLE('a'))),
        ('many,single,single,op', (S.PUSH_MANY('many'), S.PUSH_SINGLE('a'), S.PUSH_SINGLE('b'), S.OP_CHECKSIG)),
        ('single,many,single', (S.PUSH_SINGLE('a'), S.PUSH_MANY('many'), S.PUSH_SINGLE('b'))),
        ('op,many,single,op,single', (S.OP_HASH160, S.PUSH_MANY('many'), S.PUSH_SINGLE('a'), S.OP_EQUAL, S.PUSH_SINGLE('b'))),
        ('smallint,many,smallint,op', (S.SMALL_INTEGER('m'), S.PUSH_MANY('many'), S.SMALL_INTEGER('n'), S.OP_CHECKMULTISIG)),
    ]
    for _ in range(case['count']):
        # (a) the library's own multi-sig redeem form, parsed with the generating template as hint
        nsig, npub = r.randrange(1, 6), r.randrange(1, 17)
        sigs = [r.randbytes(r.choice([1, 71, 72, 73, 75, 76])) for _ in range(nsig)]
        pubs = [r.randbytes(r.choice([33, 33, 65, 1])) for _ in range(npub)]
        one = {'fam': 'pushmany', 'seed': case['seed'], 'count': case['count']}
        try:
            src = I.redeem_multi_sig_script_hash(sigs, pubs).source
            p = I(src, template_hint=I.REDEEM_SCRIPT_HASH_MULTI_SIG)
            name, vals = p.template.name, p.values
            sub = vals['script']
            sname, svals = sub.template.name, sub.values
        except Exception as e:  # noqa
            src = None
            rec.violation(f'C15/G1/push-many/multi-sig-raises/{type(e).__name__}',
                          f'redeem_multi_sig_script_hash({nsig} sigs, {npub} pubkeys) generate/parse raised {e!r}',
                          {'sigs': sigs, 'pubkeys': pubs}, case=one)
        if src is not None:
            rec.case(b'm' + src)
            rec.hit('G1.pushmany_checked')
            ok = (name == 'script_hash+multi_sig' and vals['signatures'] == sigs and sname == 'multi_sig'
                  and svals == {'signatures_count': nsig, 'pubkeys': pubs, 'pubkeys_count': npub})
            if not ok:
                rec.violation('C15/G1/push-many/multi-sig-values',
                              f'multi-sig redeem script with {nsig} signatures / {npub} pubkeys parsed (template given) as {name}: '
                              f'{len(vals.get("signatures", []))} signatures, sub-script {sname}',
                              {'source': hexs(src, 2000), 'sigs': sigs, 'pubkeys': pubs,
                               'parsed_signatures': vals.get('signatures'), 'parsed_sub': dict(svals)}, case=one)
            # first-match classification of multi-sig scripts is outside the claim: observe only
            try:
                fm = I(src).template.name
            except Exception as e:  # noqa
                fm = type(e).__name__
            rec.log(f'G1m.first_match_of_multisig_with_{min(nsig, 2)}{"+" if nsig > 2 else ""}_sigs={fm}')
        # (b) harness-defined templates through the real Template/Parser
        label, opcodes = r.choice(custom)
        T = L['Template']('harness:' + label, opcodes)
        values = {}
        for op in opcodes:
            if isinstance(op, S.PUSH_MANY):
                values[op.name] = [r.randbytes(r.choice([1, 2, 20, 75, 76, 80])) for _ in range(r.randrange(1, 5))]
            elif isinstance(op, S.PUSH_SINGLE):
                values[op.name] = r.randbytes(r.choice([1, 2, 20, 33, 76]))
            elif isinstance(op, S.SMALL_INTEGER):
                values[op.name] = r.randrange(1, 17)
        try:
            src = T.generate(values)
            back = T.parse(S.tokenize(S.BCDataStream(src)))
        except Exception as e:  # noqa
            rec.violation(f'C15/G1/push-many/harness-template-raises/{label}/{type(e).__name__}',
                          f'Template({label}).generate/parse raised {e!r}', {'values': values}, case=one)
            continue
        rec.case(b'h' + src)
        rec.hit('G1.pushmany_checked')
        if back != values:
            rec.violation(f'C15/G1/push-many/harness-template-values/{label}',
                          f'Template({label}) generate->parse changed the values: {hexs(src)}',
                          {'source': hexs(src, 2000), 'values': values, 'parsed': back}, case=one)


def exec_objects(rec, case):
    """Output.* constructors with real Claim / Support objects whose serialised length crosses push boundaries."""
    L = lib()
    Output, Claim, Support = L['Output'], L['Claim'], L['Support']
    r = random.Random(case['seed'])
    for _ in range(case['count']):
        n = r.choice([0, 1, 40, 60, 66, 67, 68, 69, 70, 71, 72, 73, 74, 75, 76, 77, 78, 240, 245, 246, 247, 248, 249, 250, 251,
                      252, 253, 254, 255, 256, 257, 258, 65500, 65520, 65525, 65526, 65527, 65528, 65529, 65530, 65531,
                      65532, 65533, 65534, 65535, 65536, 65537, 65540, 70000, r.randrange(0, 400)])
        name = mk(['t', r.choice([1, 3, 8, 30]), r.getrandbits(32)]).decode()
        claim_id = r.randbytes(20).hex()
        h = r.randbytes(20)
        kind = r.choice(['claim', 'update', 'support_data', 'support', 'channel'])
        one = {'fam': 'objects', 'seed': case['seed'], 'count': case['count']}
        try:
            if kind in ('claim', 'update', 'channel'):
                obj = Claim()
                if kind == 'channel':
                    obj.channel.title = 'c' * n
                else:
                    obj.stream.title = 't' * n
                payload = obj.to_bytes()
                if kind == 'update':
                    txo = Output.pay_update_claim_pubkey_hash(1000, name, claim_id, obj, h)
                    tmpl, exp = 'update_claim+pay_pubkey_hash', {'claim_name': name.encode(), 'claim_id': bytes.fromhex(claim_id)[::-1],
                                                                 'claim': payload, 'pubkey_hash': h}
                else:
                    txo = Output.pay_claim_name_pubkey_hash(1000, name, obj, h)
                    tmpl, exp = 'claim_name+pay_pubkey_hash', {'claim_name': name.encode(), 'claim': payload, 'pubkey_hash': h}
            elif kind == 'support_data':
                obj = Support()
                obj.emoji = '👍' * (n % 300)
                payload = obj.to_bytes()
                txo = Output.pay_support_data_pubkey_hash(1000, name, claim_id, obj, h)
                tmpl, exp = 'support_claim+data+pay_pubkey_hash', {'claim_name': name.encode(), 'claim_id': bytes.fromhex(claim_id)[::-1],
                                                                   'support': payload, 'pubkey_hash': h}
            else:
                txo = Output.pay_support_pubkey_hash(1000, name, claim_id, h)
                tmpl, exp = 'support_claim+pay_pubkey_hash', {'claim_name': name.encode(), 'claim_id': bytes.fromhex(claim_id)[::-1],
                                                              'pubkey_hash': h}
            src = txo.script.source
        except Exception as e:  # noqa
            rec.violation(f'C15/G1/objects/constructor-raises/{kind}/{type(e).__name__}', f'Output constructor for {kind} raised {e!r}',
                          {'kind': kind, 'n': n}, case=one)
            continue
        rec.case(b'o' + src)
        rec.hit('G1.objects_checked')
        ref, lname = check_output_bytes(rec, src, 'generated:' + tmpl, count_case=False)
        toks = ref.tokens or []
        for t in toks:
            if t.is_push:
                rec.hit('G2.push_minimal_checked')
                rec.hit('G2.objects_form.' + t.form)
                if not t.minimal:
                    rec.violation(f'C15/G2/non-minimal-push/{t.form}-where-{R.minimal_form(len(t.data))}',
                                  f'Output constructor ({kind}, payload {len(t.data)} bytes) pushed with {t.form}', {'source': hexs(src, 2000)},
                                  case=bytes1('output', src, 'generated:' + tmpl) if len(src) < 3000 else one)
        if ref.name != tmpl or ref.values != exp:
            bad = 'template' if ref.name != tmpl else sorted(k for k in exp if ref.values.get(k) != exp[k])[0]
            rec.violation(f'C15/G2/generated-payload/{tmpl}/{bad}',
                          f'Output constructor ({kind}): generated source reads as {ref.name} / differs in {bad}',
                          {'source': hexs(src, 2000), 'kind': kind}, case=one)
        # G1: fresh parse gives the same bytes back; regenerate from parsed values is byte-identical
        try:
            p = L['OutputScript'](src)
            pv = dict(p.values)
            again = p.template.generate(pv)
        except Exception as e:  # noqa
            rec.violation(f'C15/G1/objects/parse-raises/{type(e).__name__}', f'parse of {kind} script raised {e!r}',
                          {'source': hexs(src, 2000)}, case=one)
            continue
        if p.template.name != tmpl or pv != exp or again != src:
            rec.violation(f'C15/G1/objects/roundtrip/{tmpl}', f'Output constructor ({kind}) script does not parse back to its values',
                          {'source': hexs(src, 2000), 'parsed_template': p.template.name}, case=one)


def exec_purchase(rec, case):
    """purchase typing: library-built [payment, OP_RETURN purchase] transactions, serialised and re-parsed."""
    L = lib()
    Output, Input, Transaction, Purchase, db = L['Output'], L['Input'], L['Transaction'], L['Purchase'], L['db']
    r = random.Random(case['seed'])
    for _ in range(case['count']):
        claim_id = r.randbytes(20).hex()
        h = r.randbytes(20)
        shape = r.choice(['purchase', 'purchase', 'plain-data', 'claim-first', 'no-data', 'truncated-purchase-data'])
        one = {'fam': 'purchase', 'seed': case['seed'], 'count': case['count']}
        prev = Transaction().add_outputs([Output.pay_pubkey_hash(5000, r.randbytes(20))]).outputs[0]
        first = Output.pay_pubkey_hash(1000, h)
        if shape == 'claim-first':
            first = Output(1000, L['OutputScript'].pay_claim_name_pubkey_hash(b'name', r.randbytes(10), h))
        outs = [first]
        if shape in ('purchase', 'claim-first'):
            outs.append(Output.add_purchase_data(Purchase(claim_id)))
        elif shape == 'truncated-purchase-data':
            # OP_RETURN followed by a push that announces more bytes than the script holds: not a script, so no purchase
            payload = Purchase(claim_id).to_bytes()
            head = r.choice([bytes([len(payload) + r.randrange(1, 20)]), b'\x4c\xff', b'\x4d\x00\x10', b'\x4e\xff\xff\xff\x7f'])
            outs.append(Output(0, L['OutputScript'](b'\x6a' + head + payload)))
        elif shape == 'plain-data':
            outs.append(Output(0, L['OutputScript'].return_data(bytes([r.choice([0x00, 0x4f, 0x51, 0x70])]) + r.randbytes(22))))
        else:
            outs.append(Output.pay_pubkey_hash(700, r.randbytes(20)))
        raw = Transaction().add_inputs([Input.spend(prev)]).add_outputs(outs).raw
        tx = Transaction(raw)
        refs = [R.classify_output(o.script.source) for o in tx.outputs]
        try:
            db.tx_to_row(tx)
            rows = [db.txo_to_row(tx, tx.outputs[0])]
            if refs[1].malformed:
                try:                    # an unclassifiable output may make txo_to_row raise: types nothing, logged
                    rows.append(db.txo_to_row(tx, tx.outputs[1]))
                except Exception as e:  # noqa
                    rec.log(f'G4.txo_to_row_raises/{type(e).__name__}/malformed-data-output')
                    rows.append({})
            else:
                rows.append(db.txo_to_row(tx, tx.outputs[1]))
        except Exception as e:  # noqa
            rec.violation(f'C15/G4/purchase/{shape}/raises/{type(e).__name__}', f'tx_to_row/txo_to_row raised {e!r} on a {shape} tx',
                          {'raw': raw.hex()}, case=one)
            continue
        rec.case(b'p' + raw)
        rec.hit('G4.purchase_checked')
        rec.hit('G4.purchase_shape.' + shape)
        t0, t1 = rows[0].get('txo_type', 0), rows[1].get('txo_type', 0)
        data_is_purchase = (refs[1].name == 'return_data' and refs[1].values['data'][:1] == b'P')
        if shape == 'purchase':
            ok = data_is_purchase and t0 == 4 and rows[0].get('claim_id') == claim_id and t1 == 0
        elif shape == 'claim-first':
            ok = data_is_purchase and t0 in CLAIM_TYPES and t1 == 0
        else:
            ok = (not data_is_purchase) and t0 == 0 and t1 == 0
        if not ok and shape == 'truncated-purchase-data':
            rec.violation('C15/G4/purchase/truncated-push-typed-purchase',
                          f'output 0 typed {TYPE_NAMES.get(t0, t0)} (claim_id {rows[0].get("claim_id")!r}) because output 1 '
                          f'{hexs(tx.outputs[1].script.source)} — OP_RETURN + a push running past the end — was read as purchase data',
                          {'raw': raw.hex(), 'data_output_script': tx.outputs[1].script.source.hex(),
                           'rows': [{k: v for k, v in row.items() if k != 'script'} for row in rows]}, case=one)
        elif not ok:
            rec.violation(f'C15/G4/purchase/{shape}-typed-{TYPE_NAMES.get(t0, t0)},{TYPE_NAMES.get(t1, t1)}',
                          f'{shape} transaction: outputs typed {t0},{t1}; claim_id column {rows[0].get("claim_id")!r} (purchase of {claim_id})',
                          {'raw': raw.hex(), 'rows': [{k: v for k, v in row.items() if k != 'script'} for row in rows],
                           'ref': [x.name for x in refs]}, case=one)

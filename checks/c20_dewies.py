"""C20 — LBC <-> dewies exact.  [DIFF] real dewies_to_lbc / lbc_to_dewies against exact
integer arithmetic (divmod) and a hand-written grammar recogniser (no regex shared)."""
from decimal import Decimal

from vlib import boot

ID = 'C20'
LEVEL = 'exploration'
RULE = ('integers: every n in windows around 10^k (k<=17), 2^53, every digit-length boundary, 2.1e17, '
        'plus seeded random n in [0, 2.1e17], each also negated; strings: generated near the grammar '
        r'\d{1,10}\.\d{1,8}.  distinct = distinct integer / distinct string; non-trivial = every case '
        '(each value is an independent input of a pure function)')
ASSUMPTIONS = ['negative amounts are formatting-only (the parser grammar has no sign): round trip asked for n>=0',
               'non-ASCII decimal digits accepted by \\d are logged, not judged']
REQUIRED_HITS = ['T1.checked', 'T2.checked', 'T3.reject_checked', 'T3.accept_checked', 'T1.history_primed']
MAXN = 21 * 10 ** 16
COIN = 10 ** 8


def plan(tier):
    return {'shards': 16, 'budget_s': 40 if tier == 'quick' else 600}


def gen_cases(rng, tier, shard, nshards):
    half = 2000 if tier == 'quick' else 200_000
    centers = sorted({10 ** k for k in range(0, 18)} | {2 ** 53, 2 ** 52, 2 ** 54, MAXN - half, 0 + half,
                                                       45 * 10 ** 14, 9 * 10 ** 15, 10 ** 17 + 10 ** 8,
                                                       99999999, 10 ** 16 + 5, 2 ** 31, 2 ** 32, 2 ** 56})
    idx = 0
    step = 500
    for c in centers:
        lo, hi = max(0, c - half), min(MAXN, c + half)
        a = lo
        while a <= hi:
            b = min(hi, a + step - 1)
            if idx % nshards == shard:
                yield {'fam': 'win', 'lo': a, 'hi': b}
            idx += 1
            a = b + 1
    nrand = (40_000 if tier == 'quick' else 3_000_000)
    for j in range(nrand // 2000):
        yield {'fam': 'rand', 'seed': rng.getrandbits(48), 'count': 2000}
    nstr = 40 if tier == 'quick' else 600
    for j in range(nstr):
        yield {'fam': 'str', 'seed': rng.getrandbits(48), 'count': 500}
    for j in range(6 if tier == 'quick' else 200):
        yield {'fam': 'hist', 'seed': rng.getrandbits(48), 'count': 400}
    if shard == 0:
        yield {'fam': 'strfixed'}


def exact(n):
    q, r = divmod(abs(n), COIN)
    frac = ('%08d' % r).rstrip('0') or '0'
    return ('-' if n < 0 else '') + str(q) + '.' + frac


def well_formed_amount(s):
    """optional '-', >=1 ASCII digits, '.', 1..8 ASCII digits; nothing else."""
    if s.startswith('-'):
        s = s[1:]
    if s.count('.') != 1:
        return False
    w, f = s.split('.')
    asc = '0123456789'
    return len(w) >= 1 and 1 <= len(f) <= 8 and all(c in asc for c in w) and all(c in asc for c in f)


def check_int(rec, n, to_lbc, to_dew):
    try:
        s = to_lbc(n)
    except Exception as e:  # noqa
        rec.violation(f'C20/T1/format-raises/{type(e).__name__}', f'dewies_to_lbc({n}) raised {e!r}', {'n': n})
        return
    rec.hit('T1.checked')
    if s != exact(n):
        ok = isinstance(s, str) and well_formed_amount(s) and Decimal(s) * COIN == n
        if not ok:
            rec.violation('C20/T1/format-not-exact',
                          f'dewies_to_lbc({n}) = {s!r}, exact value is {exact(n)!r}',
                          {'n': n, 'got': s, 'exact': exact(n)})
            return
        rec.log('T1.noncanonical_but_exact')
    if n >= 0:
        rec.hit('T2.checked')
        try:
            back = to_dew(s)
        except Exception as e:  # noqa
            rec.violation('C20/T2/roundtrip-raises', f'lbc_to_dewies(dewies_to_lbc({n})={s!r}) raised {type(e).__name__}',
                          {'n': n, 's': s})
            return
        if back != n:
            rec.violation('C20/T2/roundtrip', f'lbc_to_dewies(dewies_to_lbc({n})={s!r}) = {back}', {'n': n, 's': s, 'back': back})


def in_grammar(s):
    if not isinstance(s, str):
        return False, None
    if s.count('.') != 1:
        return False, None
    w, f = s.split('.')
    asc = '0123456789'
    if 1 <= len(w) <= 10 and 1 <= len(f) <= 8 and all(c in asc for c in w + f):
        return True, int(w) * COIN + int(f) * 10 ** (8 - len(f))
    return False, None


def gen_string(r):
    w = ''.join(r.choice('0123456789') for _ in range(r.choice([1, 1, 2, 5, 9, 10, 10])))
    f = ''.join(r.choice('0123456789') for _ in range(r.choice([1, 1, 2, 7, 8, 8])))
    good = w + '.' + f
    k = r.randrange(23)
    ws = r.choice([' ', '\n', '\t', '\r', '\x0b', '\x0c', '\x00', ' ', ' ', '\x85', '\x1c', '\r\n'])
    if k == 0:
        return 'valid', good
    if k == 1:
        return 'no-fraction', w + '.'
    if k == 2:
        return 'no-whole', '.' + f
    if k == 3:
        return 'nine-fraction-digits', w + '.' + f.ljust(8, '1') + r.choice('0123456789')
    if k == 4:
        return 'eleven-whole-digits', w.rjust(10, '3') + r.choice('0123456789') + '.' + f
    if k == 5:
        return 'sign', r.choice('+-') + good
    if k == 6:
        return 'exponent', good + r.choice(['e1', 'E2', 'e-1', 'e0'])
    if k == 7:
        return 'comma', w + ',' + f
    if k == 8:
        return 'two-dots', w + '.' + f + '.' + f
    if k == 9:
        return 'leading-blank:' + repr(ws), ws + good
    if k == 10:
        return 'trailing-blank:' + repr(ws), good + ws
    if k == 11:
        return 'no-dot', w
    if k == 12:
        return 'inner-blank', w + ws + '.' + f
    if k == 13:
        return 'underscore', w + '_' + '1.' + f
    if k == 14:
        p = r.randrange(len(good))
        return 'letter-inside', good[:p] + r.choice('abxof') + good[p:]
    if k == 15:
        return 'empty', ''
    if k == 16:
        return 'hex', '0x' + w + '.' + f
    if k == 17:
        return 'trailing-newline+text', good + '\n' + r.choice(['1', 'x', '.5'])
    if k == 18:
        return 'unicode-digit', w + '.' + f[:-1] + r.choice('١१１۱')
    if k == 19:
        return 'inf-nan', r.choice(['inf', 'nan', 'Infinity', '-inf', '1.0f'])
    if k == 20:
        return 'double-trailing-newline', good + '\n\n'
    if k == 21 or (k == 18 and r.random() < 0.5):
        # characters that are NOT decimal digits (category No / Po / So) but that a compatibility normalisation folds onto a digit or
        # a full stop: superscripts, subscripts, circled and parenthesised numbers, digit-full-stop, dot leaders, full-width stop
        # (seeded break C20-I ran the input through NFKC).  Unlike the Nd digits of class `unicode-digit` nobody can call these digits
        digitish = '\u00b2\u00b3\u00b9\u2070\u2074\u2079\u2080\u2085\u2089\u2460\u2468\u2474\u24ea\u2776\u3248'
        dotish = '\uff0e\u2024\ufe52'
        how = r.randrange(5)
        if how == 0:
            return 'compatibility-character', good + r.choice(digitish) if len(f) < 8 else good[:-1] + r.choice(digitish)
        if how == 1:
            p = r.randrange(len(w))
            return 'compatibility-character', w[:p] + r.choice(digitish) + w[p + 1:] + '.' + f
        if how == 2:
            return 'compatibility-character', w + r.choice(dotish) + f
        if how == 3:
            return 'compatibility-character', w[:-1] + r.choice('\u2488\u2489\u2490') + f      # DIGIT ONE FULL STOP etc.: "1." in one character
        return 'compatibility-character', r.choice(digitish) + '.' + f
    return 'valid', good


FIXED_STRINGS = [
    ('trailing-blank:' + repr('\n'), '1.0\n'), ('valid', '1.0'), ('valid', '0.00000001'), ('valid', '9999999999.99999999'),
    ('valid', '0.0'), ('valid', '2100000000.0'), ('no-whole', '.456'), ('no-fraction', '123.'), ('no-dot', '83'),
    ('empty', ''), ('blank', ' '), ('dot', '.'), ('leading-blank:' + repr('\n'), '\n1.0'), ('nine-fraction-digits', '1.000000001'),
    ('eleven-whole-digits', '10000000000.0'),
]
NON_STRINGS = [None, 1, 1.0, b'1.0', Decimal('1.0'), ['1.0'], True]


def check_str(rec, cls, s, to_dew):
    ok, val = in_grammar(s)
    try:
        got = to_dew(s)
        raised = None
    except ValueError as e:
        got, raised = None, e
    except Exception as e:  # noqa
        rec.violation(f'C20/T3/parser-raises/{type(e).__name__}', f'lbc_to_dewies({s!r}) raised {e!r}', {'s': s, 'class': cls})
        return
    if ok:
        rec.hit('T3.accept_checked')
        if raised is not None:
            rec.violation('C20/T3/rejects-valid', f'lbc_to_dewies({s!r}) rejected a string inside the grammar', {'s': s})
        elif got != val:
            rec.violation('C20/T3/parses-wrong-value', f'lbc_to_dewies({s!r}) = {got}, exact {val}', {'s': s, 'got': got, 'exact': val})
    else:
        if cls == 'unicode-digit':
            rec.log('T3.unicode_digit_' + ('rejected' if raised is not None else 'accepted'))
            return
        rec.hit('T3.reject_checked')
        if raised is None:
            rec.violation(f'C20/T3/accepts-invalid/{cls}', f'lbc_to_dewies({s!r}) = {got} although the string is outside the grammar',
                          {'s': s, 'class': cls, 'got': got})


def execute(rec, case):
    import random
    boot.import_lbry()
    from lbry.wallet.dewies import dewies_to_lbc, lbc_to_dewies
    from lbry.wallet import util
    fam = case['fam']
    if fam == 'win':
        for n in range(case['lo'], case['hi'] + 1):
            rec.case(b'i%d' % n)
            check_int(rec, n, dewies_to_lbc, lbc_to_dewies)
            if n:
                rec.case(b'i-%d' % n)
                check_int(rec, -n, dewies_to_lbc, lbc_to_dewies)
        if len(rec.samples) < 2:
            rec.samples.append({'window': [case['lo'], case['hi']], 'example': [case['lo'], dewies_to_lbc(case['lo'])]})
    elif fam == 'rand':
        r = random.Random(case['seed'])
        for _ in range(case['count']):
            mag = r.choice([r.randrange(MAXN + 1), r.randrange(10 ** r.randrange(1, 18)), MAXN - r.randrange(10 ** 9)])
            rec.case(b'i%d' % mag)
            check_int(rec, mag, util.satoshis_to_coins, util.coins_to_satoshis)
            check_int(rec, -mag, util.satoshis_to_coins, util.coins_to_satoshis)
    elif fam == 'hist':
        # T1 again, as a property of a *history*: the text for an integer may not depend on what the same process converted before
        # (seeded break C20-K memoised the formatter on its raw argument, so a float / Decimal / bool that compares equal to a large
        # integer - the rounded float path - answered for the integer afterwards).  The primers' own results are not judged: the
        # statement is about integer dewies
        from fractions import Fraction
        r = random.Random(case['seed'])
        for _ in range(case['count']):
            m = r.choice([r.randrange(2 ** 53, MAXN + 1), r.randrange(10 ** 16, MAXN + 1), 10 ** 17 + r.randrange(10 ** 6),
                          r.randrange(MAXN + 1), r.randrange(3)])
            n = int(float(m)) if r.random() < 0.8 else m          # mostly integers a float represents exactly (equal, same hash)
            n = min(n, MAXN)
            primers = r.sample([float(n), Decimal(n), Fraction(n), bool(n) if n < 2 else float(n + 1), float(n) + 0.0, str(n), n], 3)
            for f in (dewies_to_lbc, util.satoshis_to_coins):
                for x in primers:
                    try:
                        f(x)
                    except Exception:  # noqa
                        rec.log('hist.primer_raised')
                    rec.hit('T1.history_primed')
            rec.case(b'h%d' % n)
            check_int(rec, n, dewies_to_lbc, lbc_to_dewies)
            check_int(rec, n, util.satoshis_to_coins, util.coins_to_satoshis)
            check_int(rec, -n, util.satoshis_to_coins, util.coins_to_satoshis)
    elif fam == 'str':
        r = random.Random(case['seed'])
        for _ in range(case['count']):
            cls, s = gen_string(r)
            rec.case('s' + s, sample=None)
            check_str(rec, cls, s, lbc_to_dewies)
        rec.samples.append({'string_case': [cls, s]}) if len(rec.samples) < 4 else None
    elif fam == 'strfixed':
        for cls, s in FIXED_STRINGS:
            rec.case('s' + s)
            check_str(rec, cls, s, lbc_to_dewies)
            check_str(rec, cls, s, util.coins_to_satoshis)
        for x in NON_STRINGS:
            rec.case('ns' + repr(x))
            check_str(rec, 'non-string', x, lbc_to_dewies)

"""C03 — funding conserves value, bounded fee, change, clean refusal.  [H+M]
Real Transaction.pay/claim_create/claim_update/support/purchase/create on a real Ledger+Database
(vlib/walletfx); before/after SQL snapshots + the returned raw transaction parsed by an independent
parser; oracle = reference accounting written for this harness (sizes 10/148/34, DUST 1000)."""
import asyncio
import itertools
import random

from vlib import boot
from vlib.ref import minitx
from vlib import walletfx

ID = 'C03'
LEVEL = 'exploration'
RULE = ('case = one wallet (fee rate, name fee, strategy, UTXO class: plain/dust-heavy/exact-match/single-big/whale/'
        'unconfirmed-mix/two-accounts) and a history of 6-14 build requests (pay 1..n, claim create, claim update, support, '
        'support+data, purchase, spend-all, abandon, crafted small deficits), each followed by release / keep-reserved / '
        'simulated broadcast. evaluations = builds. distinct = hash(strategy, rate, request kind, utxo class, outcome branch, '
        '#inputs bucket, deficit bucket); non-trivial = the build had to select inputs or was refused')
ASSUMPTIONS = ['reference constants: base tx 10 bytes, P2PKH spend 148 bytes with the 72+33 byte placeholder the builder budgets, '
               'P2PKH output 34 bytes, DUST 1000; <= 250 inputs/outputs (as the property quantifies)',
               '"change-output cost" is taken generously as the 56 bytes x rate the builder budgets (10 base + 46: its placeholder change '
               'script carries a 32-byte hash), selector room-for-change 46 x rate',
               'pre-chosen spendable inputs are reserved by the caller before create(), as the library\'s own caller Account.fund does',
               'requested output script bytes are taken from the library (script encoding is C15\'s subject)',
               'branch_and_bound / closest_match chosen on their own are partial selectors: refusal judged by that rule\'s own feasibility']
REQUIRED_HITS = ['O6.refusal_after_reservation', 'O6.injected_sign_failure', 'O1.checked', 'O2.checked', 'O3.checked', 'O4.change_checked', 'O4.nochange_checked', 'O5.refusal_justified',
                 'O5.success_when_sufficient', 'O6.checked', 'branch.retry_loop', 'req.pay', 'req.claim_create', 'req.claim_update',
                 'req.support', 'req.purchase', 'req.spend_all', 'req.small_deficit', 'req.exact_cover', 'pool.has_received_purchase_payments', 'state.change_chain_exhausted_before_build', 'strategy.sqlite', 'strategy.random_draw',
                 'strategy.prefer_confirmed', 'strategy.only_confirmed', 'strategy.branch_and_bound', 'strategy.closest_match',
                 'strategy.standard', 'uclass.round_under_sqlite', 'uclass.liquidation', 'uclass.whale', 'after.broadcast', 'after.keep_reserved', 'after.stored_transaction_saved_again_while_a_build_is_kept']
DUST = 1000


class InjectedFault(Exception):
    pass


STRATS = ['sqlite', 'prefer_confirmed', 'only_confirmed', 'standard', 'branch_and_bound', 'closest_match', 'random_draw', None]
UTXO_CLASSES = ['plain', 'plain', 'dust_heavy', 'exact', 'single_big', 'whale', 'unconfirmed_mix', 'two_accounts', 'tiny_wallet', 'many',
                'liquidation', 'round']


def plan(tier):
    return {'shards': 16, 'budget_s': 50 if tier == 'quick' else 800}


def gen_cases(rng, tier, shard, nshards):
    n = 55 if tier == 'quick' else 1500
    for i in range(n):
        yield {'fam': 'wallet', 'seed': rng.getrandbits(48), 'strategy': STRATS[(i + shard) % len(STRATS)],
               'rate': rng.choice([1, 50, 50, 1000]), 'name_fee': rng.choice([0, 0, 200000]),
               'uclass': UTXO_CLASSES[(i // len(STRATS) + shard) % len(UTXO_CLASSES)],
               'big': tier == 'thorough' and i % 10 == 0}


def out_size(script_len):
    return 8 + (1 if script_len < 253 else 3 if script_len < 65536 else 5) + script_len


def make_utxos(r, uclass, rate, big):
    """list of (account, chain, index, amount, kind), heights/verified given per funding tx"""
    spend = 148 * rate
    def amt():
        return int(10 ** r.uniform(0, 12))
    n = r.randrange(0, 250 if big else 60)
    if uclass == 'plain':
        am = [amt() for _ in range(max(n, 3))]
    elif uclass == 'dust_heavy':
        am = [r.randrange(1, spend + 1) for _ in range(r.randrange(20, 200 if big else 80))] + \
             [r.randrange(spend + 1, spend * 40) for _ in range(r.randrange(1, 6))]
    elif uclass == 'exact':
        am = [r.randrange(spend + 1, 10 ** 9) for _ in range(r.randrange(2, 14))]
    elif uclass == 'single_big':
        am = [r.randrange(10 ** 8, 10 ** 12)]
    elif uclass == 'whale':
        am = [r.choice([10 ** 14, 10 ** 14 + 1, 3 * 10 ** 14, 10 ** 15, 2 * 10 ** 16])] + [amt() for _ in range(r.randrange(0, 5))]
    elif uclass == 'unconfirmed_mix':
        am = [amt() for _ in range(max(n, 4))]
    elif uclass == 'two_accounts':
        am = [amt() for _ in range(max(n, 4))]
    elif uclass == 'tiny_wallet':
        am = [r.randrange(1, spend * 3) for _ in range(r.randrange(0, 4))]
    elif uclass == 'liquidation':
        # a few coins each worth little more than their own spend fee: liquidating one walks the "no output yet" retry loop, selects
        # and reserves more coins pass by pass, and may still end in a refusal AFTER outputs were reserved (seeded break C03-B)
        am = [spend + r.randrange(1, 56 * rate + 1000) for _ in range(r.randrange(1, 5))]
    elif uclass == 'round':
        # what people actually send: 0.01, 0.1, 1, 5, 100 LBC ... - exact powers of ten/hundred (and their neighbours) are where the
        # range boundaries of the sqlite chooser's amount scan lie (1, 100, 10^4, 10^6, ...; seeded break C03-E returned a coin
        # sitting exactly on a boundary from two consecutive ranges)
        am = [r.choice([1, 2, 5]) * 10 ** r.randrange(2, 15) + r.choice([0, 0, 0, 0, 1, -1]) for _ in range(r.randrange(3, 40))]
        am += [r.randrange(spend + 1, spend * 30) for _ in range(r.randrange(0, 6))]
        r.shuffle(am)
    else:  # many
        am = [r.randrange(spend + 1, 10 ** 7) for _ in range(r.randrange(100, 240))]
    return am


async def _run_wallet(rec, case):
    boot.import_lbry()
    from lbry.wallet import Transaction, Output, Input
    from lbry.error import InsufficientFundsError
    from lbry.schema.claim import Claim
    r = random.Random(case['seed'])
    random.seed(case['seed'])
    rate, name_fee, strategy, uclass = case['rate'], case['name_fee'], case['strategy'], case['uclass']
    spend_fee, coc_sel, coc = 148 * rate, 46 * rate, 56 * rate
    nacc = 2 if uclass == 'two_accounts' or r.random() < 0.15 else 1
    fx = await walletfx.Fx.open(n_accounts=nacc, fee_per_byte=rate, fee_per_name_char=name_fee, strategy=strategy)
    rec.hit('strategy.' + str(strategy or 'standard'))
    rec.hit('uclass.' + uclass)
    if uclass == 'round' and strategy == 'sqlite':
        rec.hit('uclass.round_under_sqlite')
    try:
        ledger = fx.ledger
        amounts = make_utxos(r, uclass, rate, case.get('big'))
        # fund in 1..4 funding transactions with different confirmation states
        funded_txs, held = [], set()        # funding transactions (re-saved by "sync" events below); inputs of builds kept unreleased
        groups = [[] for _ in range(r.randrange(1, 5))]
        for a in amounts:
            groups[r.randrange(len(groups))].append((r.randrange(nacc), r.choice([0, 0, 1]), r.randrange(20), a, 'pay'))
        claims = []
        for gi, g in enumerate(groups):
            if not g:
                continue
            mixed = uclass == 'unconfirmed_mix' or r.random() < 0.25
            height, verified = r.choice([(10 + gi, True), (0, False), (-1, False), (12, False)]) if mixed else (10 + gi, True)
            funded_txs.append((await fx.fund(g, height=height, is_verified=verified))[0])
        # money received for purchases (the seller's side of Transaction.purchase): typed `purchase` in the database and counted as spendable
        # funds by the balance, by get_utxos and by every in-memory strategy (observation of the C09 agent: the sqlite chooser left it out)
        if r.random() < (0.9 if uclass in ('tiny_wallet', 'single_big') else 0.3):
            for _ in range(r.randrange(1, 4)):
                await fx.fund_purchase_payment(r.randrange(nacc), 0, r.randrange(20), r.choice([int(10 ** r.uniform(3, 11)), int(10 ** r.uniform(3, 11)), 10 ** 8, 148 * rate * 4]))
            rec.hit('pool.has_received_purchase_payments')
        _, ctxos = await fx.fund([(0, 0, r.randrange(20), r.randrange(1000, 10 ** 8), 'claim') for _ in range(3)] +
                                 [(0, 0, 3, 5000, 'support')], height=9)
        claims = ctxos[:3]
        funding = fx.accounts if r.random() < 0.7 or nacc == 1 else [fx.accounts[r.randrange(nacc)]]
        change_account = r.choice(funding)
        fund_ids = {a.id for a in funding}
        foreign = lambda: ledger.hash160_to_address(r.randbytes(20))
        nreq = r.randrange(6, 15)
        for step in range(nreq):
            if rec.out_of_time():
                break
            pre = await fx.txo_snapshot()
            elig = eligible(pre, fund_ids, strategy, spend_fee)
            P = sum(max(0, t['amount'] - spend_fee) for t in elig.values())
            allsum = sum(t['amount'] - spend_fee for t in elig.values())
            # ---------------- choose a request
            kind = r.choice(['pay', 'pay', 'pay', 'pay_multi', 'claim_create', 'claim_update', 'support', 'support_data',
                             'purchase', 'spend_all', 'abandon', 'small_deficit', 'small_deficit', 'exact_cover'])
            if uclass == 'liquidation' and r.random() < 0.8:
                kind = 'spend_all'
            frac = r.choice([1e-6, 0.01, 0.3, 0.5, 0.9, 0.99, 0.999, 1.0, 1.001, 1.5, 'exact', 'exact'])
            base_amt = max(1, P)
            if frac == 'exact' and elig:
                k = r.randrange(1, min(4, len(elig)) + 1)
                subset = r.sample(sorted(elig), k)
                target = sum(elig[t]['amount'] - spend_fee for t in subset) - 44 * rate - r.choice([0, 0, 1, 10, coc_sel, coc_sel + 1])
                amount = max(1, target)
            else:
                amount = max(1, int(base_amt * (frac if frac != 'exact' else 0.5)))
            pre_inputs, outputs, call = [], [], None
            try:
                if kind == 'pay':
                    addr = foreign()
                    outputs = [Output.pay_pubkey_hash(amount, ledger.address_to_hash160(addr))]
                    call = lambda: Transaction.pay(amount, addr, funding, change_account)
                elif kind == 'pay_multi':
                    k = r.choice([2, 3, 10, 60 if case.get('big') else 12])
                    outputs = [Output.pay_pubkey_hash(max(1, amount // k), r.randbytes(20)) for _ in range(k)]
                    call = lambda: Transaction.create([], outputs, funding, change_account)
                elif kind == 'claim_create':
                    c = Claim()
                    c.stream.title = 'x' * r.choice([0, 10, 300, 4000])
                    name = r.choice(['a', 'name', 'n' * 40, 'ünï' * 5, 'z' * 255])
                    amt2 = min(amount, 10 ** 10)
                    holding = (await fx.addresses(funding[0]))[r.randrange(20)]
                    outputs = [Output.pay_claim_name_pubkey_hash(amt2, name, c, ledger.address_to_hash160(holding))]
                    call = lambda: Transaction.claim_create(name, c, amt2, holding, funding, change_account)
                elif kind == 'claim_update':
                    prev = [c for c in claims if not pre[c.id]['spent']]
                    if not prev:
                        continue
                    prev = r.choice(prev)
                    c = Claim()
                    c.stream.title = 'upd' * r.choice([0, 5, 500])
                    amt2 = r.choice([prev.amount, max(1, prev.amount // 2), prev.amount * 2, min(amount, 10 ** 10)])
                    holding = (await fx.addresses(funding[0]))[r.randrange(20)]
                    outputs = [Output.pay_update_claim_pubkey_hash(amt2, prev.claim_name, prev.claim_id, c,
                                                                   ledger.address_to_hash160(holding))]
                    outputs[0].clear_signature()
                    pre_inputs = [prev]
                    call = lambda: Transaction.claim_update(prev, c, amt2, holding, funding, change_account)
                elif kind in ('support', 'support_data'):
                    holding = (await fx.addresses(funding[0]))[r.randrange(20)]
                    cid = r.randbytes(20).hex()
                    amt2 = min(amount, 10 ** 11)
                    if kind == 'support':
                        outputs = [Output.pay_support_pubkey_hash(amt2, 'sup', cid, ledger.address_to_hash160(holding))]
                        call = lambda: Transaction.support('sup', cid, amt2, holding, funding, change_account)
                    else:
                        from lbry.schema.support import Support
                        s = Support()
                        s.comment = 'hello ' * r.choice([1, 50])
                        outputs = [Output.pay_support_data_pubkey_hash(amt2, 'sup', cid, s, ledger.address_to_hash160(holding))]
                        call = lambda: Transaction.support('sup', cid, amt2, holding, funding, change_account, comment=s.comment)
                elif kind == 'purchase':
                    from lbry.schema.purchase import Purchase
                    addr = foreign()
                    cid = r.randbytes(20).hex()
                    outputs = [Output.pay_pubkey_hash(amount, ledger.address_to_hash160(addr)), Output.add_purchase_data(Purchase(cid))]
                    call = lambda: Transaction.purchase(cid, amount, addr, funding, change_account)
                elif kind in ('spend_all', 'abandon'):
                    if kind == 'abandon':
                        prev = [c for c in claims if not pre[c.id]['spent']]
                        if not prev:
                            continue
                        pre_inputs = [r.choice(prev)]
                    else:
                        cand = sorted(elig)
                        if not cand:
                            continue
                        k = r.choice([1, 1, 2, len(cand)])
                        chosen = r.sample(cand, min(k, len(cand)))
                        # small single inputs reach the "no output" retry loop
                        if r.random() < 0.5:
                            small = [t for t in cand if spend_fee < elig[t]['amount'] <= spend_fee + 2 * coc + 2 * DUST]
                            if small:
                                chosen = [r.choice(small)]
                        pre_inputs = [await _txo(fx, t) for t in chosen]
                    call = lambda: Transaction.create([Input.spend(t) for t in pre_inputs], [], funding, change_account)
                elif kind == 'exact_cover':
                    # a sweep: EVERY spendable coin is handed in and the output is what is left after the fee, to the dewie (or with a
                    # surplus too small for a change output).  Nothing else is left to select, and nothing else is needed
                    # (seeded break C03-G entered the funding branch for a deficit of exactly 0 and refused)
                    cand = sorted(elig)
                    if not 1 <= len(cand) <= 10:
                        continue
                    d = r.choice([0, 0, 0, 1, 7])
                    a = sum(elig[t]['amount'] - spend_fee for t in cand) - 44 * rate - d
                    if a <= DUST:
                        continue
                    pre_inputs = [await _txo(fx, t) for t in cand]
                    outputs = [Output.pay_pubkey_hash(a, r.randbytes(20))]
                    call = lambda: Transaction.create([Input.spend(t) for t in pre_inputs], outputs, funding, change_account)
                elif kind == 'small_deficit':
                    cand = [t for t in sorted(elig) if elig[t]['amount'] > spend_fee + coc + 10]
                    if len(cand) < 2:
                        continue
                    t = r.choice(cand)
                    d = r.choice([1, 2, 5, 9, 10, 11, 99, 100, 101, 1000, spend_fee, coc])
                    a = elig[t]['amount'] - spend_fee - 44 * rate + d
                    if a <= 0:
                        continue
                    pre_inputs = [await _txo(fx, t)]
                    outputs = [Output.pay_pubkey_hash(a, r.randbytes(20))]
                    call = lambda: Transaction.create([Input.spend(pre_inputs[0])], outputs, funding, change_account)
                    kind_hit = 'small_deficit'
            except Exception:
                raise
            rec.hit('req.' + {'pay_multi': 'pay', 'support_data': 'support', 'abandon': 'spend_all'}.get(kind, kind))
            req_scripts = [(o.amount, bytes(o.script.source)) for o in outputs]
            pre_ids = [t.id for t in pre_inputs]
            # ---------------- reference cost / deficit
            cost = 10 * rate
            for amt_, sc in req_scripts:
                f = out_size(len(sc)) * rate
                nm = minitx.claim_name_of(sc)
                if nm is not None:
                    f = max(f, len(nm) * name_fee)
                cost += amt_ + f
            payment = sum(t.amount - spend_fee for t in pre_inputs)
            D = cost - payment
            for tid in pre_ids:     # pre-chosen inputs are not available to the selector in the reference either
                pass
            # the library's own callers (Account.fund) reserve pre-chosen spendable inputs first
            plain_pre = [t for t in pre_inputs if pre[t.id]['txo_type'] in (0, 4)]
            if plain_pre:
                await ledger.reserve_outputs(plain_pre)
                for t in plain_pre:
                    pre[t.id]['is_reserved'] = True
            if kind in ('pay', 'pay_multi', 'purchase', 'support') and r.random() < 0.07:
                # address state carried over from earlier activity: every address of the change chain already has its full history and
                # the newest receiving address is used too, and the gap has not been topped up yet.  The change of this build must
                # still go to a (new) address of the change chain (seeded break C03-H took the first address the ACCOUNT-level top-up
                # returned, which is a receiving one)
                rows = await fx.sql("select address, chain, n from account_address where account=? order by chain, n", (change_account.id,))
                for row in rows:
                    if row['chain'] == 1:
                        await ledger.db.set_address_history(row['address'], ('%064x:5:' % r.getrandbits(255)) * 2)
                recv = [row for row in rows if row['chain'] == 0]
                if recv:
                    await ledger.db.set_address_history(recv[-1]['address'], '%064x:5:' % r.getrandbits(255))
                rec.hit('state.change_chain_exhausted_before_build')
            # ---------------- the call under test
            reservations = [0]
            real_reserve = ledger.db.reserve_outputs

            async def counting_reserve(txos, is_reserved=True):
                txos = list(txos)
                if is_reserved and txos:
                    reservations[0] += 1
                return await real_reserve(txos, is_reserved)
            ledger.db.reserve_outputs = counting_reserve
            tx = err = None
            inject = kind in ('pay', 'pay_multi', 'purchase', 'spend_all', 'small_deficit') and r.random() < 0.08
            real_sign = Transaction.sign
            if inject:      # fault injection: signing fails after inputs were selected and reserved
                async def failing_sign(self_, *a, **k):
                    raise InjectedFault('injected signing failure')
                Transaction.sign = failing_sign
            try:
                tx = await call()
            except InsufficientFundsError as e:
                err = e
            except InjectedFault as e:
                err = e
                rec.hit('O6.injected_sign_failure')
            except Exception as e:  # noqa  (O7)
                err = e
                import traceback
                tb = traceback.extract_tb(e.__traceback__)
                inner = [f for f in tb if '/lbry/' in f.filename][-1:] or tb[-1:]
                where = f'{inner[0].filename.split("/lbry/")[-1]}:{inner[0].name}'
                rec.violation(f'C03/O7/unexpected-exception/{type(e).__name__}@{where}',
                              f'{kind} with strategy {strategy} raised {type(e).__name__}: {e}',
                              {'kind': kind, 'strategy': strategy, 'D': D, 'P': P, 'n_eligible': len(elig)})
            finally:
                Transaction.sign = real_sign
                ledger.db.reserve_outputs = real_reserve
            if err is not None and isinstance(err, InsufficientFundsError) and reservations[0]:
                rec.hit('O6.refusal_after_reservation')
            post = await fx.txo_snapshot()
            sig_branch = None
            if err is not None:
                # ---- O6: nothing it touched stays reserved
                rec.hit('O6.checked')
                newly = [t for t, v in post.items() if v['is_reserved'] and not pre.get(t, {}).get('is_reserved')]
                if newly:
                    rec.violation('C03/O6/reserved-after-failure', f'{len(newly)} outputs stayed reserved after a failed {kind} build '
                                  f'({type(err).__name__}, strategy {strategy})', {'txoids': newly[:5], 'kind': kind})
                if isinstance(err, InsufficientFundsError):
                    sig_branch = judge_refusal(rec, kind, strategy, D, P, allsum, elig, pre_ids, rate, outputs, payment)
            else:
                sig_branch = judge_success(rec, fx, tx, kind, strategy, rate, name_fee, req_scripts, pre_ids, pre, post, fund_ids,
                                           change_account, D, P)
                if isinstance(sig_branch, tuple):
                    sig_branch, ok = sig_branch
                if held:
                    again = sorted({f"{i['txid']}:{i['nout']}" for i in minitx.parse(tx.raw)['inputs']} & held - set(pre_ids))
                    if again:
                        rec.violation('C03/O2/added-input-held-by-an-unreleased-transaction',
                                      f'{kind} (strategy {strategy}): added input {again[0]} is held by an earlier build that was neither released nor '
                                      f'broadcast (is_reserved in the database before this build: {pre.get(again[0], {}).get("is_reserved")})',
                                      {'txo': again[0], 'strategy': strategy})
                if D > 0 and P >= D:
                    rec.hit('O5.success_when_sufficient')
                if sig_branch and sig_branch != 'violated':
                    await _check_change_address(rec, fx, tx, len(req_scripts), change_account)
            nin = len(tx.inputs) if tx is not None else 0
            rec.case([str(strategy), rate, kind, uclass, sig_branch, min(nin, 8), (D > 0) + (D > 9) + (D > 10 ** 6)],
                     nontrivial=(err is not None) or (tx is not None and nin > len(pre_ids)),
                     sample={'strategy': strategy, 'rate': rate, 'request': kind, 'utxo_class': uclass, 'deficit': D,
                             'eligible_outputs': len(elig), 'positive_effective_sum': P,
                             'outcome': sig_branch, 'inputs': nin, 'outputs': len(tx.outputs) if tx else None})
            # ---------------- what happens to the build afterwards (history)
            if tx is not None:
                what = r.choice(['release', 'release', 'keep', 'broadcast'])
                if what == 'release':
                    await ledger.release_tx(tx)
                elif what == 'keep':
                    rec.hit('after.keep_reserved')
                    held.update(f"{i['txid']}:{i['nout']}" for i in minitx.parse(tx.raw)['inputs'])
                    if funded_txs and r.random() < 0.6:
                        # the address-history sync saves a stored transaction again (it confirmed, or a second address of it was notified):
                        # Ledger._sync_and_save_batch -> save_transaction_io_batch.  What the kept build holds stays held (seeded break
                        # C03-I: the re-save recreated the txo rows, reservation flag included)
                        ftx = funded_txs[r.randrange(len(funded_txs))]
                        ftx.height = max(ftx.height, 10) + 1
                        seen = {}
                        for o in ftx.outputs:
                            if o.script.is_pay_pubkey_hash or o.script.is_claim_involved:
                                seen[o.get_address(ledger)] = o.pubkey_hash
                        for address, h160 in seen.items():
                            await ledger.db.save_transaction_io_batch([ftx], address, h160, f'{ftx.id}:{ftx.height}:')
                        rec.hit('after.stored_transaction_saved_again_while_a_build_is_kept')
                else:
                    rec.hit('after.broadcast')
                    await _broadcast(fx, tx)
    finally:
        await fx.close()


async def _txo(fx, txoid):
    from lbry.wallet import Transaction
    txid, nout = txoid.split(':')
    rows = await fx.sql("select raw, height, is_verified from tx where txid=?", (txid,))
    tx = Transaction(bytes(rows[0]['raw']), height=rows[0]['height'], is_verified=bool(rows[0]['is_verified']))
    return tx.outputs[int(nout)]


async def _broadcast(fx, tx):
    ledger = fx.ledger
    await ledger.db.insert_transaction(tx)
    addrs = {}
    for txi in tx.inputs:
        txo = txi.txo_ref.txo
        if txo is not None and txo.has_address:
            addrs[txo.get_address(ledger)] = txo.pubkey_hash
    mine = {row['address'] for row in await fx.sql("select address from account_address")}
    for txo in tx.outputs:
        if txo.has_address and txo.get_address(ledger) in mine:
            addrs[txo.get_address(ledger)] = txo.pubkey_hash
    for a, h in addrs.items():
        if a in mine:
            await ledger.db.save_transaction_io(tx, a, h, f'{tx.id}:0:')
    for acc in fx.accounts:
        await acc.ensure_address_gap()
    await ledger.release_tx(tx)


def eligible(snap, fund_ids, strategy, spend_fee):
    out = {}
    for tid, t in snap.items():
        if t['spent'] or t['is_reserved'] or t['account'] not in fund_ids:
            continue
        # plain payments and received purchase payments are the wallet's spendable funds (what the balance, get_utxos and the UTXO listing
        # show); no strategy is documented to leave one of the two out.  (The oracle used to copy the sqlite chooser's own `txo_type = 0`
        # filter - a clause derived from the implementation instead of the statement, corrected after the C09 workload noticed refusals.)
        if t['txo_type'] not in (0, 4):
            continue
        if strategy == 'only_confirmed' and not t['height'] > 0:
            continue
        out[tid] = t
    return out


def judge_refusal(rec, kind, strategy, D, P, allsum, elig, pre_ids, rate, outputs, payment):
    spend_fee, coc_sel, coc = 148 * rate, 46 * rate, 56 * rate
    # pre-chosen inputs are still "eligible" in the DB but already part of the tx; take them out of the funds
    for tid in pre_ids:
        if tid in elig:
            e = elig[tid]['amount'] - spend_fee
            P -= max(0, e)
            allsum -= e
    eff = sorted((t['amount'] - spend_fee for tid, t in elig.items() if tid not in pre_ids), reverse=True)
    # funds held as received purchase payments (txo_type 4): would the refusal be justified if they did not exist?
    P_plain = sum(max(0, t['amount'] - spend_fee) for tid, t in elig.items() if tid not in pre_ids and t['txo_type'] == 0)
    only_without_purchase_money = strategy == 'sqlite' and P_plain < P
    if not outputs:
        # empty-output builds: the retry loop inflates the cost up to 4 times and the single output must be a
        # change output above dust; only the clear case is judged
        need = 10 * rate + 5 * (coc + 1) + coc + DUST + 1 + coc_sel - payment
        if P >= need and strategy not in ('branch_and_bound', 'closest_match'):
            mech = 'dust-negative-effective-summed' if allsum < need else 'other'
            if only_without_purchase_money and P_plain < need:
                mech = 'sqlite-ignores-received-purchase-payments'
            rec.violation(f'C03/O5/refusal-with-sufficient-funds/empty-output/{mech}',
                          f'{kind} refused (strategy {strategy}) although spendable effective funds {P} >= {need}',
                          {'P': P, 'need': need, 'allsum': allsum, 'strategy': strategy})
            return 'violated'
        rec.log('O5.empty_output_refusal_not_judged')
        return 'refused-not-judged'
    if D <= 0:
        rec.violation('C03/O5/refusal-without-deficit', f'{kind} refused although the pre-chosen inputs cover the cost (deficit {D})',
                      {'D': D, 'strategy': strategy})
        return 'violated'
    if strategy == 'branch_and_bound':
        pos = [e for e in eff if e > 0]
        if len(pos) <= 16:
            feasible = any(D <= sum(c) <= D + coc_sel for k in range(1, len(pos) + 1) for c in itertools.combinations(pos, k))
            # the library only searches when the total covers the target
            feasible = feasible and sum(pos) >= D
        else:
            rec.log('O5.bnb_refusal_not_judged_large_set')
            return 'refused-not-judged'
        justified = not feasible
        slack = 0
    elif strategy == 'closest_match':
        justified = not any(e >= D + coc_sel for e in eff)
        slack = 0
    else:
        slack = coc_sel if strategy in ('random_draw', 'sqlite') else 0
        justified = P < D + slack
    if justified:
        rec.hit('O5.refusal_justified')
        return 'refused-justified'
    if only_without_purchase_money and P_plain < D + slack:
        mech = 'sqlite-ignores-received-purchase-payments'
    elif strategy == 'sqlite' and D < 10:
        mech = 'sqlite-floor-zero-for-deficit-below-10'
    elif allsum < D + slack:
        mech = 'dust-negative-effective-summed'
    elif strategy == 'sqlite':
        mech = 'sqlite-range-scan-gives-up' + ('-whale' if any(e + spend_fee >= 10 ** 14 for e in eff) else '')
    else:
        mech = 'other'
    rec.violation(f'C03/O5/refusal-with-sufficient-funds/{mech}',
                  f'{kind} refused with InsufficientFundsError (strategy {strategy}, rate {rate}) although outputs worth more than '
                  f'their spend fee sum to {P} >= deficit {D} (+{slack} room for change); eligible={len(eff)}, sum incl. dust={allsum}',
                  {'D': D, 'P': P, 'allsum': allsum, 'slack': slack, 'strategy': strategy, 'largest': eff[:5], 'n': len(eff)})
    return 'violated'


def judge_success(rec, fx, tx, kind, strategy, rate, name_fee, req_scripts, pre_ids, pre, post, fund_ids, change_account, D, P):
    spend_fee, coc = 148 * rate, 56 * rate
    raw = tx.raw
    try:
        m = minitx.parse(raw)
    except Exception as e:  # noqa
        rec.violation('C03/O1/unparseable-transaction', f'returned transaction does not parse: {e!r}', {'raw': raw})
        return 'violated'
    n = len(req_scripts)
    if len(m['inputs']) > 250 or len(m['outputs']) > 250:
        rec.log('beyond_250_inputs_or_outputs_not_judged')
        return 'too-large-not-judged'
    # ---- O1 requested outputs unchanged, first, in order
    rec.hit('O1.checked')
    got = [(o['amount'], o['script']) for o in m['outputs'][:n]]
    if kind in ('claim_create', 'claim_update', 'support', 'support_data'):
        pass   # compared byte for byte as well: the builder must not alter the requested script
    if got != req_scripts:
        rec.violation('C03/O1/requested-outputs-changed', f'{kind}: requested outputs are not outputs[0:{n}] unchanged',
                      {'requested': req_scripts[:3], 'got': got[:3]})
        return 'violated'
    # ---- O2 inputs
    rec.hit('O2.checked')
    ids = [f"{i['txid']}:{i['nout']}" for i in m['inputs']]
    if ids[:len(pre_ids)] != pre_ids:
        rec.violation('C03/O2/pre-chosen-inputs-changed', 'pre-chosen inputs are not the first inputs', {'pre': pre_ids, 'got': ids[:5]})
        return 'violated'
    if len(set(ids)) != len(ids):
        dup = [i for i in set(ids) if ids.count(i) > 1]
        rec.violation('C03/O2/duplicate-input', f'{kind} (strategy {strategy}): the same outpoint is spent twice in one transaction',
                      {'dup': dup, 'pre_chosen': pre_ids, 'kind': kind})
        return 'violated'
    added = ids[len(pre_ids):]
    for t in added:
        p = pre.get(t)
        if p is None or p['spent'] or p['is_reserved'] or p['account'] not in fund_ids:
            rec.violation('C03/O2/ineligible-input-added',
                          f'added input {t} was ' + ('unknown' if p is None else f"spent={p['spent']} reserved={p['is_reserved']} "
                                                     f"owner_in_funding={p['account'] in fund_ids}"),
                          {'txo': t, 'state': {k: v for k, v in (p or {}).items() if k != 'script'}, 'strategy': strategy})
            return 'violated'
        if p['txo_type'] not in (0, 4):
            rec.violation('C03/O2/claim-locked-output-spent-as-funds', f'added input {t} has txo_type {p["txo_type"]}', {'txo': t})
            return 'violated'
    for t in added:
        if not post[t]['is_reserved']:
            rec.violation('C03/O2/added-input-not-reserved', f'added input {t} is not reserved after a successful build', {'txo': t})
            return 'violated'
    # ---- O3 conservation and fee bounds
    rec.hit('O3.checked')
    sum_in = sum(pre[t]['amount'] for t in ids)
    sum_out = sum(o['amount'] for o in m['outputs'])
    fee = sum_in - sum_out

    def priced(in_sizes):
        tot = (m['size'] - sum(i['size'] for i in m['inputs']) - sum(o['size'] for o in m['outputs'])) * rate
        tot += sum(in_sizes) * rate
        for o in m['outputs']:
            f = o['size'] * rate
            nm = minitx.claim_name_of(o['script'])
            if nm is not None:
                f = max(f, len(nm) * name_fee)
            tot += f
        return tot
    r_actual = priced([i['size'] for i in m['inputs']])
    r_est = priced([148] * len(m['inputs']))
    if fee < r_actual:
        rec.violation('C03/O3/fee-below-size-fee', f'{kind}: fee {fee} < required {r_actual} (inputs {sum_in}, outputs {sum_out})',
                      {'fee': fee, 'required': r_actual, 'strategy': strategy, 'rate': rate})
        return 'violated'
    bound = 5 * (coc + 1) + DUST
    if fee - r_est > bound:
        rec.violation('C03/O3/fee-exceeds-bound', f'{kind}: fee {fee} exceeds the size/name fee {r_est} by {fee - r_est} > {bound} '
                      f'(5 change-output costs + dust); strategy {strategy}, rate {rate}',
                      {'fee': fee, 'r_est': r_est, 'excess': fee - r_est, 'bound': bound, 'n_in': len(ids), 'n_out': len(m['outputs'])})
        return 'violated'
    # ---- O4 change
    extra = m['outputs'][n:]
    if len(extra) > 1:
        rec.violation('C03/O4/more-than-one-change-output', f'{len(extra)} outputs beyond the requested ones', {'n': len(extra)})
        return 'violated'
    if extra:
        rec.hit('O4.change_checked')
        ch = extra[0]
        if minitx.p2pkh_hash(ch['script']) is None:
            rec.violation('C03/O4/change-not-p2pkh', 'change output is not a pay-to-pubkey-hash script', {'script': ch['script']})
            return 'violated'
        if ch['amount'] <= DUST:
            rec.violation('C03/O4/change-at-or-below-dust', f'change output of {ch["amount"]} <= dust', {'amount': ch['amount']})
            return 'violated'
        branch = 'change'
    else:
        rec.hit('O4.nochange_checked')
        branch = 'nochange'
    if not m['outputs']:
        rec.log('returned_transaction_without_outputs')
        branch = 'no-outputs'
    if not req_scripts and len(ids) > len(pre_ids):
        rec.hit('branch.retry_loop')
        branch += '+retry'
    return branch


async def _check_change_address(rec, fx, tx, n_req, change_account):
    m = minitx.parse(tx.raw)
    extra = m['outputs'][n_req:]
    if not extra:
        return
    h = minitx.p2pkh_hash(extra[0]['script'])
    rows = await fx.sql("select address, chain, account from account_address where account=? and chain=1", (change_account.id,))
    mine = set()
    for row in rows:
        payload = minitx.b58check_decode(row['address'])
        mine.add(payload[1:])
    if h not in mine:
        rec.violation('C03/O4/change-not-on-own-change-chain',
                      'change output does not pay an address on the change account\'s change chain (chain 1)',
                      {'hash160': h, 'known_change_addresses': len(mine)})


def execute(rec, case):
    walletfx.run(_run_wallet(rec, case), timeout=600)

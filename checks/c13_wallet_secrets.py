"""C13 — Wallet secrets: encryption round trip, wrong password refused, atomic save.  [H+M]

Real `Wallet` / `Account` / `WalletStorage` on temp files.  Oracle clauses (DESIGN §4 C13):

  E1  encrypt(pw) -> save -> reload from disk -> unlock(pw): every account's seed, xprv string,
      raw key, xpub, first gap addresses of both chains and channel keys equal the values before
      encryption (also after lock()/unlock(), after adding an account, after a password change).
  E2  wallet holding >= 1 secret, any other password: unlock returns False or raises; afterwards
      is_locked, encryption_password unchanged, every secret-bearing account still encrypted with
      byte-identical ciphertext and private_key None.  After lock() no secret is left in clear.
  E3  whenever encrypt-on-disk is on and a password was set (also while locked / reloaded), the
      wallet file (raw bytes and decoded JSON strings) contains none of: the mnemonic, any 4
      consecutive words of it, the xprv string, the raw private key in hex.
  E4  unpack(pw, pack(pw)) == to_dict() JSON; a wrong password never returns data (real scrypt
      blobs, plus reference-built blobs with cheap scrypt parameters for volume).  Payloads written
      by somebody else (reference-built blobs whose header names other legal scrypt cost parameters
      than Wallet.pack's, cheaper and costlier) open with their password through Wallet.unpack and
      Wallet.merge (sync_apply / wallet_import), the merged accounts carry the payload's seeds, keys
      and addresses, and the merged wallet obeys E3 and E1 after save / reload / unlock.
  F1  atomic save (crash engine): a forked child saves version B over a complete file A (or over
      "no file") and dies before every LINE event of WalletStorage.write, before/after every
      file-system call of the save, and after a torn write of a prefix; the wallet path is then
      byte-identical to A or B (absent or B in the no-file case).

Fork discipline: no thread and no running loop ever exists in a shard process (the ledger's db is
an inert stand-in handed over through the existing config['db'] parameter), children leave with
os._exit, a child that hangs is killed and the shard reports a harness error (inconclusive).
"""
import asyncio
import base64
import json
import os
import random
import re
import shutil
import tempfile
import time
import unicodedata

from vlib import boot, crash
from vlib.ref import walletcrypt as ref
from vlib.ref import bip32 as rbip32

ID = 'C13'
LEVEL = 'exploration'
RULE = ('roundtrip: one case = one wallet (account set drawn from seeded / key-only / watch-only / with PEM channel '
        'keys / single-address / regtest, fixed shapes + all orders in thorough + random sets) x one password (21 '
        'fixed boundary classes + random) driven through encrypt/save/reload/unlock/lock/add-account/re-encrypt; every '
        'wrong-password trial is an evaluation (distinct = distinct (wallet, stage, password); near misses and every 4th '
        'bulk trial are also classified by the reference as padding-valid-by-chance or not); pack: real scrypt '
        'blobs; packfast: reference-built blobs (scrypt N<=16) x thousands of wrong passwords; packforeign: one case = one '
        'reference-built blob with scrypt cost parameters from a fixed list (own, cheaper, up to 4x the memory / work of '
        'Wallet.pack\'s) x unpack + merge into a wallet encrypted on disk; crash: one case = '
        '(wallet shape, scenario, operation), every crash point inside is an evaluation (distinct = distinct point). '
        'non-trivial = every evaluation except wallets without any secret')
ASSUMPTIONS = [
    'process death only (os._exit at the failpoint): page-cache contents survive, power loss / fsync ordering is not modelled',
    'ledger.db is an inert stand-in (is_channel_key_used -> False) so that no sqlite thread exists before fork; '
    'Wallet/Account/WalletStorage/crypt code is the real one',
    'the reference (vlib/ref/walletcrypt.py, pure-Python AES + hashlib scrypt, checked against FIPS-197, SP800-38A, '
    'RFC 7914 and the repo\'s public wallet vectors) is used to classify trials and to build hostile blobs; '
    'disagreements of format with the reference are logged, not judged',
    'a wallet without any secret (watch-only accounts only) unlocks with any password: logged, not judged; '
    'PEM channel keys are stored in clear by design and are not "seed or account private key"',
    'passwords that are not encodable as UTF-8 (lone surrogates) and non-str passwords are logged, not judged',
    'sync blobs: passwords differing only by trailing NUL bytes are one and the same scrypt input (HMAC zero-pads its '
    'key, RFC 2104): such pairs are logged, not judged as "another password"; account encryption (double SHA-256) '
    'has no such equivalence and is judged for them',
    'F1 rename-refuses-overwrite: os.rename is made to raise FileExistsError when the destination exists (the '
    'semantics the code\'s own except-branch is written for) and every crash point of the resulting '
    'remove+rename fall-back is judged like any other step of a save',
]
REQUIRED_HITS = ['F1.later_save_after_interrupted_one', 
    'E1.reload_unlock_checked', 'E1.relock_unlock_checked', 'E1.added_account_checked', 'E1.repassword_checked', 'E1.repassword_twice_in_session_checked',
    'E2.wrong_checked', 'E2.valid_padding_by_chance', 'E2.near_miss_checked', 'E2.old_password_checked',
    'E2.after_lock_checked',
    'E3.checked', 'E3.needle_selfcheck',
    'E4.roundtrip_checked', 'E4.wrong_checked', 'E4.fast_wrong_checked', 'E4.fast_valid_padding_by_chance',
    'E4.foreign_right_checked', 'E4.foreign_wrong_checked', 'E4.foreign_merge_checked', 'E4.foreign_merge_wrong_checked',
    'E4.foreign.own-cost-parameters', 'E4.foreign.cheaper-than-own-parameters', 'E4.foreign.more-memory-than-own-parameters',
    'E4.foreign.more-work-than-own-parameters', 'E1.merged_wallet_reload_unlock_checked',
    'F1.line_points', 'F1.call_points', 'F1.short_write_points', 'F1.saw_old', 'F1.saw_new', 'F1.parse_checked',
    'acct.seeded', 'acct.keyonly', 'acct.watch', 'acct.pem', 'acct.single-address', 'acct.regtest',
    'pw.ascii', 'pw.nfc', 'pw.nfd', 'pw.emoji', 'pw.rtl', 'pw.whitespace', 'pw.one-char', 'pw.long-10k',
]
JUDGE_RENAME_FALLBACK = True       # see ASSUMPTIONS[-1]; False turns that family into logged-only

ENCRYPT_ON_DISK = 'encrypt-on-disk'
PREFIX = {'lbc_mainnet': (bytes.fromhex('0488ade4'), bytes.fromhex('0488b21e'), 0x55),
          'lbc_regtest': (bytes.fromhex('04358394'), bytes.fromhex('043587cf'), 111)}


def plan(tier):
    return {'shards': 16, 'budget_s': 45 if tier == 'quick' else 540}


# ------------------------------------------------------------------------------ passwords
_UNI = '\xc5ngstr\xf6m caf\xe9 \xdcn\xefc\xf6d\xe9 \xf1and\xfa \ufb01 \u2460'
PW_FIXED = {
    'ascii': 'correct horse battery staple',
    'ascii-symbols': 'p@$$w0rd!"#%&/()=?\\\'`~<>|;:,.-_*+^[]{}',
    'one-char': 'x',
    'one-digit': '0',
    'one-space': ' ',
    'whitespace': ' \t\n\r\x0b\x0c ',
    'padded-spaces': '  pass word  ',
    'nfc': unicodedata.normalize('NFC', _UNI),
    'nfd': unicodedata.normalize('NFD', _UNI),
    'emoji': '\U0001f510\U0001f984\U0001f469\u200d\U0001f469\u200d\U0001f467\u200d\U0001f466\U0001f3f3\ufe0f\u200d\U0001f308\u2728',
    'rtl': '\u0643\u0644\u0645\u0629 \u0627\u0644\u0633\u0631 \u202e\u05e1\u05d9\u05e1\u05de\u05d4\u202c',
    'cjk': '\u5bc6\u7801\u30d1\u30b9\u30ef\u30fc\u30c9\uc554\ud638',
    'astral': '\U0001d52d\U0001d51e\U0001d530\U0001d530\U00010348',
    'nul-inside': 'a\x00b',
    'zero-width': 'pass\u200b\u200dword\ufeff',
    'json-like': '{"seed": "x", "private_key": null}\\',
    'newline-end': 'password\n',
    'bom-start': '\ufeffpassword',
    'max-codepoint': '\U0010ffff\uffff\x01',
}
PW_GENERATED = ['long-10k', 'long-10k-unicode', 'random-ascii', 'random-unicode']
PW_UNJUDGED = ['lone-surrogate']
_ALPHA_UNI = ('abcdefghijklmnopqrstuvwxyzABCDEFGHIJKLMNOPQRSTUVWXYZ0123456789 !#$%&()*+,-./:;<=>?@[]^_{|}~\t\n'
              '\xe9\xfc\xdf\u0141\u0416\u03a9\u05d0\u0627\u0e01\u3042\u4e2d\ud55c\u200b\u0301\U0001f600\U0001f9ea\U00010348')


def make_password(cls, sub):
    if cls in PW_FIXED:
        return PW_FIXED[cls]
    r = random.Random(sub)
    if cls == 'long-10k':
        return ''.join(r.choice('abcdefghijklmnopqrstuvwxyz0123456789 ') for _ in range(10240))
    if cls == 'long-10k-unicode':
        return ''.join(r.choice(_ALPHA_UNI) for _ in range(10240))
    if cls == 'random-ascii':
        return ''.join(chr(r.randrange(32, 127)) for _ in range(r.choice([1, 2, 3, 8, 16, 31, 32, 33, 64, 200])))
    if cls == 'random-unicode':
        return ''.join(r.choice(_ALPHA_UNI) for _ in range(r.choice([1, 2, 5, 16, 17, 40])))
    if cls == 'lone-surrogate':
        return 'pass\ud800word'
    raise ValueError(cls)


def near_misses(pw):
    cands = [pw + ' ', ' ' + pw, pw[:-1], pw[1:], pw * 2, pw.swapcase(), pw.upper(), pw.lower(), pw.casefold(),
             pw.strip(), pw[::-1], pw + '\x00', pw + '\n', '\n' + pw, '', pw + 'a', 'a' + pw, 'lbryum', 'password',
             pw.replace(' ', ''), pw.replace(' ', '\xa0'), '\ufeff' + pw, pw + '\u200b']
    for form in ('NFC', 'NFD', 'NFKC', 'NFKD'):
        cands.append(unicodedata.normalize(form, pw))
    try:
        cands.append(pw.encode('utf-8').decode('latin-1'))
    except UnicodeError:
        pass
    if pw:
        cands.append(chr((ord(pw[0]) ^ 1) or 2) + pw[1:])
        cands.append(pw[:-1] + chr((ord(pw[-1]) ^ 1) or 2))
    out, seen = [], {pw}
    for c in cands:
        if c not in seen:
            try:
                c.encode('utf-8')
            except UnicodeEncodeError:
                continue
            seen.add(c)
            out.append(c)
    return out


def bulk_wrong(pw, r, n):
    tag = '%04x' % r.getrandbits(16)
    for i in range(n):
        k = i % 4
        if k == 0:
            w = f'{tag}{i}'
        elif k == 1:
            w = pw[:8] + str(i)
        elif k == 2:
            w = ''.join(r.choice(_ALPHA_UNI) for _ in range(1 + i % 13))
        else:
            w = str(i)
        if w != pw:
            yield w


# ------------------------------------------------------------------------------ account material
_WORDS = None
NONWORDLIST = ('uppercase', 'typo', 'foreign', 'freetext')


def english_words():
    global _WORDS
    if _WORDS is None:
        from lbry.wallet.words import english      # data only (the word list)
        _WORDS = list(english.words)
    return _WORDS


def make_seed(r, cls, nwords):
    words = english_words()
    picked = [r.choice(words) for _ in range(nwords)]
    if cls == 'wordlist':
        return ' '.join(picked)
    if cls == 'odd-spacing':
        return ' ' + '  '.join(picked[:3]) + '\t' + ' '.join(picked[3:]) + ' '
    if cls == 'uppercase':
        return ' '.join(picked).upper()
    if cls == 'typo':
        picked[r.randrange(len(picked))] += 'x'
        return ' '.join(picked)
    if cls == 'foreign':
        return ('\xe1baco abdomen abeja abierto abogado abono aborto abrazo abrir abuelo abuso acabar '
                + str(r.randrange(10 ** 6)))
    if cls == 'freetext':
        return 'My secret brain-wallet phrase, 2019! #' + str(r.randrange(10 ** 6))
    raise ValueError(cls)


def account_dict(spec):
    """descriptor -> the dict handed to the real Account.from_dict (all key material is derived here,
    from the sub-seed, with the reference BIP32 / ecdsa: input data, not an oracle)."""
    r = random.Random(spec['sub'])
    kind = spec['kind']
    ledger_id = spec.get('ledger', 'lbc_mainnet')
    xprv_v, xpub_v, addr_v = PREFIX[ledger_id]
    gen = spec.get('gen', 'hd')
    if gen == 'single':
        ag = {'name': 'single-address'}
    else:
        g = spec.get('gap', [20, 6])
        ag = {'name': 'deterministic-chain', 'receiving': {'gap': g[0], 'maximum_uses_per_address': 1},
              'change': {'gap': g[1], 'maximum_uses_per_address': 2}}
    d = {'name': f"acct {kind} {spec['sub'] % 100000}", 'ledger': ledger_id, 'modified_on': 1600000000 + spec['sub'] % 9973,
         'address_generator': ag, 'certificates': {}}
    if kind == 'seeded':
        d['seed'] = make_seed(r, spec.get('seed_class', 'wordlist'), spec.get('words', 12))
    else:
        node = rbip32.master(r.randbytes(32))
        if spec.get('depth'):
            node = node.ckd_priv(0x80000000 + spec['sub'] % 1000)
        if kind == 'keyonly':
            d['private_key'] = node.xprv(xprv_v, xpub_v)
        elif kind == 'watch':
            d['public_key'] = node.xpub(xprv_v, xpub_v)
        else:
            raise ValueError(kind)
    for _ in range(spec.get('pem', 0)):
        import ecdsa
        sk = ecdsa.SigningKey.from_string(r.randbytes(31) + b'\x01', curve=ecdsa.SECP256k1)
        pub = sk.get_verifying_key().to_string('compressed')
        addr = rbip32.b58check_encode(bytes([addr_v]) + rbip32.hash160(pub))
        d['certificates'][addr] = sk.to_pem().decode()
    return d


KINDS = {
    'seeded': {'kind': 'seeded'},
    'seeded24': {'kind': 'seeded', 'words': 24},
    'seeded1': {'kind': 'seeded', 'words': 1},
    'seeded-spacing': {'kind': 'seeded', 'seed_class': 'odd-spacing', 'words': 13},
    'seeded-pem': {'kind': 'seeded', 'pem': 2},
    'seeded-single': {'kind': 'seeded', 'gen': 'single'},
    'seeded-regtest': {'kind': 'seeded', 'ledger': 'lbc_regtest'},
    'seeded-gap': {'kind': 'seeded', 'gap': [3, 1]},
    'keyonly': {'kind': 'keyonly'},
    'keyonly-pem': {'kind': 'keyonly', 'pem': 1},
    'keyonly-single': {'kind': 'keyonly', 'gen': 'single'},
    'keyonly-regtest': {'kind': 'keyonly', 'ledger': 'lbc_regtest'},
    'keyonly-depth1': {'kind': 'keyonly', 'depth': 1},
    'watch': {'kind': 'watch'},
    'watch-pem': {'kind': 'watch', 'pem': 1},
    'watch-single': {'kind': 'watch', 'gen': 'single', 'ledger': 'lbc_regtest'},
}
SHAPES = [
    ['seeded'], ['keyonly'], ['seeded-pem'], ['seeded', 'keyonly', 'watch', 'seeded-pem'], ['watch', 'seeded'],
    ['keyonly', 'watch'], ['keyonly-pem', 'keyonly-single'], ['seeded-regtest', 'seeded'], ['seeded24', 'seeded1'],
    ['seeded-single', 'keyonly-regtest'], ['watch'], [], ['watch-pem', 'watch-single'], ['seeded-spacing', 'seeded-gap'],
    ['keyonly-depth1', 'seeded'], ['watch', 'keyonly'], ['seeded', 'seeded', 'seeded'],
]


def specs_for(names, sub):
    out = []
    for i, n in enumerate(names):
        s = dict(KINDS[n])
        s['sub'] = (sub * 131 + i * 7919 + 1) % (2 ** 40)
        out.append(s)
    return out


# ------------------------------------------------------------------------------ environment
class StubDB:
    """inert stand-in for ledger.db (config['db']): keeps the process free of sqlite threads"""
    def __init__(self):
        self.ledger = None
        self.calls = 0

    async def is_channel_key_used(self, account, key):
        self.calls += 1
        return False


def other_device_dir():
    """a writable directory on a file system other than the one holding the system temp directory (a wallet directory on another
    volume than /tmp is ordinary; code that stages the new version in the temp directory then cannot rename it into place), or None"""
    try:
        here = os.stat(tempfile.gettempdir()).st_dev
    except OSError:
        return None
    for cand in ('/dev/shm', '/var/tmp', os.path.expanduser('~'), '/run/user/%d' % os.getuid()):
        try:
            if os.path.isdir(cand) and os.access(cand, os.W_OK) and os.stat(cand).st_dev != here:
                return cand
        except OSError:
            pass
    return None


class Env:
    def __init__(self, base=None):
        boot.import_lbry()
        from lbry.wallet import WalletManager, Ledger, RegTestLedger, Headers
        from vlib.walletfx import FakeNetwork
        self.dir = tempfile.mkdtemp(prefix='verif-c13-', dir=base)
        self.manager = WalletManager()
        self.dbs = []
        for cls in (Ledger, RegTestLedger):
            db = StubDB()
            self.dbs.append(db)
            self.manager.get_or_create_ledger(cls.get_id(), {'db': db, 'headers': Headers(':memory:'),
                                                             'network': FakeNetwork()})

    def ledger(self, ledger_id):
        return self.manager.get_or_create_ledger(ledger_id)

    def new_wallet(self, filename=None, name='Wallet C13'):
        from lbry.wallet import Wallet, WalletStorage
        path = os.path.join(self.dir, filename) if filename else None
        return Wallet(name, storage=WalletStorage(path)), path

    def add_account(self, wallet, d):
        from lbry.wallet import Account
        return Account.from_dict(self.ledger(d['ledger']), wallet, d)

    def reload(self, path):
        from lbry.wallet import Wallet, WalletStorage
        return Wallet.from_storage(WalletStorage(path), self.manager)

    def close(self):
        shutil.rmtree(self.dir, ignore_errors=True)


def run_async(coro):
    loop = asyncio.new_event_loop()
    try:
        return loop.run_until_complete(coro)
    finally:
        loop.close()


def gap_of(account, chain):
    mgr = account.address_managers[chain]
    return getattr(mgr, 'gap', 1)


def snapshot(account):
    pk = account.private_key
    addrs = []
    for chain in sorted(account.address_managers):          # single-address accounts only have chain 0
        for i in range(min(gap_of(account, chain), 20)):
            addrs.append(account.get_public_key(chain, i).address)
    return {
        'seed': account.seed,
        'xprv': pk.extended_key_string() if pk is not None else None,
        'priv_hex': pk.private_key_bytes.hex() if pk is not None else None,
        'xpub': account.public_key.extended_key_string(),
        'id': account.id,
        'addresses': addrs,
        'channel_keys': dict(account.channel_keys),
        'generator': account.address_generator.to_dict(account.receiving, account.change),
    }


def has_secret(snap):
    return bool(snap['seed']) or snap['xprv'] is not None


def needles_for(snaps):
    """[(kind, needle_text)] searched for in the wallet file"""
    out = []
    for s in snaps:
        seed = s['seed']
        if seed and seed.strip():
            # a one-word mnemonic can coincide with structural text of the file ("change", "seed", "name" are BIP39 words and
            # JSON keys of every wallet file; thorough-tier false alarm, DESIGN 0): it is searched for as a whole token of the
            # file's string VALUES outside the public name/ledger fields, never as a raw substring
            out.append(('mnemonic-single-word' if len(seed.split()) == 1 else 'mnemonic', seed))
            spans = [m.span() for m in re.finditer(r'\S+', seed)]
            for i in range(len(spans) - 3):
                out.append(('mnemonic-4-words', seed[spans[i][0]:spans[i + 3][1]]))
        if s['xprv']:
            out.append(('xprv', s['xprv']))
            out.append(('privkey-hex', s['priv_hex']))
            out.append(('privkey-hex', s['priv_hex'].upper()))
    return out


def _json_strings(x, acc):
    if isinstance(x, str):
        acc.append(x)
    elif isinstance(x, dict):
        for k, v in x.items():
            acc.append(str(k))
            _json_strings(v, acc)
    elif isinstance(x, list):
        for v in x:
            _json_strings(v, acc)


def find_needles(raw, needles):
    """-> set of needle kinds present in the raw bytes or in any decoded JSON string of the file"""
    hay = [raw.decode('utf-8', 'replace')]
    try:
        acc = []
        _json_strings(json.loads(raw), acc)
        hay.append('\x1e'.join(acc))
    except ValueError:
        pass
    found = {}
    for kind, n in needles:
        if kind in found:
            continue
        if kind == 'mnemonic-single-word':
            vals = []
            try:
                _json_values(json.loads(raw), vals)
            except ValueError:
                continue
            if any(n.strip() in v.split() for v in vals):
                found[kind] = n
        elif any(n in h for h in hay):
            found[kind] = n
    return found


def _json_values(x, acc, key=None):
    if isinstance(x, str):
        if key not in ('name', 'ledger'):
            acc.append(x)
    elif isinstance(x, dict):
        for k, v in x.items():
            _json_values(v, acc, k)
    elif isinstance(x, list):
        for v in x:
            _json_values(v, acc, key)


def read_bytes(path):
    try:
        with open(path, 'rb') as f:
            return f.read()
    except FileNotFoundError:
        return None


# ------------------------------------------------------------------------------ oracle pieces
def check_e3(rec, path, needles, stage, ctx):
    raw = read_bytes(path)
    if raw is None:
        rec.violation('C13/E3/no-wallet-file-after-save', f'{stage}: save() left no wallet file ({ctx})', {'stage': stage})
        return
    rec.hit('E3.checked')
    rec.hit('E3.stage.' + stage)
    found = find_needles(raw, needles)
    for kind, n in found.items():
        rec.violation(f'C13/E3/plaintext-on-disk/{kind}',
                      f'{stage}: wallet file written with encrypt-on-disk and a password contains the {kind} '
                      f'{n[:60]!r}... ({ctx})',
                      {'stage': stage, 'needle_kind': kind, 'needle': n, 'file_prefix': raw[:1500].decode('utf-8', 'replace')})


def compare_snaps(rec, accounts, snaps, stage, ctx, specs):
    if len(accounts) != len(snaps):
        rec.violation('C13/E1/account-count-differs', f'{stage}: {len(accounts)} accounts, expected {len(snaps)} ({ctx})',
                      {'stage': stage})
        return False
    ok = True
    for i, (a, s) in enumerate(zip(accounts, snaps)):
        try:
            now = snapshot(a)
        except Exception as e:  # noqa  (real code refused to hand out keys/addresses)
            rec.violation(f'C13/E1/differs-after-unlock/snapshot-raises-{type(e).__name__}',
                          f'{stage}: account #{i} ({specs[i]["kind"]}) cannot be read back: {e!r} ({ctx})', {'stage': stage})
            ok = False
            continue
        for field in ('seed', 'xprv', 'priv_hex', 'xpub', 'id', 'addresses', 'channel_keys', 'generator'):
            if now[field] != s[field]:
                ok = False
                rec.violation(f'C13/E1/differs-after-unlock/{field}',
                              f'{stage}: account #{i} ({specs[i]["kind"]}) {field} = {str(now[field])[:80]!r}, before '
                              f'encryption {str(s[field])[:80]!r} ({ctx})',
                              {'stage': stage, 'account': i, 'field': field, 'now': now[field], 'before': s[field]})
    return ok


def quick_state(wallet, secret_idx):
    accs = wallet.accounts
    return (wallet.encryption_password, len(accs),
            tuple((accs[i].encrypted, accs[i].seed, accs[i].private_key_string, accs[i].private_key is None)
                  for i in secret_idx if i < len(accs)))


STATE_FIELDS = ('account.encrypted', 'account.seed', 'account.private_key_string', 'account.private_key')


def diff_state(before, after):
    if before[0] != after[0]:
        return 'encryption_password'
    if before[1] != after[1] or len(before[2]) != len(after[2]):
        return 'account-count'
    for b, a in zip(before[2], after[2]):
        for f, x, y in zip(STATE_FIELDS, b, a):
            if x != y:
                return f
    return None


async def wrong_loop(rec, wallet, pw, passwords, stage, secret_idx, first_kind, ctx, casekey, near):
    """E2 on a locked wallet that holds >= 1 secret.  Returns False when the wallet state was damaged."""
    before = quick_state(wallet, secret_idx)
    first = wallet.accounts[secret_idx[0]]
    first_field = first.seed or first.private_key_string          # the ciphertext the code looks at first
    try:
        first_raw = base64.b64decode(first_field)
    except ValueError:
        first_raw = b''
    def full_state():
        return json.dumps([wallet.name, wallet.preferences.data,
                           [wallet.accounts[i].to_dict() for i in secret_idx]], sort_keys=True)
    full_before = full_state()
    n = 0
    for wp in passwords:
        n += 1
        try:
            r = await wallet.unlock(wp)
            raised = None
        except Exception as e:  # noqa  ("returns False or raises")
            r, raised = None, e
        rec.case(f'{casekey}|{stage}|{wp}')
        rec.hit('E2.wrong_checked')
        if near:
            rec.hit('E2.near_miss_checked')
        if raised is not None:
            rec.log(f'E2.wrong_password_raises.{type(raised).__name__}')
        if first_raw and (near or n % 4 == 0):        # classified on a quarter of the bulk trials (cost)
            rec.hit('E2.padding_classified')
            if ref.fast_padding_valid(ref.field_key(wp), first_raw):
                rec.hit('E2.valid_padding_by_chance')
        if r:
            rec.violation(f'C13/E2/wrong-password-unlocks/{stage}/{first_kind}',
                          f'{stage}: unlock({wp[:40]!r}) returned {r!r} although the wallet was encrypted with '
                          f'{pw[:40]!r} ({ctx})', {'stage': stage, 'wrong_password': wp, 'password': pw})
            return False
        after = quick_state(wallet, secret_idx)
        field = diff_state(before, after)
        if field is None and not wallet.is_locked:
            field = 'is_locked'
        if field is None and n % 2000 == 0 and full_state() != full_before:
            field = 'to_dict'
        if field is not None:
            rec.violation(f'C13/E2/state-changed-by-wrong-password/{field}',
                          f'{stage}: after the refused unlock({wp[:40]!r}) the wallet {field} changed ({ctx})',
                          {'stage': stage, 'wrong_password': wp, 'password': pw, 'field': field,
                           'before': repr(before)[:600], 'after': repr(after)[:600]})
            return False
        if rec.out_of_time() and n > 200:
            rec.note('wrong_loop_cut_by_budget', True)
            break
    if full_state() != full_before:
        rec.violation('C13/E2/state-changed-by-wrong-password/to_dict',
                      f'{stage}: to_dict() of the secret-bearing accounts differs after {n} refused passwords ({ctx})', {'stage': stage})
        return False
    return True


async def unlock_right(rec, wallet, pw, stage, ctx, seed_classes):
    """E1 first half: the right password must unlock.  -> True when unlocked"""
    try:
        r = await wallet.unlock(pw)
    except Exception as e:  # noqa
        rec.violation(f'C13/E1/right-password-raises/{type(e).__name__}',
                      f'{stage}: unlock with the right password {pw[:40]!r} raised {e!r} ({ctx})',
                      {'stage': stage, 'password': pw})
        return False
    odd = sorted(c for c in seed_classes if c in NONWORDLIST)
    if not r or wallet.is_locked:
        cls = 'seed-outside-english-wordlist' if odd else 'wordlist-seed-or-key'
        rec.violation(f'C13/E1/right-password-refused/{cls}',
                      f'{stage}: unlock({pw[:40]!r}) with the password the wallet was encrypted with returned {r!r}, '
                      f'is_locked={wallet.is_locked} ({ctx})',
                      {'stage': stage, 'password': pw, 'seed_classes': sorted(seed_classes),
                       'accounts_encrypted': [a.encrypted for a in wallet.accounts]})
        return False
    if wallet.encryption_password != pw:
        rec.violation('C13/E1/password-not-remembered-after-unlock',
                      f'{stage}: encryption_password is {str(wallet.encryption_password)[:40]!r} after unlock({pw[:40]!r}) ({ctx})',
                      {'stage': stage})
        return False
    return True


def check_after_lock(rec, wallet, snaps, specs, stage, ctx):
    for i, (a, s) in enumerate(zip(wallet.accounts, snaps)):
        if not has_secret(s):
            continue
        rec.hit('E2.after_lock_checked')
        bad = None
        if not a.encrypted:
            bad = 'account.encrypted'
        elif a.private_key is not None:
            bad = 'account.private_key'
        elif s['seed'] and a.seed == s['seed']:
            bad = 'account.seed'
        elif s['xprv'] and (not a.private_key_string or a.private_key_string == s['xprv']):
            bad = 'account.private_key_string'
        if bad:
            rec.violation(f'C13/E2/secret-in-clear-after-lock/{bad}/{specs[i]["kind"]}',
                          f'{stage}: after wallet.lock() account #{i} ({specs[i]["kind"]}) still exposes {bad} ({ctx})',
                          {'stage': stage, 'account': i, 'field': bad})


def ref_disk_check(rec, path, pw, snaps):
    """logged only: the ciphertext on disk decrypts, under the documented format, to the secrets"""
    try:
        doc = json.loads(read_bytes(path))
        for d, s in zip(doc['accounts'], snaps):
            if s['seed']:
                ok = ref.field_decrypt(pw, d['seed'])[0] == s['seed']
                rec.log('ref.disk_seed_' + ('agrees' if ok else 'DISAGREES'))
            if s['xprv']:
                ok = ref.field_decrypt(pw, d['private_key'])[0] == s['xprv']
                rec.log('ref.disk_key_' + ('agrees' if ok else 'DISAGREES'))
    except (ValueError, KeyError, TypeError):
        rec.log('ref.disk_check_unreadable')


# ------------------------------------------------------------------------------ family: roundtrip
def exec_roundtrip(rec, case):
    env = Env()
    try:
        run_async(_roundtrip(rec, env, case))
        rec.hit('obs.channel_key_probe', sum(db.calls for db in env.dbs))
    finally:
        env.close()


async def _roundtrip(rec, env, case):
    pwcls = case['pw']
    pw = make_password(pwcls, case['sub'])
    specs = [dict(s) for s in case['accounts']]
    r = random.Random(case['sub'] ^ 0x5eed)
    nwrong = case['wrong']
    casekey = f"rt{case['sub']}|{pwcls}|{len(specs)}"
    ctx = f"password class {pwcls}, accounts {[s['kind'] + (':' + s['seed_class'] if 'seed_class' in s else '') for s in specs]}"
    wallet, path = env.new_wallet('wallet.json')
    accounts = [env.add_account(wallet, account_dict(s)) for s in specs]
    snaps = [snapshot(a) for a in accounts]
    secret_idx = [i for i, s in enumerate(snaps) if has_secret(s)]
    seed_classes = {s.get('seed_class', 'wordlist') for s in specs if s['kind'] == 'seeded'}
    needles = needles_for(snaps)
    if seed_classes & set(NONWORDLIST):
        ctx += f", seeds {[s['seed'] for s in snaps if s['seed']]}"
    nontrivial = bool(secret_idx)
    rec.case(casekey, nontrivial=nontrivial,
             sample={'password_class': pwcls, 'password': pw[:60], 'accounts': [s['kind'] for s in specs],
                     'first_seed': next((s['seed'] for s in snaps if s['seed']), None)})
    rec.hit('pw.' + pwcls)
    for s in specs:
        rec.hit('acct.' + s['kind'])
        if s.get('pem'):
            rec.hit('acct.pem')
        if s.get('gen') == 'single':
            rec.hit('acct.single-address')
        if s.get('ledger') == 'lbc_regtest':
            rec.hit('acct.regtest')
        if s['kind'] == 'seeded':
            rec.hit('seed.' + s.get('seed_class', 'wordlist'))
    # -- stage 0: plaintext save; proves the needle detector sees what it must later not see
    wallet.save()
    if secret_idx:
        found = find_needles(read_bytes(path), needles)
        want = {k for k, _ in needles} - {'privkey-hex'}
        if set(found) != want:
            raise RuntimeError(f'needle self-check failed: found {sorted(found)} wanted {sorted(want)}')
        rec.hit('E3.needle_selfcheck')
    # -- stage 1: encrypt (saves)
    try:
        pw.encode('utf-8')
        encodable = True
    except UnicodeEncodeError:
        encodable = False
    try:
        wallet.encrypt(pw)
    except Exception as e:  # noqa
        if not encodable:
            rec.log(f'pw.unencodable_password_refused_with_{type(e).__name__}')
            return
        if not secret_idx and isinstance(e, AssertionError):
            rec.log('encrypt.asserts_on_secretless_wallet')
            return
        rec.violation(f'C13/E1/encrypt-raises/{type(e).__name__}', f'wallet.encrypt({pw[:40]!r}) raised {e!r} ({ctx})',
                      {'password': pw})
        return
    if not encodable:
        rec.log('pw.unencodable_password_accepted')
        return
    check_e3(rec, path, needles, 'after-encrypt', ctx)
    ref_disk_check(rec, path, pw, snaps)
    compare_snaps(rec, wallet.accounts, snaps, 'in-memory-after-encrypt', ctx, specs)
    # -- stage 2: reload from disk
    try:
        w2 = env.reload(path)
    except Exception as e:  # noqa
        rec.violation(f'C13/E1/reload-raises/{type(e).__name__}', f'Wallet.from_storage of the encrypted file raised {e!r} ({ctx})',
                      {'file': read_bytes(path)[:3000].decode('utf-8', 'replace')})
        return
    if len(w2.accounts) != len(specs):
        rec.violation('C13/E1/account-count-differs', f'reloaded wallet has {len(w2.accounts)} accounts, expected {len(specs)} ({ctx})', {})
        return
    if not secret_idx:
        # nothing to decrypt: "unlocks" with any password (interpretation note) -- observed, not judged
        ok = await w2.unlock('certainly not ' + pw[:20])
        rec.log('E2.secretless_wallet_unlock_any_password_' + ('accepted' if ok else 'refused'))
        return
    if not w2.is_locked:
        rec.log('reload.wallet_with_secrets_not_locked')
    if w2.encryption_password is not None:
        rec.log('reload.password_known_after_reload')
    before_file = read_bytes(path)
    w2.save()
    check_e3(rec, path, needles, 'reloaded-locked-save', ctx)
    if read_bytes(path) != before_file:
        rec.log('reload.locked_save_changed_file')
    first_kind = specs[secret_idx[0]]['kind']
    watch_flags = [a.encrypted for i, a in enumerate(w2.accounts) if i not in secret_idx]
    # -- stage 3: wrong passwords on the reloaded wallet
    nm = near_misses(pw)
    ok = await wrong_loop(rec, w2, pw, nm, 'reloaded', secret_idx, first_kind, ctx, casekey, True)
    ok = ok and await wrong_loop(rec, w2, pw, bulk_wrong(pw, r, nwrong), 'reloaded', secret_idx, first_kind, ctx, casekey, False)
    if not ok:
        return
    if watch_flags != [a.encrypted for i, a in enumerate(w2.accounts) if i not in secret_idx]:
        rec.log('E2.secretless_account_flag_flipped_by_wrong_password')
    for bad in (None, b'bytes', 7):
        st = quick_state(w2, secret_idx)
        try:
            res = await w2.unlock(bad)
            rec.log('E2.nonstr_password_returned_' + repr(res))
        except Exception as e:  # noqa
            rec.log('E2.nonstr_password_raises_' + type(e).__name__)
        if diff_state(st, quick_state(w2, secret_idx)):
            rec.log('E2.nonstr_password_changed_state')
    # -- stage 4: the right password
    if not await unlock_right(rec, w2, pw, 'reloaded', ctx, seed_classes):
        return
    rec.hit('E1.reload_unlock_checked')
    if not compare_snaps(rec, w2.accounts, snaps, 'after-reload-unlock', ctx, specs):
        return
    w2.save()
    check_e3(rec, path, needles, 'after-unlock-save', ctx)
    # -- stage 5: lock / wrong / unlock in memory
    try:
        w2.lock()
    except Exception as e:  # noqa
        rec.violation(f'C13/E2/lock-raises/{type(e).__name__}', f'wallet.lock() raised {e!r} ({ctx})', {})
        return
    check_after_lock(rec, w2, snaps, specs, 'after-lock', ctx)
    w2.save()
    check_e3(rec, path, needles, 'after-lock-save', ctx)
    if w2.is_locked:
        ok = await wrong_loop(rec, w2, pw, nm[:8], 'relocked', secret_idx, first_kind, ctx, casekey, True)
        ok = ok and await wrong_loop(rec, w2, pw, bulk_wrong(pw, r, max(50, nwrong // 8)), 'relocked', secret_idx,
                                     first_kind, ctx, casekey, False)
        if not ok:
            return
    else:
        # lock() left nothing locked although secrets exist: a wrong password must still not "unlock"
        wp = nm[0]
        res = await w2.unlock(wp)
        if res and w2.encryption_password == wp:
            rec.violation(f'C13/E2/wrong-password-unlocks/relocked/{first_kind}',
                          f'after lock() the wallet is not locked and unlock({wp[:40]!r}) succeeded and replaced the password ({ctx})',
                          {'wrong_password': wp, 'password': pw})
            return
    if not await unlock_right(rec, w2, pw, 'relocked', ctx, seed_classes):
        return
    rec.hit('E1.relock_unlock_checked')
    if not compare_snaps(rec, w2.accounts, snaps, 'after-relock-unlock', ctx, specs):
        return
    # -- stage 6: add an account while unlocked + encrypted, save, lock, save, reload, unlock
    extra = {'kind': r.choice(['seeded', 'keyonly']), 'sub': (case['sub'] * 31 + 17) % (2 ** 40), 'pem': r.choice([0, 1])}
    specs6 = specs + [extra]
    while_locked = case['sub'] % 2 == 1
    if while_locked:
        w2.lock()                                  # the new account joins a locked wallet whose password is known
    acc = env.add_account(w2, account_dict(extra))
    snaps6 = snaps + [snapshot(acc)]
    needles6 = needles_for(snaps6)
    w2.save()
    check_e3(rec, path, needles6, 'after-add-account-while-locked-save' if while_locked else 'after-add-account-save', ctx)
    w2.lock()
    check_after_lock(rec, w2, snaps6, specs6, 'after-add-account-lock', ctx)
    w2.save()
    check_e3(rec, path, needles6, 'after-add-account-lock-save', ctx)
    try:
        w3 = env.reload(path)
    except Exception as e:  # noqa
        rec.violation(f'C13/E1/reload-raises/{type(e).__name__}', f'second reload raised {e!r} ({ctx})', {})
        return
    if not await unlock_right(rec, w3, pw, 'reloaded-with-added-account', ctx, seed_classes):
        return
    if not compare_snaps(rec, w3.accounts, snaps6, 'after-add-account-reload-unlock', ctx, specs6):
        return
    rec.hit('E1.added_account_checked')
    # -- stage 7: change the password: the old one is now "any other password"
    pw2 = near_misses(pw)[case['sub'] % 5] or 'second password'
    try:
        w3.decrypt()                         # encryption off: plaintext on disk is expected here, not judged
        rec.log('E3.decrypt_writes_plaintext' if find_needles(read_bytes(path), needles6) else 'E3.decrypt_wrote_no_plaintext')
        w3.encrypt(pw2)
    except Exception as e:  # noqa
        rec.violation(f'C13/E1/encrypt-raises/{type(e).__name__}', f're-encrypt with {pw2[:40]!r} raised {e!r} ({ctx})', {})
        return
    check_e3(rec, path, needles6, 'after-password-change', ctx)
    w4 = env.reload(path)
    sidx6 = [i for i, s in enumerate(snaps6) if has_secret(s)]
    ok = await wrong_loop(rec, w4, pw2, [pw], 'old-password', sidx6, first_kind, ctx, casekey, True)
    if not ok:
        return
    rec.hit('E2.old_password_checked')
    if not await unlock_right(rec, w4, pw2, 'after-password-change', ctx, seed_classes):
        return
    if compare_snaps(rec, w4.accounts, snaps6, 'after-password-change-unlock', ctx, specs6):
        rec.hit('E1.repassword_checked')
    # -- stage 8: the password is changed twice more on the SAME unlocked objects, without a reload in between (what two wallet_encrypt
    # calls in one daemon session do).  The file must be readable with the LAST password only (seeded break C13-G kept ciphertext made
    # with the earlier password)
    pw3, pw4 = 'third password ' + pw2[:10], (near_misses(pw2)[(case['sub'] + 1) % 5] or 'fourth password')
    if len({pw, pw2, pw3, pw4}) == 4:
        try:
            w4.encrypt(pw3)
            w4.encrypt(pw4)
        except Exception as e:  # noqa
            rec.violation(f'C13/E1/encrypt-raises/{type(e).__name__}', f'changing the password twice in one session raised {e!r} ({ctx})', {})
            return
        check_e3(rec, path, needles6, 'after-two-password-changes-in-one-session', ctx)
        w6 = env.reload(path)
        ok = await wrong_loop(rec, w6, pw4, [pw3, pw2, pw], 'earlier-passwords-of-the-session', sidx6, first_kind, ctx, casekey, True)
        if not ok:
            return
        if not await unlock_right(rec, w6, pw4, 'after-two-password-changes-in-one-session', ctx, seed_classes):
            return
        if compare_snaps(rec, w6.accounts, snaps6, 'after-two-password-changes-unlock', ctx, specs6):
            rec.hit('E1.repassword_twice_in_session_checked')
        w4.lock()
        if not await unlock_right(rec, w4, pw4, 'in-memory-lock-after-two-password-changes', ctx, seed_classes):
            return
    # observed, not judged: unlock() on a wallet that is not locked adopts whatever password it is given
    res = await w4.unlock('typo of ' + pw2[:20])
    if res and w4.encryption_password != pw2:
        rec.log('E2.unlock_on_unlocked_wallet_replaces_password')
    # observed, not judged: account added to a reloaded (locked, password unknown) wallet is saved in clear
    w5 = env.reload(path)
    extra2 = {'kind': 'seeded', 'sub': (case['sub'] * 37 + 5) % (2 ** 40)}
    a5 = env.add_account(w5, account_dict(extra2))
    n5 = needles_for([snapshot(a5)])
    w5.save()
    rec.log('E3.account_added_to_locked_reloaded_wallet_' + ('saved_in_clear' if find_needles(read_bytes(path), n5) else 'not_in_clear'))


# ------------------------------------------------------------------------------ family: pack / packfast
def kdf_equivalent(a, b):
    """scrypt = PBKDF2-HMAC-SHA256 around ROMix, and HMAC (RFC 2104 section 2) zero-pads keys shorter than
    its 64-byte block (longer keys are hashed first): two passwords that differ only by trailing NUL
    bytes ARE the same scrypt input.  Inherent to the KDF the blob format names, not to lbry's code:
    such pairs are observed and logged, never judged as "another password"."""
    import hashlib

    def norm(x):
        k = x.encode('utf-8')
        if len(k) > 64:
            k = hashlib.sha256(k).digest()
        return k.ljust(64, b'\0')
    return norm(a) == norm(b)


def canonical(wallet):
    return json.loads(json.dumps(wallet.to_dict()))


def exec_pack(rec, case):
    env = Env()
    try:
        from lbry.wallet import Wallet
        pwcls = case['pw']
        pw = make_password(pwcls, case['sub'])
        specs = case['accounts']
        ctx = f"password class {pwcls}, accounts {[s['kind'] for s in specs]}"
        wallet, _ = env.new_wallet(None)
        for s in specs:
            env.add_account(wallet, account_dict(s))
        wallet.preferences['shared'] = {'tags': ['a', '\xfc', '\U0001f600'], 'n': case['sub'] % 97}
        expected = canonical(wallet)
        rec.case(f"pack{case['sub']}|{pwcls}", sample={'pack_password_class': pwcls, 'accounts': [s['kind'] for s in specs]})
        rec.hit('pw.' + pwcls)
        try:
            blob = wallet.pack(pw)
        except Exception as e:  # noqa
            rec.violation(f'C13/E4/pack-raises/{type(e).__name__}', f'wallet.pack({pw[:40]!r}) raised {e!r} ({ctx})', {'password': pw})
            return
        try:
            got = Wallet.unpack(pw, blob)
        except Exception as e:  # noqa
            rec.violation(f'C13/E4/unpack-right-password-raises/{type(e).__name__}',
                          f'unpack(pw, pack(pw)) raised {e!r} for pw={pw[:40]!r} ({ctx})', {'password': pw, 'blob': blob.decode()[:400]})
            return
        rec.hit('E4.roundtrip_checked')
        if got != expected:
            rec.violation('C13/E4/unpack-differs', f'unpack(pw, pack(pw)) != to_dict() for pw={pw[:40]!r} ({ctx})',
                          {'password': pw, 'got': got, 'expected': expected})
        rec.log('ref.blob_' + ('agrees' if ref.unpack_json(pw, blob) == expected else 'DISAGREES'))
        # reference-built blob with the default parameters must be readable by the real decoder
        iv = random.Random(case['sub']).randbytes(16)
        try:
            if Wallet.unpack(pw, ref.pack_json(pw, expected, iv)) == expected:
                rec.log('ref.built_blob_read_by_real_decoder')
            else:
                rec.log('ref.built_blob_DIFFERS_in_real_decoder')
        except Exception as e:  # noqa
            rec.log('ref.built_blob_REFUSED_by_real_decoder_' + type(e).__name__)
        tried = 0
        for wp in near_misses(pw):
            if tried >= case['wrong']:
                break
            if kdf_equivalent(wp, pw):
                try:
                    Wallet.unpack(wp, blob)
                    rec.log('E4.kdf_equivalent_password(trailing NUL)_accepted')
                except Exception:  # noqa
                    rec.log('E4.kdf_equivalent_password(trailing NUL)_refused')
                continue
            tried += 1
            rec.case(f"pack{case['sub']}|{pwcls}|{wp}")
            try:
                data = Wallet.unpack(wp, blob)
            except Exception as e:  # noqa  (any refusal is fine: "never returns data")
                rec.hit('E4.wrong_checked')
                rec.log('E4.wrong_password_raises_' + type(e).__name__)
                continue
            rec.hit('E4.wrong_checked')
            rec.violation('C13/E4/wrong-password-returns-data/real-blob',
                          f'unpack({wp[:40]!r}, pack({pw[:40]!r})) returned {str(data)[:80]!r} ({ctx})',
                          {'password': pw, 'wrong_password': wp, 'returned': data})
    finally:
        env.close()


def exec_packfast(rec, case):
    import hashlib
    env = Env()
    try:
        from lbry.wallet import Wallet
        pwcls = case['pw']
        pw = make_password(pwcls, case['sub'])
        r = random.Random(case['sub'])
        wallet, _ = env.new_wallet(None)
        for s in case['accounts']:
            env.add_account(wallet, account_dict(s))
        expected = canonical(wallet)
        n, rr, p = case['scrypt']
        iv = r.randbytes(16)
        blob = ref.pack_json(pw, expected, iv, n, rr, p)
        ctx = f'reference-built blob, scrypt N={n} r={rr} p={p}, password class {pwcls}'
        rec.case(f"pf{case['sub']}|{pwcls}|{n}", sample={'packfast': ctx})
        try:
            got = Wallet.unpack(pw, blob)
        except Exception as e:  # noqa
            rec.violation(f'C13/E4/crafted-blob-right-password-raises/{type(e).__name__}',
                          f'unpack of a well-formed blob with the right password raised {e!r} ({ctx})',
                          {'password': pw, 'blob': blob.decode()[:600]})
            return
        if got != expected:
            rec.violation('C13/E4/crafted-blob-unpack-differs', f'unpack of a well-formed blob differs ({ctx})', {'password': pw})
            return
        rec.hit('E4.fast_right_checked')
        _, _, _, iv2, data = ref.blob_split(blob)
        raw = iv2 + data
        for wp in list(near_misses(pw)) + list(bulk_wrong(pw, r, case['wrong'])):
            if kdf_equivalent(wp, pw):
                rec.log('E4.kdf_equivalent_password(trailing NUL)_skipped')
                continue
            rec.case(f"pf{case['sub']}|{wp}")
            key = hashlib.scrypt(wp.encode('utf-8'), salt=iv2, n=n, r=rr, p=p, dklen=32)
            chance = ref.fast_padding_valid(key, raw)
            if chance:
                rec.hit('E4.fast_valid_padding_by_chance')
            try:
                data_out = Wallet.unpack(wp, blob)
            except Exception as e:  # noqa
                rec.hit('E4.fast_wrong_checked')
                if chance:
                    rec.log('E4.chance_padding_refused_with_' + type(e).__name__)
                if rec.out_of_time():
                    break
                continue
            rec.hit('E4.fast_wrong_checked')
            rec.violation('C13/E4/wrong-password-returns-data/crafted-blob',
                          f'unpack({wp[:40]!r}, blob for {pw[:40]!r}) returned {str(data_out)[:80]!r} ({ctx}; '
                          f'padding valid by chance: {chance})',
                          {'password': pw, 'wrong_password': wp, 'returned': data_out, 'blob': blob.decode()[:600]})
            return
    finally:
        env.close()


# ------------------------------------------------------------------------------ family: packforeign
# The sync blob names its own scrypt cost parameters (b's:<N>:<r>:<p>:'); Wallet.pack always writes OWN_PARAMS, but the payload
# handed to sync_apply / wallet_import comes from the sync server, i.e. from another client or from a later version that raised the
# work factor.  "All sync payloads" therefore includes every well-formed blob whose parameters are legal scrypt parameters
# (RFC 7914 section 2: N a power of two > 1 and < 2^(128*r/8), p <= (2^32-1)*32/(128*r)); the ones below stay within what a desktop
# client would pick (at most 64 MiB of work memory in the quick tier, 128 MiB in the thorough one).
OWN_PARAMS = (8192, 16, 1)
FOREIGN_PARAMS = [(8192, 16, 1), (1024, 8, 1), (16384, 8, 1), (8192, 16, 2), (16384, 16, 1), (32768, 8, 1), (8192, 32, 1),
                  (65536, 8, 1), (4096, 8, 1), (16384, 8, 4), (32768, 16, 1), (2048, 16, 3)]
FOREIGN_PARAMS_THOROUGH = [(131072, 8, 1), (65536, 4, 1), (4096, 64, 1), (16, 1, 1), (2, 8, 1), (16384, 16, 2), (65536, 8, 2)]


def params_class(n, rr, p):
    """relative to what Wallet.pack writes: work memory ~ 128*r*N bytes, work ~ N*r*p"""
    if (n, rr, p) == OWN_PARAMS:
        return 'own-cost-parameters'
    if n * rr > OWN_PARAMS[0] * OWN_PARAMS[1]:
        return 'more-memory-than-own-parameters'
    if n * rr * p > OWN_PARAMS[0] * OWN_PARAMS[1] * OWN_PARAMS[2]:
        return 'more-work-than-own-parameters'
    return 'cheaper-than-own-parameters'


def exec_packforeign(rec, case):
    env = Env()
    try:
        run_async(_packforeign(rec, env, case))
    finally:
        env.close()


async def _packforeign(rec, env, case):
    """E4 for payloads this library did not write itself, through both entry points of the daemon: Wallet.unpack and Wallet.merge
    (sync_apply / wallet_import) into a wallet that is encrypted on disk; then E3 + E1 for the merged wallet."""
    from lbry.wallet import Wallet
    pwcls = case['pw']
    pw = make_password(pwcls, case['sub'])
    specs = [dict(s) for s in case['accounts']]
    n, rr, p = case['scrypt']
    pcls = params_class(n, rr, p)
    ctx = (f'reference-built blob, scrypt N={n} r={rr} p={p} ({pcls}, {128 * rr * n >> 20} MiB), password class {pwcls}, '
           f"accounts {[s['kind'] for s in specs]}")
    casekey = f"pfg{case['sub']}|{n}:{rr}:{p}|{pwcls}"
    # ---- the wallet on the "other device" and its payload
    remote, _ = env.new_wallet(None, name='Wallet on the other device')
    raccs = [env.add_account(remote, account_dict(s)) for s in specs]
    remote.preferences['shared'] = {'tags': ['a', '\xfc', '\U0001f600'], 'n': case['sub'] % 97}
    snaps = [snapshot(a) for a in raccs]
    expected = canonical(remote)
    blob = ref.pack_json(pw, expected, random.Random(case['sub']).randbytes(16), n, rr, p)
    rec.case(casekey, sample={'packforeign': ctx})
    rec.hit('pw.' + pwcls)
    witness = {'password': pw, 'scrypt': [n, rr, p], 'blob': blob.decode()[:600]}
    # ---- Wallet.unpack: the right password, then other ones
    try:
        got = Wallet.unpack(pw, blob)
    except Exception as e:  # noqa
        rec.violation(f'C13/E4/foreign-blob/unpack-right-password-raises/{pcls}/{type(e).__name__}',
                      f'unpack of a well-formed blob with the right password raised {e!r} ({ctx})', witness)
        return
    if got != expected:
        rec.violation(f'C13/E4/foreign-blob/unpack-differs/{pcls}', f'unpack of a well-formed blob differs from its payload ({ctx})', witness)
        return
    rec.hit('E4.foreign_right_checked')
    rec.hit('E4.foreign.' + pcls)
    wrong = [wp for wp in near_misses(pw) if not kdf_equivalent(wp, pw)]
    k0 = case['sub'] % max(1, len(wrong) - case['wrong'])
    for wp in wrong[k0:k0 + case['wrong']]:
        rec.case(f'{casekey}|{wp}')
        try:
            data = Wallet.unpack(wp, blob)
        except Exception as e:  # noqa  (any refusal is fine: "never returns data")
            rec.hit('E4.foreign_wrong_checked')
            rec.log('E4.foreign_wrong_password_raises_' + type(e).__name__)
            continue
        rec.hit('E4.foreign_wrong_checked')
        rec.violation(f'C13/E4/wrong-password-returns-data/foreign-blob/{pcls}',
                      f'unpack({wp[:40]!r}, blob for {pw[:40]!r}) returned {str(data)[:80]!r} ({ctx})',
                      dict(witness, wrong_password=wp, returned=data))
        return
    # ---- Wallet.merge into a local wallet that is encrypted on disk (same password as the payload's, or its own)
    pwl = pw if case['sub'] % 2 else 'local wallet password ' + pw[:12]
    local, path = env.new_wallet('local.json', name='Local wallet')
    lspec = {'kind': 'seeded', 'sub': (case['sub'] * 41 + 3) % (2 ** 40)}
    lacc = env.add_account(local, account_dict(lspec))
    lsnap = snapshot(lacc)
    local.encrypt(pwl)
    def state():
        return json.dumps(local.to_dict(), sort_keys=True)
    before = state()
    wp = wrong[(k0 + case['wrong']) % len(wrong)]
    rec.case(f'{casekey}|merge|{wp}')
    try:
        res = local.merge(env.manager, wp, blob.decode())
    except Exception as e:  # noqa
        rec.log('E4.foreign_merge_wrong_password_raises_' + type(e).__name__)
        if state() != before:
            rec.log('E4.refused_merge_changed_the_wallet')
    else:
        rec.violation(f'C13/E4/wrong-password-returns-data/merge/{pcls}',
                      f'merge({wp[:40]!r}, blob for {pw[:40]!r}) was accepted: {str(res)[:80]!r} ({ctx})',
                      dict(witness, wrong_password=wp))
        return
    rec.hit('E4.foreign_merge_wrong_checked')
    try:
        added, merged = local.merge(env.manager, pw, blob.decode())
    except Exception as e:  # noqa
        rec.violation(f'C13/E4/foreign-blob/merge-right-password-raises/{pcls}/{type(e).__name__}',
                      f'merge (sync_apply) of a well-formed blob with the right password raised {e!r} ({ctx})', witness)
        return
    if merged or len(added) != len(snaps) or local.accounts[1:] != list(added):
        rec.violation(f'C13/E4/foreign-blob/merge-account-count-differs/{pcls}',
                      f'merge added {len(added)} and merged {len(merged)} accounts, the payload holds {len(snaps)} new ones; '
                      f'the wallet now has {len(local.accounts)} ({ctx})', witness)
        return
    specs_all, snaps_all = [lspec] + specs, [lsnap] + snaps
    for i, (a, s) in enumerate(zip(added, snaps)):
        try:
            now = snapshot(a)
        except Exception as e:  # noqa
            rec.violation(f'C13/E4/foreign-blob/merge-differs/snapshot-raises-{type(e).__name__}',
                          f'merged account #{i} ({specs[i]["kind"]}) cannot be read back: {e!r} ({ctx})', witness)
            return
        for field in ('seed', 'xprv', 'priv_hex', 'xpub', 'id', 'addresses', 'channel_keys', 'generator'):
            if now[field] != s[field]:
                rec.violation(f'C13/E4/foreign-blob/merge-differs/{field}',
                              f'account #{i} ({specs[i]["kind"]}) added by merge has {field} = {str(now[field])[:80]!r}, the payload '
                              f'was made from {str(s[field])[:80]!r} ({ctx})',
                              dict(witness, account=i, field=field, now=now[field], before=s[field]))
                return
    rec.hit('E4.foreign_merge_checked')
    # ---- what sync_apply does next: save.  Encryption is on and the password is set: E3 for old and new secrets, then E1
    needles = needles_for(snaps_all)
    local.save()
    check_e3(rec, path, needles, 'after-merge-save', ctx)
    try:
        w2 = env.reload(path)
    except Exception as e:  # noqa
        rec.violation(f'C13/E1/reload-raises/{type(e).__name__}', f'Wallet.from_storage after merge + save raised {e!r} ({ctx})', {})
        return
    if not await unlock_right(rec, w2, pwl, 'after-merge-save-reload', ctx, {'wordlist'}):
        return
    if compare_snaps(rec, w2.accounts, snaps_all, 'after-merge-save-reload-unlock', ctx, specs_all):
        rec.hit('E1.merged_wallet_reload_unlock_checked')


# ------------------------------------------------------------------------------ family: crash (F1)
CRASH_OPS = ('save-plain', 'save-encrypted', 'save-locked', 'encrypt')
CRASH_DELTAS = ('add-account', 'drop-account', 'rename-short', 'preference')
FS_CALLS = (('fsync', 'os.fsync'), ('stat', 'os.stat'), ('rename', 'os.rename'), ('chmod', 'os.chmod'),
            ('remove', 'os.remove'), ('unlink', 'os.unlink'), ('replace', 'os.replace'), ('open', 'os.open'),
            ('write', 'os.write'), ('close', 'os.close'), ('truncate', 'os.truncate'), ('ftruncate', 'os.ftruncate'),
            ('link', 'os.link'), ('fdatasync', 'os.fdatasync'), ('sendfile', 'os.sendfile'), ('copy_file_range', 'os.copy_file_range'),
            ('symlink', 'os.symlink'), ('mkdir', 'os.mkdir'), ('rmdir', 'os.rmdir'))


def classify_disk(now, A, B):
    if now is None:
        return 'missing-file'
    if now == b'':
        return 'empty-file'
    if B.startswith(now):
        return 'truncated-new-version'
    if A is not None and A.startswith(now):
        return 'truncated-old-version'
    try:
        json.loads(now)
        return 'other-parseable-content'
    except ValueError:
        return 'unparseable-mixture'


def exec_crash(rec, case):
    boot.import_lbry()
    import lbry.wallet.wallet as wmod
    from lbry.wallet import WalletStorage
    base = other_device_dir() if case.get('elsewhere') else None
    if case.get('elsewhere'):
        rec.hit('F1.wallet_dir_on_another_device_than_tmp' if base else 'F1.no_other_device_available')
    env = Env(base)
    try:
        op, scenario, delta = case['op'], case['scenario'], case['delta']
        specs = case['accounts']
        pw = make_password(case.get('pw', 'ascii'), case['sub'])
        wallet, path = env.new_wallet('wallet.json', name='Wallet version A ' + 'a' * 40)
        for s in specs:
            env.add_account(wallet, account_dict(s))
        ctx = f"op={op} scenario={scenario} delta={delta} accounts={[s['kind'] for s in specs]}"
        # ---- version A on disk (written by the real code, in this process)
        if op in ('save-encrypted', 'save-locked'):
            wallet.encrypt(pw)
        else:
            wallet.save()
        A = read_bytes(path) if scenario == 'over-existing' else None
        # ---- version B in memory
        if delta == 'add-account':
            env.add_account(wallet, account_dict({'kind': 'seeded', 'sub': case['sub'] + 99, 'pem': 1}))
        elif delta == 'drop-account' and wallet.accounts:
            wallet.accounts.pop()
        elif delta == 'rename-short':
            wallet.name = 'B'
        else:
            wallet.preferences['c13'] = {'k': list(range(case['sub'] % 50))}
            wallet.name = 'Wallet version B'
        if op == 'save-locked':
            wallet.lock()
        if op != 'save-plain':
            wallet.to_dict(encrypt_password=pw)          # fixes the IVs so that every child writes the same B
        frozen = int(time.time())

        def the_save():
            time.time = lambda: frozen                   # child only: timestamps of preferences identical in all children
            if op == 'encrypt':
                wallet.encrypt(pw)
            else:
                wallet.save()

        def reset_dir():
            for fn in os.listdir(env.dir):
                os.unlink(os.path.join(env.dir, fn))
            if A is not None:
                fd = os.open(path, os.O_WRONLY | os.O_CREAT | os.O_TRUNC, 0o600)
                try:
                    os.write(fd, A)
                finally:
                    os.close(fd)

        # ---- control: the complete new version (twice: it must be deterministic)
        reset_dir()
        crash.expect_clean(crash.fork_run(the_save), 'control save')
        B = read_bytes(path)
        reset_dir()
        crash.expect_clean(crash.fork_run(the_save), 'control save #2')
        if B is None or read_bytes(path) != B:
            raise RuntimeError('control saves are not deterministic; cannot define version B')
        if A == B:
            raise RuntimeError('version A equals version B: trivial crash case')
        for name, blob in (('A', A), ('B', B)):
            if blob is not None:
                p2 = os.path.join(env.dir, 'parse-' + name)
                with open(p2, 'wb') as f:
                    f.write(blob)
                w = env.reload(p2)                       # real reader: both versions parse
                if name == 'B' and len(w.accounts) != len(wallet.accounts):
                    raise RuntimeError('version B does not read back')
                rec.hit('F1.parse_checked')
        code = WalletStorage.write.__code__
        complete = True

        def judge(mode, tag, res):
            now = read_bytes(path)
            stray = [fn for fn in os.listdir(env.dir) if fn != 'wallet.json']
            if stray:
                rec.log('F1.stray_temp_files', len(stray))
            rec.case(f"crash|{case['sub']}|{op}|{scenario}|{delta}|{mode}|{tag}")
            if now == B:
                rec.hit('F1.saw_new')
            elif now == A:
                rec.hit('F1.saw_old')
            else:
                what = classify_disk(now, A, B)
                judged = JUDGE_RENAME_FALLBACK or mode != 'rename-refuses-overwrite'
                msg = (f'child died at {tag}; wallet file is now {what} '
                       f'({"absent" if now is None else str(len(now)) + " bytes"}; old {"absent" if A is None else len(A)}, '
                       f'new {len(B)} bytes) ({ctx})')
                if judged:
                    rec.violation(f'C13/F1/{what}/{scenario}/{mode}', msg,
                                  {'failpoint': tag, 'mode': mode, 'observed': what, 'stray_files': stray,
                                   'now_prefix': None if now is None else now[:200].decode('utf-8', 'replace')})
                else:
                    rec.log(f'F1.unjudged.{what}.{mode}')

        def run_point(mode, arm, expect_tag):
            reset_dir()

            def child():
                arm()
                the_save()
            res = crash.fork_run(child)
            if not res.died_at_failpoint:
                raise crash.CrashEngineError(f'{mode} point {expect_tag}: failpoint did not fire: {res!r}\n{res.error or ""}')
            rec.hit({'line': 'F1.line_points', 'call': 'F1.call_points', 'short-write': 'F1.short_write_points',
                     'rename-refuses-overwrite': 'F1.rename_fallback_points'}[mode])
            judge(mode, res.fired, res)

        # ---- (a) every LINE event inside WalletStorage.write
        reset_dir()

        def trace_child():
            seen = crash.trace_lines(code)
            the_save()
            return seen
        lines = crash.expect_clean(crash.fork_run(trace_child), 'line trace')
        if len(lines) < 5:
            raise RuntimeError(f'only {len(lines)} LINE events seen inside WalletStorage.write')
        rec.note('line_events_in_WalletStorage.write', lines)
        for k in range(len(lines)):
            if rec.out_of_time():
                complete = False
                break
            run_point('line', lambda k=k: crash.arm_line_failpoint(code, k), f'line#{k}')

        # ---- (b) before/after every file-system call of the save
        def make_trace(**kw):
            t = crash.OpTrace(**kw)
            t.patch_open(wmod)
            t.patch_builtin_open_under(env.dir)      # whatever library code the save delegates to (shutil, tempfile ...) is traced too
            for attr, label in FS_CALLS:
                if hasattr(os, attr):
                    t.patch(os, attr, label)
            t.patch(os.path, 'exists', 'os.path.exists')
            return t

        reset_dir()

        def ops_child():
            t = make_trace()
            the_save()
            return t.log
        ops = crash.expect_clean(crash.fork_run(ops_child), 'op trace')
        rec.note('fs_ops_of_a_save', ops)
        if not any(o in ops for o in ('open', 'os.open')):
            raise RuntimeError(f'op trace shows no file being opened at all: {ops}')
        for i in range(len(ops)):
            for when in ('before', 'after'):
                if rec.out_of_time():
                    complete = False
                    break
                run_point('call', lambda i=i, when=when: make_trace(die_at=i, when=when), f'op#{i}:{ops[i]}:{when}')
        # ---- (c) torn write: a prefix of the data reaches the file, then death
        iw = ops.index('file.write') if 'file.write' in ops else None
        if iw is None:
            rec.log('F1.torn_write_not_simulated(no proxied file.write in the op trace)')
        total = len(B)
        rr = random.Random(case['sub'])
        if case.get('all_prefixes'):
            cuts = list(range(0, total + 1))
        else:
            cuts = sorted({0, 1, 2, total // 2, total - 1, total, 4096, 8192, 8193} | {rr.randrange(total + 1) for _ in range(10)})
            cuts = [c for c in cuts if c <= total]
        for n in (cuts if iw is not None else []):
            if rec.out_of_time():
                complete = False
                break
            run_point('short-write', lambda n=n: make_trace(die_at=iw, short_write=n), f'short-write:{n}')
        # ---- (d) the code's own fall-back branch: rename that refuses to overwrite
        if scenario == 'over-existing':
            real_lexists = os.path.lexists

            def refusing_rename(real, src, dst, *a, **kw):
                if real_lexists(dst):
                    raise FileExistsError(17, 'simulated: rename does not overwrite', dst)
                return real(src, dst, *a, **kw)

            reset_dir()

            def ops2_child():
                t = make_trace(fail={'os.rename': refusing_rename})
                the_save()
                return t.log
            res = crash.fork_run(ops2_child)
            if res.completed:
                ops2 = res.payload
                rec.note('fs_ops_of_a_save_when_rename_refuses_overwrite', ops2)
                for i in range(len(ops2)):
                    for when in ('before', 'after'):
                        if rec.out_of_time():
                            complete = False
                            break
                        run_point('rename-refuses-overwrite',
                                  lambda i=i, when=when: make_trace(die_at=i, when=when, fail={'os.rename': refusing_rename}),
                                  f'op#{i}:{ops2[i]}:{when}')
            else:
                rec.log('F1.save_raises_when_rename_refuses_overwrite')
        # ---- (e) an interrupted save followed by a complete LATER save of a smaller wallet by a process that gets the same pid
        # (pids are reused; the temp file name only depends on the pid).  Added after seeded break C13-A.
        PID = 4242

        def shrink_and_save():
            os.getpid = lambda: PID
            time.time = lambda: frozen
            wallet.name = 'S'
            while len(wallet.accounts) > 1:
                wallet.accounts.pop()
            wallet.save()
        reset_dir()
        ctrl = crash.fork_run(shrink_and_save)
        S = read_bytes(path) if ctrl.completed else None
        if S is not None and len(S) < len(B):
            first_w = min([ops.index(o) for o in ('file.write', 'os.write', 'os.fsync') if o in ops] or [0])
            for i in range(first_w, len(ops)):
                if rec.out_of_time():
                    break
                reset_dir()

                def child1(i=i):
                    os.getpid = lambda: PID
                    make_trace(die_at=i, when='before')
                    the_save()
                r1 = crash.fork_run(child1)
                if not r1.died_at_failpoint:
                    continue
                r2 = crash.fork_run(shrink_and_save)
                rec.hit('F1.later_save_after_interrupted_one')
                final = read_bytes(path)
                rec.case(f"crash2|{case['sub']}|{op}|{scenario}|{i}")
                if not r2.completed or final != S:
                    rec.violation('C13/F1/later-save-corrupted-by-leftover-of-interrupted-save',
                                  f'a save died before {ops[i]} (leaving its temp file), a later complete save of a smaller wallet by a process with the '
                                  f'same pid left a wallet file that is not the complete new version ({"absent" if final is None else len(final)} bytes, '
                                  f'expected {len(S)}) ({ctx})',
                                  {'died_before': ops[i], 'final_len': None if final is None else len(final), 'expected_len': len(S),
                                   'tail': None if final is None else final[len(S) - 20:len(S) + 60].decode('utf-8', 'replace'),
                                   'second_save_completed': r2.completed})
                    break
        else:
            rec.log('F1.later_save_scenario_skipped(second version not smaller)')
        rec.exhaustive['save_crash_points'] = complete and rec.exhaustive.get('save_crash_points', True)
        if len(rec.samples) < 4 and not any(isinstance(s, dict) and 'crash_case' in s for s in rec.samples):
            rec.samples.append({'crash_case': ctx, 'line_events': lines, 'fs_ops': ops, 'short_write_cuts': cuts[:8]})
    finally:
        env.close()


# ------------------------------------------------------------------------------ cases
def crash_cases(tier):
    quick = tier == 'quick'
    shapes = [['seeded'], ['seeded', 'keyonly', 'watch', 'seeded-pem'], ['keyonly'], ['watch'], [], ['seeded-pem', 'seeded-regtest']]
    out = []
    n = 0
    for si, names in enumerate(shapes):
        for oi, op in enumerate(CRASH_OPS):
            for sc in ('over-existing', 'no-file'):
                n += 1
                if quick and (si + oi) % 2 and sc == 'no-file':
                    continue
                delta = CRASH_DELTAS[(si + oi + (sc == 'no-file')) % len(CRASH_DELTAS)]
                if delta == 'drop-account' and not names:
                    delta = 'add-account'
                out.append({'fam': 'crash', 'op': op, 'scenario': sc, 'delta': delta, 'sub': 1000 + n,
                            'pw': ['ascii', 'emoji', 'long-10k', 'nfd'][n % 4], 'accounts': specs_for(names, 500 + n),
                            'all_prefixes': (not quick) and n % 6 == 0, 'elsewhere': n % 3 == 0})
    return out


def gen_cases(rng, tier, shard, nshards):
    quick = tier == 'quick'
    nwrong = 20000 if quick else 50000
    classes = list(PW_FIXED) + PW_GENERATED
    kinds = list(KINDS)
    counter = [0]

    def mine():
        counter[0] += 1
        return (counter[0] - 1) % nshards == shard

    # ---- deterministic lists, dealt round-robin over the shards
    crash_list = [c for c in crash_cases(tier) if mine()]
    # pack with real scrypt: every password class once
    pack_list = []
    for i, cls in enumerate(classes):
        if mine():
            pack_list.append({'fam': 'pack', 'pw': cls, 'sub': 7500 + i, 'accounts': specs_for(SHAPES[(i * 3) % len(SHAPES)], 7500 + i),
                              'wrong': 3 if quick else 8})
    # seeds outside the English word list (separate mechanism key)
    odd_list = []
    for i, sc in enumerate(NONWORDLIST):
        if mine():
            specs = specs_for(['seeded'] if i % 2 == 0 else ['seeded', 'seeded'], 7400 + i)
            specs[-1]['seed_class'] = sc
            odd_list.append({'fam': 'roundtrip', 'pw': 'ascii', 'sub': 7400 + i, 'accounts': specs, 'wrong': 200})
    # every password class once with a rotating fixed shape, every fixed shape once with a rotating password
    secret_shapes = [s for s in SHAPES if any(KINDS[k]['kind'] != 'watch' for k in s)]
    fixed = []
    for i, cls in enumerate(classes):
        fixed.append((cls, secret_shapes[i % len(secret_shapes)], 7000 + i))
    for i, names in enumerate(SHAPES):
        fixed.append((classes[(i * 5 + 3) % len(classes)], names, 7100 + i))
    if not quick:
        import itertools
        for i, perm in enumerate(itertools.permutations(['seeded', 'keyonly', 'watch', 'seeded-pem'])):
            fixed.append((classes[i % len(classes)], list(perm), 7200 + i))
    fixed.append(('lone-surrogate', ['seeded'], 7300))
    fixed_list = [{'fam': 'roundtrip', 'pw': cls, 'sub': sub, 'accounts': specs_for(names, sub), 'wrong': nwrong}
                  for cls, names, sub in fixed if mine()]
    # sync payloads written by somebody else: every parameter set once, with a rotating password class and account shape
    foreign_params = FOREIGN_PARAMS if quick else FOREIGN_PARAMS + FOREIGN_PARAMS_THOROUGH
    foreign_list = []
    for i, prm in enumerate(foreign_params):
        if mine():
            foreign_list.append({'fam': 'packforeign', 'pw': classes[(i * 7 + 2) % len(classes)], 'sub': 7600 + i, 'scrypt': list(prm),
                                 'accounts': specs_for(secret_shapes[(i * 5 + 1) % len(secret_shapes)], 7600 + i),
                                 'wrong': 2 if quick else 6})
    # ---- random material of this shard (drawn completely before anything is yielded)
    rand_rt, rand_pf, rand_pack, rand_foreign = [], [], [], []
    for j in range(1 if quick else 60):
        sub = rng.getrandbits(36)
        names = [rng.choice(kinds) for _ in range(rng.choice([1, 1, 2, 3, 4, 5]))]
        if not any(KINDS[k]['kind'] != 'watch' for k in names):
            names.insert(rng.randrange(len(names) + 1), rng.choice(['seeded', 'keyonly']))
        rand_rt.append({'fam': 'roundtrip', 'pw': rng.choice(classes), 'sub': sub, 'accounts': specs_for(names, sub), 'wrong': nwrong})
    for j in range(1 if quick else 40):
        sub = rng.getrandbits(36)
        rand_pf.append({'fam': 'packfast', 'pw': rng.choice(classes), 'sub': sub, 'accounts': specs_for(rng.choice(SHAPES), sub),
                        'scrypt': rng.choice([[2, 1, 1], [4, 1, 1], [16, 2, 1], [2, 1, 2]]), 'wrong': 6000 if quick else 60000})
    for j in range(0 if quick else 25):
        sub = rng.getrandbits(36)
        rand_pack.append({'fam': 'pack', 'pw': rng.choice(classes), 'sub': sub, 'accounts': specs_for(rng.choice(SHAPES), sub), 'wrong': 8})
    for j in range(0 if quick else 12):
        sub = rng.getrandbits(36)
        rand_foreign.append({'fam': 'packforeign', 'pw': rng.choice(classes), 'sub': sub, 'scrypt': list(rng.choice(foreign_params)),
                             'accounts': specs_for(rng.choice(secret_shapes), sub), 'wrong': 4})
    # ---- order: forks first (no loop has existed yet), then the cheap families, then the wallets
    yield from crash_list
    yield from rand_pf[:1]
    yield from pack_list
    yield from foreign_list
    yield from odd_list
    yield from fixed_list
    # interleave the random families so that a budget cut leaves all of them represented
    rest = [rand_rt, rand_pf[1:], rand_pack, rand_foreign]
    while any(rest):
        for lst in rest:
            if lst:
                yield lst.pop(0)


def shard_setup(rec, tier):
    ref.self_check()
    rec.hit('ref.self_check_passed')


def shard_finish(rec, tier):
    # the parent keeps the first two samples of each shard: rotate so that every family shows up
    if rec.samples:
        k = rec.shard % len(rec.samples)
        rec.samples[:] = rec.samples[k:] + rec.samples[:k]


def execute(rec, case):
    fam = case['fam']
    if fam == 'crash':
        exec_crash(rec, case)
    elif fam == 'roundtrip':
        exec_roundtrip(rec, case)
    elif fam == 'pack':
        exec_pack(rec, case)
    elif fam == 'packfast':
        exec_packfast(rec, case)
    elif fam == 'packforeign':
        exec_packforeign(rec, case)
    else:
        raise ValueError(fam)

"""C07 — header chain: linked, retargeted, proof-of-work; valid prefix after a crash.  [H+M]
Real lbry.wallet.header.Headers logic (connect / validate_chunk / validate_header / get_next_block_target /
fetch_chunk / open / repair / close) on (a) the 20 real main-net headers and (b) a sim network that only
overrides class constants (max_target, genesis hash, checkpoints) exactly as UnvalidatedHeaders does while
keeping validate_difficulty on.  Oracle: independent validator/miner vlib/ref/headers.py."""
import asyncio
import base64
import os
import random
import shutil
import struct
import tempfile
import zlib

from vlib import boot
from vlib.ref import headers as R

ID = 'C07'
LEVEL = 'exploration'
RULE = ('families: connect = op history on a fresh Headers object (valid extensions split 1..n ways, forks at lower heights, '
        're-connects, batches with one header altered per field/position, headers mined valid-except-one-rule, start>len, '
        'misaligned); checkpoint = fetch_chunk with genuine / one-byte-off / non-checkpointed chunks; retarget = exact-integer '
        'cross-check of get_next_block_target; mainnet = 20 real headers accepted, every single-field alteration rejected; '
        'cut = header file truncated at a byte offset then reopened; overwrite = stored headers above the checkpoint damaged '
        '(whole/partial, random/zero/foreign-valid) at first/interior/tip-1/tip for tail lengths covering every residue mod 36. '
        'replay = after a valid fork that ends below the stored length, the headers of the replaced branch are sent again at their old '
        'heights (alone from the fork end, behind the stored fork tip, followed by a header mined on top of them), mixed with continuations of '
        'the fork and further shorter forks; chunks = a class with 4 generated checkpoints: first run fetches some chunks (tip-down background '
        'and on-demand look-ups below it, so holes stay above held chunks), the file may then be cut at a byte inside the checkpointed region, '
        'restart: every chunk regarded as held equals the checkpointed chunk, headers served with an honest server attached are the true ones, '
        'a valid batch on top of the checkpointed region is stored, second restart; nearlink = a header mined to be valid except for one bit of its '
        'previous-block hash, for each of the 32 bytes of the field. '
        'distinct = hash(family, op kinds or (tail length, offset/position, damage kind)); non-trivial = every case except plain valid extensions')
ASSUMPTIONS = ['sim network = class-constant overrides only (max_target 2^255-1, mined genesis, generated checkpoint for chunk 0)',
               'reference retarget rule transcribed from lbrycrd src/lbry.cpp with exact integer arithmetic; cross-checked on the 20 real main-net headers',
               'a crash is modelled by its effect on the file (cut at byte b / header bytes overwritten); the real close() writes the whole buffer in place',
               'chunks family: the 4000 headers below the last generated checkpoint link and carry constant bits but are not mined (a checkpointed chunk is '
               'authenticated by its hash only, nothing validates proof of work there); the 3 headers connected above them are mined and fully valid']
REQUIRED_HITS = ['V1.valid_batch_stored', 'V2.invalid_batch_checked', 'V2.rule.link', 'V2.rule.bits', 'V2.rule.pow', 'V2.rule.genesis', 'V2.bits_other_encoding_of_the_right_target',
                 'V3.chain_validated', 'V4.genuine', 'V4.overlong_reply', 'V4.mismatch', 'V4.uncheckpointed', 'V5.retarget_checked', 'V5.clamp_low', 'V5.clamp_high',
                 'op.fork', 'op.fork_shorter_than_old_tail', 'op.extend_stale_tail', 'op.split', 'op.reconnect', 'op.beyond_tip', 'mainnet.accepted', 'mainnet.alteration_rejected',
                 'W.cut_checked', 'W.overwrite_checked', 'W.cut_mid_header', 'W.damage.tip', 'W.damage.interior', 'W.damage.deep_below_tip', 'W.real_persist', 'W.session_reopened', 'W.session_closed', 'W.session_fork_below_size_at_open',
                 'op.replay_replaced_tail', 'op.replay_behind_fork_tip', 'op.replay_then_header_on_top', 'V4.restart_checked', 'V4.restart_hole_above_held_chunk',
                 'V4.restart_cut_inside_checkpointed_region', 'V4.restart_held_chunk_compared', 'V4.restart_served_checked', 'V4.restart_batch_on_top_connected',
                 'V2.link_one_bit_off']
MAXT = (1 << 255) - 1
HS = 112
NCK = 4          # checkpointed chunks of the multi-checkpoint class (chunks family)
_S = {}


def plan(tier):
    return {'shards': 16, 'budget_s': 55 if tier == 'quick' else 800}


# ------------------------------------------------------------------------------ sim chains
def build_chain(rng, n, start_ts=1_500_000_000, chain=None, fork_at=None):
    """mines a valid sim chain of n headers (or extends/forks `chain` at fork_at with n headers)."""
    out = [] if chain is None else list(chain[:fork_at])
    ts = start_ts if not out else R.unpack(out[-1])['timestamp']
    want = len(out) + n
    while len(out) < want:
        h = len(out)
        if h == 0:
            target, bits, prev_hash = MAXT, R.target_to_compact(MAXT), b'\x00' * 32
        else:
            prev = R.unpack(out[-1])
            prevprev = R.unpack(out[-2]) if h >= 2 else None
            target = R.next_target(MAXT, prevprev, prev)
            bits = R.target_to_compact(target)
            prev_hash = R.header_hash(out[-1])
        if target < (MAXT >> 5):
            delta = rng.choice([10 ** 6, 2000, 751, 750])
        else:
            delta = rng.choice([0, 1, 100, 131, 132, 133, 149, 150, 151, 157, 158, 225, 750, 751, 800, 10 ** 6, -50, -5000, 150, 150, 600])
        ts = max(1, min(0xffffffff, ts + delta))
        raw = R.mine(rng.choice([1, 0x20000000, 0x7fffffff]), prev_hash, rng.randbytes(32), rng.randbytes(32), ts, bits, min(target, R.compact_to_target(bits)),
                     start_nonce=rng.getrandbits(31))
        out.append(raw)
    return out


def shard_setup(rec, tier):
    boot.import_lbry()
    from lbry.wallet.header import Headers
    r = random.Random(7000 + rec.shard + 1000 * rec.seed)
    chain = build_chain(r, 2160)      # 1000 checkpointed + up to 1160 above: repair must also reach damage deep below the tip
    _S['chain'] = chain
    _S['bytes'] = b''.join(chain)
    _S['genesis'] = R.header_hash_hex(chain[0])
    _S['ckpt'] = R.sha256d(_S['bytes'][:1000 * HS])[::-1].hex()
    k, rule = R.validate_chain(_S['bytes'], len(chain), MAXT, _S['genesis'])
    assert k is None, (k, rule)
    _S['tmp'] = tempfile.mkdtemp(prefix='verif-c07-')
    _S['multi_seed'] = r.getrandbits(48)

    class SimHeaders(Headers):
        max_target = MAXT
        genesis_hash = _S['genesis'].encode()
        checkpoints = {}
        validate_difficulty = True

    class SimHeadersCk(SimHeaders):
        checkpoints = {0: _S['ckpt']}

    class MainHeaders(Headers):
        checkpoints = {}
    _S['Sim'], _S['SimCk'], _S['Main'] = SimHeaders, SimHeadersCk, MainHeaders
    _S['mainnet'] = bytes.fromhex(open(os.path.join(boot.VERIF, 'fixtures', 'mainnet_headers_0_19.hex')).read().strip())
    k, rule = R.validate_chain(_S['mainnet'], 20, 0xffff << 224, '9c89283ba0f3227f6c03b70216b9f665f0118d5e0fa729cedf4fb34d6a34f463')
    assert k is None, ('reference rejects real main-net headers', k, rule)


def shard_finish(rec, tier):
    shutil.rmtree(_S.get('tmp', ''), ignore_errors=True)


def gen_cases(rng, tier, shard, nshards):
    q = tier == 'quick'
    fams = []
    if shard == 0:
        fams.append([{'fam': 'mainnet'}])
    fams.append([{'fam': 'connect', 'seed': rng.getrandbits(48), 'ck': rng.random() < 0.3} for _ in range(8 if q else 150)])
    fams.append([{'fam': 'checkpoint', 'seed': rng.getrandbits(48)} for _ in range(2 if q else 30)])
    fams.append([{'fam': 'pow_sliver', 'seed': rng.getrandbits(48), 'quick': q} for _ in range(1 if q else 6)])
    fams.append([{'fam': 'retarget', 'seed': rng.getrandbits(48), 'count': 10000} for _ in range(3 if q else 120)])
    # crash part: tail lengths covering every residue of (tip - repair start) mod 36
    tails = list(range(1, 81))
    mine_tails = [t for i, t in enumerate(tails) if i % nshards == shard]
    ow, cut = [], []
    for t in mine_tails:
        for pos in ['tip', 'tip-1', 'first', 'interior']:
            for kind in ['random', 'zero', 'foreign', 'partial-nonlink', 'partial-link', 'partial-any']:
                ow.append({'fam': 'overwrite', 'tail': t, 'pos': pos, 'kind': kind, 'seed': rng.getrandbits(32)})
        if q:
            cut.append({'fam': 'cut', 'tail': t, 'offsets': 'sample', 'seed': rng.getrandbits(32), 'real': t % 16 == 1})
        else:
            cut.append({'fam': 'cut', 'tail': t, 'offsets': 'all' if t in (1, 2, 36, 37, 38, 72, 73, 80) or t % 7 == 0 else 'sample',
                        'seed': rng.getrandbits(32), 'real': t % 8 == 1})
    fams.append(cut)
    fams.append(ow)
    # long tails (added after seeded break C07-D): damage more than 1000 headers below the tip is still above the checkpoint
    deep = []
    for j, (t, depth) in enumerate([(1050, 1049), (1100, 1001), (1100, 1000), (1100, 999), (1160, 1100), (1130, 1050), (1101, 1100), (1160, 580)]):
        if j % nshards == shard % 8 or not q:
            for kind in ['random', 'partial-link', 'partial-nonlink']:
                deep.append({'fam': 'overwrite', 'tail': t, 'pos': f'depth:{depth}', 'kind': kind, 'seed': rng.getrandbits(32)})
    fams.append(deep)
    # several sessions on one real header file (added after seeded break C07-F: close() that only rewrites "what changed")
    fams.append([{'fam': 'sessions', 'seed': rng.getrandbits(48), 'ck': i % 2 == 1} for i in range(3 if q else 60)])
    # added after seeded breaks C07-I / C07-J and for own mutant C07-8 (drawn last so that the descriptors of the older families stay what they were; placed early)
    fams.insert(1, [{'fam': 'replay', 'seed': rng.getrandbits(48)} for _ in range(3 if q else 60)])
    fams.insert(2, [{'fam': 'chunks', 'seed': rng.getrandbits(48), 'histories': 8 if q else 12} for _ in range(2 if q else 40)])
    fams.insert(3, [{'fam': 'nearlink', 'seed': rng.getrandbits(48)} for _ in range(1 if q else 12)])
    # round-robin so that every family is reached early even when the budget is cut short on a loaded machine
    weights = {'overwrite': 12}
    while any(fams):
        for f in fams:
            for _ in range(weights.get(f[0]['fam'], 1) if f else 0):
                if f:
                    yield f.pop(0)


# ------------------------------------------------------------------------------ families
def execute(rec, case):
    loop = asyncio.new_event_loop()
    try:
        loop.run_until_complete(asyncio.wait_for(globals()['_fam_' + case['fam']](rec, case), 900))
    finally:
        loop.run_until_complete(loop.shutdown_default_executor())
        loop.close()


def _buf(h):
    return bytes(h.io.getvalue())


async def _connect_op(rec, hdrs, start, batch, label, genesis, max_target=MAXT, cls=''):
    """one connect() call under the V1/V2/V3 monitor. returns added (or None).  cls: input class appended to the V2 mechanism keys."""
    cls = '/' + cls if cls else ''
    pre, pre_len = _buf(hdrs), len(hdrs)
    added, exc = None, None
    try:
        added = await hdrs.connect(start, batch)
    except Exception as e:  # noqa  logged, state judged
        exc = e
        rec.log('connect_raised.' + type(e).__name__)
    post = _buf(hdrs)
    n = len(batch) // HS
    misaligned = len(batch) % HS != 0
    if misaligned or start > pre_len or start < 0:
        k, rule = 0, 'unconnectable'
        rec.hit('op.beyond_tip' if start > pre_len else 'op.misaligned')
    else:
        k, rule = R.first_invalid(pre, start, batch, max_target, genesis)
    if k is None:
        rec.hit('V1.valid_batch_stored')
        if added != n or post[start * HS:(start + n) * HS] != batch:
            rec.violation('C07/V1/valid-batch-not-stored-whole',
                          f'{label}: a fully valid batch of {n} headers linking at height {start} returned added={added}'
                          f'{" raised " + type(exc).__name__ if exc else ""}; stored==batch: {post[start * HS:(start + n) * HS] == batch}',
                          {'start': start, 'n': n, 'added': added, 'exc': repr(exc)})
            return None
        if post[:start * HS] != pre[:start * HS] or post[(start + n) * HS:] != pre[(start + n) * HS:]:
            rec.violation('C07/V1/bytes-outside-batch-changed', f'{label}: connect changed stored bytes outside [start, start+n)', {'start': start, 'n': n})
            return None
    else:
        rec.hit('V2.invalid_batch_checked')
        rec.hit('V2.rule.' + rule)
        cut = (start + k) * HS
        if post[cut:] != pre[cut:]:
            rec.violation(f'C07/V2/stored-at-or-beyond-first-invalid/{rule}{cls}',
                          f'{label}: batch of {n} at height {start} has its first invalid header at index {k} (rule {rule}) but stored bytes at '
                          f'heights >= {start + k} changed (added={added})', {'start': start, 'n': n, 'k': k, 'rule': rule, 'added': added})
            return None
        if added is not None and added > k:
            rec.violation(f'C07/V2/reported-more-than-valid-prefix/{rule}{cls}', f'{label}: connect returned added={added} > valid prefix {k}',
                          {'start': start, 'k': k, 'added': added})
            return None
        if post[:start * HS] != pre[:start * HS]:
            rec.violation('C07/V2/bytes-below-start-changed', f'{label}: bytes below the connect height changed', {'start': start})
            return None
        mid_ok = post[start * HS:cut] in (pre[start * HS:cut], batch[:k * HS])
        if not mid_ok:
            rec.violation('C07/V2/valid-prefix-region-garbled', f'{label}: bytes of the valid prefix region are neither old nor the batch', {'start': start, 'k': k})
            return None
    return added


async def _fam_connect(rec, case):
    r = random.Random(case['seed'])
    chain, genesis = _S['chain'], _S['genesis']
    cls = _S['SimCk'] if case['ck'] else _S['Sim']
    hdrs = cls(':memory:')
    await hdrs.open()
    E = 0
    junctions = set()      # ends of earlier shorter forks: where a stale tail begins
    stale_len = 0          # length of a stale old tail still stored beyond the valid chain after a shorter fork
    kinds = []
    cur = list(chain[:0])          # model of what a correct chain looks like so far (list of raw headers), follows successful ops
    nops = r.randrange(8, 22)
    for _ in range(nops):
        if rec.out_of_time():
            break
        L = len(cur)
        op = r.choice(['extend', 'extend', 'split', 'fork', 'reconnect', 'altered', 'altered', 'mined_bad', 'mined_bad', 'unlinked',
                       'beyond', 'misaligned', 'genesis_bad'])
        if L == 0 and op not in ('extend', 'genesis_bad', 'beyond'):
            op = 'extend'
        if stale_len and stale_len > E > 0 and r.random() < 0.6:
            op = 'extend_stale'
        kinds.append(op)
        label = op
        if op == 'extend':
            m = r.choice([1, 2, 5, 36, 37, 100, 300])
            src = chain if cur == chain[:L] else None
            nxt = chain[L:L + m] if src is not None else build_chain(r, min(m, 12), chain=cur, fork_at=L)[L:]
            if not nxt:
                continue
            added = await _connect_op(rec, hdrs, L, b''.join(nxt), label, genesis)
            if added == len(nxt):
                cur = cur + list(nxt)
                E = len(cur)
        elif op == 'extend_stale':
            # hostile/odd server: after a shorter fork it extends the OLD tip, which is still stored beyond the valid chain
            rec.hit('op.extend_stale_tail')
            stored = _buf(hdrs)
            n_st = stale_len
            st = [stored[i * HS:(i + 1) * HS] for i in range(n_st)]
            nxt = build_chain(r, r.choice([1, 3]), chain=st, fork_at=n_st)[n_st:]
            pre_E = E
            try:
                added = await hdrs.connect(n_st, b''.join(nxt))
            except Exception as e:  # noqa
                added = 0
                rec.log('connect_raised.' + type(e).__name__)
            if added:
                E2 = n_st + added
                k, rule = R.validate_chain(_buf(hdrs), E2, MAXT, genesis)
                rec.hit('V3.chain_validated')
                if k is not None:
                    # the stale tail begins where the model's valid chain ends (len(cur): the fork's end plus whatever extended it since;
                    # thorough run #2 mis-keyed a case where the fork had been extended before the stale tip was built on)
                    mech = 'stale-tail-after-shorter-fork' if (k in junctions or k == pre_E or k == len(cur)) and rule == 'link' else rule
                    rec.violation(f'C07/V3/stored-chain-invalid/{mech}',
                                  f'a batch linking to the stale old tip (height {n_st - 1}) was connected after a shorter fork ended at {pre_E}: '
                                  f'chain [0,{E2}) up to the end of the most recently connected batch does not link at height {k}',
                                  {'fork_end': pre_E, 'stale_len': n_st, 'E': E2, 'k': k, 'ops': kinds[-6:]})
                    break
                cur = [(_buf(hdrs))[i * HS:(i + 1) * HS] for i in range(E2)]
                E = E2
            continue
        elif op == 'split':
            rec.hit('op.split')
            src = chain if cur == chain[:L] else None
            nxt = chain[L:L + r.choice([3, 10, 40])] if src is not None else build_chain(r, 6, chain=cur, fork_at=L)[L:]
            i = 0
            while i < len(nxt):
                j = min(len(nxt), i + r.choice([1, 1, 2, 7]))
                added = await _connect_op(rec, hdrs, L + i, b''.join(nxt[i:j]), label, genesis)
                if added != j - i:
                    break
                cur = cur + list(nxt[i:j])
                E = len(cur)
                i = j
        elif op == 'fork':
            rec.hit('op.fork')
            f = r.randrange(max(1, L - 40), L) if L > 1 else 1
            if f >= L:
                continue
            m = r.choice([1, 2, L - f, L - f + 3, 10])
            branch = build_chain(r, m, chain=cur, fork_at=f)[f:]
            added = await _connect_op(rec, hdrs, f, b''.join(branch), label, genesis)
            if added == len(branch):
                if f + len(branch) < L:
                    rec.hit('op.fork_shorter_than_old_tail')
                    stale_len = max(stale_len, L)
                    junctions.add(f + len(branch))
                cur = cur[:f] + list(branch)          # the valid chain now ends with the branch; a stale tail may remain stored
                E = len(cur)
        elif op == 'reconnect':
            rec.hit('op.reconnect')
            f = r.randrange(max(0, E - 30), E) if E > 0 else 0
            m = r.randrange(1, E - f + 1) if E - f >= 1 else 0
            if not m:
                continue
            added = await _connect_op(rec, hdrs, f, b''.join(cur[f:f + m]), label, genesis)
            if added == m:
                E = f + m
        elif op in ('altered', 'mined_bad', 'unlinked', 'genesis_bad'):
            if op == 'genesis_bad':
                start, base = 0, [bytes(build_chain(r, 1)[0])] + ([] if L < 2 else [])
                batch = base
            else:
                f = r.choice([L, L, max(1, L - r.randrange(1, 10))])
                src = chain if cur[:f] == chain[:f] and len(chain) > f else None
                m = r.choice([1, 3, 8])
                good = chain[f:f + m] if src is not None and chain[f:f + m] else build_chain(r, min(m, 5), chain=cur, fork_at=f)[f:]
                if not good:
                    continue
                good = [bytes(x) for x in good]
                pos = r.choice([0, len(good) // 2, len(good) - 1])
                start = f
                if op == 'altered':
                    field = r.choice(['version', 'prev', 'merkle', 'claimtrie', 'timestamp', 'bits', 'nonce'])
                    off, ln = {'version': (0, 4), 'prev': (4, 32), 'merkle': (36, 32), 'claimtrie': (68, 32), 'timestamp': (100, 4),
                               'bits': (104, 4), 'nonce': (108, 4)}[field]
                    b = bytearray(good[pos])
                    p = off + r.randrange(ln)
                    b[p] ^= 1 << r.randrange(8)
                    good[pos] = bytes(b)
                    label = f'altered:{field}@{["first", "middle", "last"][[0, len(good) // 2, len(good) - 1].index(pos)] if len(good) > 1 else "only"}'
                elif op == 'unlinked':
                    hdr = R.unpack(good[pos])
                    other = R.header_hash(cur[r.randrange(len(cur))]) if cur else r.randbytes(32)
                    below = (cur[:f] + good[:pos])
                    prevraw = below[-1] if below else None
                    pp = below[-2] if len(below) >= 2 else None
                    target = R.next_target(MAXT, R.unpack(pp) if pp else None, R.unpack(prevraw)) if prevraw else MAXT
                    good[pos] = R.mine(hdr['version'], other, hdr['merkle'], hdr['claimtrie'], hdr['timestamp'], hdr['bits'],
                                       min(target, R.compact_to_target(hdr['bits'])))
                    good = good[:pos + 1]
                    label = 'valid-but-unlinked'
                else:
                    below = (cur[:f] + good[:pos])
                    prevraw, pp = below[-1], (below[-2] if len(below) >= 2 else None)
                    target = R.next_target(MAXT, R.unpack(pp) if pp else None, R.unpack(prevraw))
                    hdr = R.unpack(good[pos])
                    which = r.choice(['wrong-bits-right-pow', 'right-bits-insufficient-pow'])
                    if which == 'wrong-bits-right-pow':
                        canon = R.target_to_compact(target)
                        how = r.choice(['+1', '-1', 'exp+1', 'sign-flag', 'sign-flag', 'denormalised'])
                        if how == 'sign-flag':
                            # another 32-bit value that DECODES to the demanded target: "exactly the bits the rule demands" is an
                            # equality of the field, as in consensus (seeded break C07-H compared decoded-and-re-encoded values)
                            wrong = canon | 0x00800000
                        elif how == 'denormalised' and (canon & 0xff) == 0 and (canon >> 24) < 0x21:
                            wrong = (((canon >> 24) + 1) << 24) | ((canon & 0x007fffff) >> 8)
                        else:
                            wrong = canon + {'+1': 1, '-1': -1}.get(how, 1 << 24)
                        if R.compact_to_target(wrong) == R.compact_to_target(canon) and wrong != canon:
                            rec.hit('V2.bits_other_encoding_of_the_right_target')
                        good[pos] = R.mine(hdr['version'], hdr['prev'], hdr['merkle'], hdr['claimtrie'], hdr['timestamp'], wrong,
                                           min(target, R.compact_to_target(wrong)))
                    else:
                        good[pos] = R.mine(hdr['version'], hdr['prev'], hdr['merkle'], hdr['claimtrie'], hdr['timestamp'], hdr['bits'], target,
                                           want_valid=False)
                    good = good[:pos + 1]
                    label = which
                batch = good
            added = await _connect_op(rec, hdrs, start, b''.join(batch), label, genesis)
            if added and added == len(batch):
                # the "bad" batch turned out valid (e.g. the randomly chosen foreign parent was the real one, or the flipped bit
                # did not matter): it is a fork like any other and the model follows it
                if start + len(batch) < L:
                    rec.hit('op.fork_shorter_than_old_tail')
                    stale_len = max(stale_len, L)
                    junctions.add(start + len(batch))
                cur = cur[:start] + [bytes(x) for x in batch]
                E = len(cur)
        elif op == 'beyond':
            await _connect_op(rec, hdrs, len(hdrs) + r.choice([1, 2, 1000]), b''.join(chain[:2]), label, genesis)
        elif op == 'misaligned':
            await _connect_op(rec, hdrs, L, b''.join(chain[L:L + 2])[:-r.randrange(1, 111)] or b'x', label, genesis)
        # V3: the chain up to the end of the most recently stored batch is valid
        if E:
            rec.hit('V3.chain_validated')
            k, rule = R.validate_chain(_buf(hdrs), E, MAXT, genesis)
            if k is not None:
                rec.violation(f'C07/V3/stored-chain-invalid/{rule}', f'after {label}: stored chain [0,{E}) is invalid at height {k} (rule {rule})',
                              {'E': E, 'k': k, 'ops': kinds[-6:]})
                break
    rec.case(['connect', case['ck'], kinds], nontrivial=any(k not in ('extend',) for k in kinds),
             sample={'family': 'connect', 'checkpointed': case['ck'], 'ops': kinds, 'final_len': len(hdrs), 'E': E})


async def _fam_replay(rec, case):
    """(added after seeded break C07-I) connect() never truncates, so after a valid fork that ends below the stored length the headers
    of the replaced branch stay stored above the fork's end.  A server that sends those replaced headers AGAIN at their old heights
    (alone from the fork's end on, behind the stored tip of the fork, followed by a header mined on top of them) supplies a batch whose
    first such header does not link to what is stored below it: however familiar the bytes are, nothing from it on may be counted or
    stored.  `top` is the harness's own record of the last header connected at every height, `J` the end of the valid chain."""
    r = random.Random(case['seed'])
    chain, genesis = _S['chain'], _S['genesis']
    hdrs = _S['Sim'](':memory:')
    await hdrs.open()
    L = r.choice([12, 30, 75, 140])
    if await _connect_op(rec, hdrs, 0, b''.join(chain[:L]), 'base', genesis) != L:
        return
    top = list(chain[:L])
    J = E = L
    replays = ['at-fork-end', 'behind-fork-tip', 'then-header-on-top']
    todo = list(replays)
    r.shuffle(todo)
    todo += [r.choice(replays + ['continue-fork', 'continue-fork', 'shorter-fork', 'reconnect']) for _ in range(r.randrange(2, 7))]
    kinds = []
    CLS = 'replaced-branch-replayed-after-shorter-fork'
    while todo and not rec.out_of_time():
        op = todo.pop(0)
        if J >= len(top) and op != 'shorter-fork':
            todo.insert(0, op)          # nothing of a replaced branch is stored (any more): make a shorter fork first
            op = 'shorter-fork'
        kinds.append(op)
        model = b''.join(top)
        if op == 'shorter-fork':
            f = r.randrange(max(1, J - 12), J)
            if len(top) - f < 2:
                f -= 1
            m = r.randrange(1, min(len(top) - f, 9))
            branch = build_chain(r, m, chain=top[:J], fork_at=f)[f:]
            start, added = f, await _connect_op(rec, hdrs, f, b''.join(branch), op, genesis)
            if added != m:
                break
            rec.hit('op.replay_shorter_fork')
            top[f:f + m] = branch
            J = f + m
        elif op in ('continue-fork', 'reconnect'):
            start = J if op == 'continue-fork' else r.randrange(max(1, J - 6), J)
            batch = build_chain(r, r.choice([1, 2, 3]), chain=top[:J], fork_at=J)[J:] if op == 'continue-fork' else top[start:J]
            added = await _connect_op(rec, hdrs, start, b''.join(batch), op + '-with-replaced-branch-stored-above', genesis)
            if added != len(batch):
                break
            top[start:start + len(batch)] = batch
            J = start + len(batch)
        else:
            j = 0 if op == 'at-fork-end' else r.randrange(1, min(J - 1, 4) + 1) if op == 'behind-fork-tip' else min(J - 1, r.choice([0, 0, 1, 2]))
            n = r.randrange(1, len(top) - J + 1)
            batch = top[J - j:J + n]
            if op == 'then-header-on-top':
                # mined to be valid on top of the replaced branch (bits and proof of work follow from ITS last two headers)
                batch = top[J - j:] + build_chain(r, r.choice([1, 2]), chain=top, fork_at=len(top))[len(top):]
            start = J - j
            k, rule = R.first_invalid(model, start, b''.join(batch), MAXT, genesis)
            if (k, rule) != (j, 'link'):
                raise RuntimeError(f'harness: replayed batch expected to stop linking at index {j}, reference says {k} {rule}')
            rec.hit('op.replay_replaced_tail')
            rec.hit({'at-fork-end': 'op.replay_from_fork_end', 'behind-fork-tip': 'op.replay_behind_fork_tip', 'then-header-on-top': 'op.replay_then_header_on_top'}[op])
            added = await _connect_op(rec, hdrs, start, b''.join(batch),
                                      f'replaced branch [{J},{len(top)}) replayed {op} after a fork that ended at {J}: batch of {len(batch)} at {start}',
                                      genesis, cls=CLS)
        if added:
            E = start + added
        if _buf(hdrs) != b''.join(top):
            break       # a violation was reported by the monitor above; the model no longer describes what is stored
        rec.hit('V3.chain_validated')
        k, rule = R.validate_chain(_buf(hdrs), E, MAXT, genesis)
        if k is not None:
            rec.violation(f'C07/V3/stored-chain-invalid/{rule}/{CLS}', f'after {op}: stored chain [0,{E}) up to the end of the most recently '
                          f'connected batch is invalid at height {k} (rule {rule}); valid chain ends at {J}, stored length {len(hdrs)}',
                          {'E': E, 'k': k, 'J': J, 'ops': kinds[-6:]})
            break
    rec.case(['replay', L, kinds], nontrivial=True, sample={'family': 'replay', 'ops': kinds, 'valid_end': J, 'stored_len': len(hdrs)})


async def _fam_nearlink(rec, case):
    """a header that is valid in every respect (retarget bits, proof of work mined for it) except that ONE BIT of its previous-block hash is
    off, for each of the 32 bytes of that field in turn: the link rule compares the whole hash (own mutant C07-8 compared a part of it and
    was only met by luck through the random alterations of the connect family, whose altered headers rarely keep their proof of work)."""
    r = random.Random(case['seed'])
    chain, genesis = _S['chain'], _S['genesis']
    # cheap to mine: the height with the easiest target among a few candidates
    h, target = max(((x, R.next_target(MAXT, R.unpack(chain[x - 2]), R.unpack(chain[x - 1]))) for x in r.sample(range(2, 600), 8)), key=lambda t: t[1])
    hd = _S['Sim'](':memory:')
    await hd.open()
    if await hd.connect(0, b''.join(chain[:h])) != h:
        raise RuntimeError('harness: prefix of the base chain rejected')
    hdr = R.unpack(chain[h])
    for byte in range(32):
        if rec.out_of_time():
            break
        prev = bytearray(hdr['prev'])
        prev[byte] ^= 1 << r.randrange(8)
        raw = R.mine(hdr['version'], bytes(prev), r.randbytes(32), hdr['claimtrie'], hdr['timestamp'], hdr['bits'], min(target, R.compact_to_target(hdr['bits'])),
                     start_nonce=r.getrandbits(30))
        batch = raw + (b''.join(chain[h + 1:h + 3]) if byte % 4 == 3 else b'')
        rec.hit('V2.link_one_bit_off')
        if await _connect_op(rec, hd, h, batch, f'valid-except-one-bit-of-the-previous-hash (byte {byte} of the field)', genesis, cls='previous-hash-one-bit-off') != 0:
            break
    rec.case(['nearlink', h], sample={'family': 'nearlink', 'height': h, 'target': hex(target)[:20] + '..'})


async def _fam_pow_sliver(rec, case):
    """a header whose bits are exactly right and whose PoW hash lies BETWEEN the target decoded from those bits (what consensus
    compares with) and the full-precision retarget value (what the library compares with): it does not meet its target."""
    r = random.Random(case['seed'])
    chain, genesis = _S['chain'], _S['genesis']
    # pick a position whose next target loses the most precision in the compact form
    best = None
    for h in range(3, 900):
        prev, pp = R.unpack(chain[h - 1]), R.unpack(chain[h - 2])
        full = R.next_target(MAXT, pp, prev)
        comp = R.compact_to_target(R.target_to_compact(full))
        if full >= MAXT or full == comp:
            continue
        frac = (full - comp) / full * (full / 2 ** 256)
        if best is None or frac > best[0]:
            best = (frac, h, full, comp)
    if best is None:
        rec.log('pow_sliver.no_position_with_truncation')
        return
    frac, h, full, comp = best
    tries = int(min(3.0 / frac, 600_000 if case.get('quick', True) else 4_000_000))
    hdr = R.unpack(chain[h])
    try:
        raw = R.mine(hdr['version'], hdr['prev'], r.randbytes(32), hdr['claimtrie'], hdr['timestamp'], hdr['bits'], full, above=comp,
                     start_nonce=r.getrandbits(30), max_tries=tries)
    except RuntimeError:
        rec.log('pow_sliver.not_mined_within_budget')
        return
    hd = _S['Sim'](':memory:')
    await hd.open()
    added = await hd.connect(0, b''.join(chain[:h]))
    if added != h:
        raise RuntimeError('harness: prefix of the base chain rejected')
    rec.hit('pow_sliver.mined')
    await _connect_op(rec, hd, h, raw, 'pow-in-the-sliver-between-compact-and-full-precision-target', genesis)
    rec.case(['pow_sliver', h], sample={'family': 'pow_sliver', 'height': h, 'full_target': hex(full)[:24] + '..', 'compact_decoded': hex(comp)[:24] + '..',
                                          'tries_budget': tries})


async def _fam_mainnet(rec, case):
    Main = _S['Main']
    data = _S['mainnet']
    h = Main(':memory:')
    await h.open()
    added = await h.connect(0, data)
    if added != 20:
        rec.violation('C07/V1/mainnet-headers-rejected', f'the 20 real main-net headers were not all accepted (added={added})', {})
        return
    rec.hit('mainnet.accepted')
    G = '9c89283ba0f3227f6c03b70216b9f665f0118d5e0fa729cedf4fb34d6a34f463'
    MT = 0xffff << 224
    n = 0
    for idx in range(20):
        for byte in range(HS):
            for bit in (0, 7):
                b = bytearray(data)
                b[idx * HS + byte] ^= 1 << bit
                b = bytes(b)
                k, rule = R.first_invalid(b'', 0, b, MT, G)
                h2 = Main(':memory:')
                await h2.open()
                added = await h2.connect(0, b)
                n += 1
                if k is None:
                    rec.log('mainnet.alteration_still_valid')
                    continue
                rec.hit('mainnet.alteration_rejected')
                stored = _buf(h2)
                if stored[k * HS:(k + 1) * HS] == b[k * HS:(k + 1) * HS] and len(stored) >= (k + 1) * HS:
                    rec.violation(f'C07/V2/stored-at-or-beyond-first-invalid/{rule}',
                                  f'main-net header {idx} altered at byte {byte} bit {bit}: invalid header {k} was stored', {'idx': idx, 'byte': byte, 'bit': bit})
                    return
    rec.case(['mainnet'], sample={'family': 'mainnet', 'alterations': n})


async def _fam_checkpoint(rec, case):
    r = random.Random(case['seed'])
    Ck = _S['SimCk']
    data = _S['bytes']

    def serve(chunk):
        c = zlib.compressobj(wbits=-15)
        return {'base64': base64.b64encode(c.compress(chunk) + c.flush()).decode()}
    for mode in ['genuine', 'one-byte', 'prefix-only', 'uncheckpointed', 'overlong-genuine-extras', 'overlong-junk-extras']:
        h = Ck(':memory:')
        await h.open()
        pre, pre_missing = _buf(h), set(h.known_missing_checkpointed_chunks)
        if 0 not in pre_missing:
            raise RuntimeError('harness expectation: fresh checkpointed headers flag chunk 0 missing')
        chunk = data[:1000 * HS]
        height = r.randrange(1000)
        if mode == 'one-byte':
            b = bytearray(chunk)
            b[r.randrange(len(b))] ^= 1 << r.randrange(8)
            chunk = bytes(b)
        elif mode == 'prefix-only':
            chunk = chunk[:r.randrange(1, 999) * HS]
        elif mode == 'uncheckpointed':
            height = r.randrange(1000, 1085)
            chunk = data[1000 * HS:]
        elif mode == 'overlong-genuine-extras':
            chunk = data[:(1000 + r.choice([1, 5, 60])) * HS]         # the genuine chunk followed by the genuine next headers
        elif mode == 'overlong-junk-extras':
            extra = bytearray(data[1000 * HS:(1000 + r.choice([1, 3])) * HS])
            extra[r.randrange(len(extra))] ^= 1 << r.randrange(8)
            chunk = data[:1000 * HS] + r.choice([bytes(extra), r.randbytes(HS), r.randbytes(50)])

        async def getter(start, _c=chunk):
            return serve(_c)
        h.chunk_getter = getter
        exc = None
        try:
            await h.fetch_chunk(height)
        except Exception as e:  # noqa
            exc = e
        post, post_missing = _buf(h), set(h.known_missing_checkpointed_chunks)
        if mode == 'genuine':
            rec.hit('V4.genuine')
            if post[:1000 * HS] != data[:1000 * HS] or 0 in post_missing or exc:
                rec.violation('C07/V4/genuine-checkpoint-chunk-refused', f'genuine chunk not stored (exc={exc!r})', {'height': height})
        elif mode.startswith('overlong'):
            # the reply as a whole does not hash to the checkpoint.  Refusing it (what the code does) is right; keeping the first 1000 and
            # dropping the rest would be too; storing the extra headers - which nothing validated - is not
            rec.hit('V4.overlong_reply')
            if post[1000 * HS:] != pre[1000 * HS:] or len(h) > 1000:
                rec.violation(f'C07/V4/unvalidated-headers-stored-behind-checkpointed-chunk/{mode}',
                              f'a {len(chunk) // HS}-header reply for the checkpointed chunk was accepted: len(headers) is now {len(h)}, '
                              f'{(len(post) - 1000 * HS) // HS} header(s) stored behind the chunk without any check', {'mode': mode, 'len': len(h)})
            rec.log('V4.overlong_reply_' + ('refused' if post == pre else 'first_1000_kept'))
        else:
            rec.hit('V4.mismatch' if mode != 'uncheckpointed' else 'V4.uncheckpointed')
            if post != pre or post_missing != pre_missing:
                rec.violation(f'C07/V4/non-matching-chunk-stored/{mode}', f'chunk ({mode}) not hashing to the checkpoint changed stored bytes '
                              f'or the missing set', {'mode': mode, 'height': height, 'missing_after': sorted(post_missing)})
        rec.case(['checkpoint', mode, height // 100], sample={'family': 'checkpoint', 'mode': mode, 'height': height, 'raised': repr(exc)})


def _multi():
    """built once per shard on first use: NCK checkpointed chunks of linked headers (not mined, see ASSUMPTIONS), 3 mined headers that
    are valid on top of them, the class with the generated checkpoints and the honest server's replies."""
    if 'multi' in _S:
        return _S['multi']
    r = random.Random(_S['multi_seed'])
    bits = R.target_to_compact(1 << 247)       # with 143..157 s between blocks the retarget rule leaves the target where it is
    truth, prev, ts = [], b'\x00' * 32, 1_500_000_000
    for _ in range(NCK * 1000):
        ts += r.randrange(143, 158)
        truth.append(R.pack(1, prev, r.randbytes(32), r.randbytes(32), ts, bits, r.getrandbits(32)))
        prev = R.header_hash(truth[-1])
    tail = build_chain(r, 3, chain=truth, fork_at=len(truth))[len(truth):]
    data = b''.join(truth)
    k, rule = R.first_invalid(data, len(truth), b''.join(tail), MAXT, None)
    assert k is None, ('reference rejects the headers mined on top of the checkpointed region', k, rule)
    chunks = [data[c * 1000 * HS:(c + 1) * 1000 * HS] for c in range(NCK)]

    class SimHeadersMulti(_S['Sim']):
        genesis_hash = R.header_hash_hex(truth[0]).encode()
        checkpoints = {c * 1000: R.sha256d(chunks[c])[::-1].hex() for c in range(NCK)}

    def serve(chunk):
        c = zlib.compressobj(wbits=-15)
        return {'base64': base64.b64encode(c.compress(chunk) + c.flush()).decode()}
    _S['multi'] = {'cls': SimHeadersMulti, 'truth': truth, 'data': data, 'chunks': chunks, 'tail': b''.join(tail),
                   'replies': [serve(c) for c in chunks] + [serve(b'')]}
    return _S['multi']


def _chunk_class(c, fetched, cut):
    """input class of checkpointed chunk c, from what the harness itself did to the file"""
    if c not in fetched:
        return 'never-downloaded-hole'
    if cut is not None and cut < (c + 1) * 1000 * HS:
        return 'chunk-cut-by-crash' if cut > c * 1000 * HS else 'chunk-above-the-crash-cut'
    return 'downloaded-chunk'


def _judge_chunks(rec, r, M, h, label, fetched, cut, shape, witness):
    """V4 at a restart: a chunk the object regards as held (not flagged missing, has_header() true) IS the checkpointed chunk;
    W2: a downloaded chunk that no crash touched is still held."""
    buf, missing = _buf(h), set(h.known_missing_checkpointed_chunks)
    ok = True
    for c in range(NCK):
        seg = buf[c * 1000 * HS:(c + 1) * 1000 * HS]
        cls = _chunk_class(c, fetched, cut)
        if c * 1000 not in missing or h.has_header(c * 1000 + r.randrange(1000)):
            rec.hit('V4.restart_held_chunk_compared')
            if seg != M['chunks'][c]:
                d = next((i for i in range(min(len(seg), 1000 * HS)) if seg[i] != M['chunks'][c][i]), len(seg)) // HS
                rec.violation(f'C07/V4/chunk-regarded-as-held-at-restart-is-not-the-checkpointed-one/{cls}',
                              f'{label}: chunk {c * 1000} is not flagged missing (has_header() answers True, nothing will be fetched) but what is stored there '
                              f'does not hash to its checkpoint: first differing header {c * 1000 + d} is '
                              f'{"all zero" if not any(seg[d * HS:(d + 1) * HS]) else "not the checkpointed one"}'
                              f'; flagged missing: {sorted(missing)}', dict(witness, chunk=c * 1000, missing=sorted(missing)))
                ok = False
        elif cls == 'downloaded-chunk' and (cut is None or cut % HS == 0 or len(fetched) == NCK):
            rec.violation(f'C07/W2/downloaded-chunk-flagged-missing-at-restart/{shape}',
                          f'{label}: chunk {c * 1000} was downloaded, matched its checkpoint and lies wholly below any cut, but is flagged missing',
                          dict(witness, chunk=c * 1000, missing=sorted(missing)))
            ok = False
        elif cls == 'downloaded-chunk':
            # a cut inside a header makes open() run the link-based repair from genesis, which stops at the first hole: not judged
            rec.log('chunks.cut_mid_header_dropped_downloaded_chunks_below_the_cut')
    return ok


async def _fam_chunks(rec, case):
    """(added after seeded break C07-J) several checkpointed chunks, only some of them on disk at a restart: the background download goes
    from the tip down, on-demand look-ups fetch single chunks below it (holes stay above a held chunk), a crash may cut the file inside the
    checkpointed region (open() zero-fills up to the last checkpoint).  At the restart every chunk that is regarded as held must be the
    checkpointed one, the headers then served (honest server attached) are the true ones, a valid batch on top is stored whole, and a
    second restart holds everything that was fetched."""
    r = random.Random(case['seed'])
    M = _multi()
    Multi, truth, top = M['cls'], M['truth'], NCK * 1000
    path = os.path.join(_S['tmp'], 'chunks-%d' % case['seed'])
    shapes = []
    for hi in range(case['histories']):
        if rec.out_of_time():
            break
        # ---- what the first run downloads and where a crash cuts the file afterwards
        if hi == 0:
            bg = r.randrange(0, NCK - 1)                                  # a look-up below the background frontier, hole(s) between
            lookups = [r.randrange(0, NCK - bg - 1) * 1000 + r.randrange(1000)]
            cut = None
        elif hi == 1:
            bg, lookups = NCK, []                                         # everything downloaded, cut inside a chunk above a complete one
            cut = r.randrange(1000, top) * HS + r.choice([0, 0, r.randrange(1, HS)])
        else:
            bg = r.choice([0, 1, 1, 2, NCK - 1, NCK])
            lookups = [r.randrange(top) for _ in range(r.choice([0, 1, 1, 2, 3]))]
            cut = None
            if r.random() < 0.5:
                cut = r.choice([r.randrange(1, top) * HS, r.randrange(1, top) * HS, r.randrange(0, top) * HS + r.randrange(1, HS),
                                r.randrange(1, NCK) * 1000 * HS + r.choice([-1, 0, 1]), r.randrange(0, HS + 1)])
        asked = []

        async def getter(start):
            asked.append(start)
            await asyncio.sleep(0)
            return M['replies'][min(start // 1000, NCK)]
        if os.path.exists(path):
            os.unlink(path)
        wit = {'background_chunks_from_tip': bg, 'lookups': lookups, 'cut_byte': cut}
        # ---- first run
        h = Multi(path)
        await h.open()
        try:
            if not _judge_chunks(rec, r, M, h, 'fresh file', set(), None, 'fresh', wit):
                return
            h.chunk_getter = getter
            for c in range(NCK - 1, NCK - 1 - bg, -1):
                await h.ensure_chunk_at(c * 1000)
            for x in lookups:
                if await h.get_raw_header(x) != truth[x]:
                    rec.violation('C07/V4/served-header-is-not-the-checkpointed-one/first-run', f'first run: header {x} served after the on-demand fetch '
                                  f'is not the checkpointed one', dict(wit, height=x))
                    return
            stored = _buf(h)
        finally:
            await h.close()
        fetched = {s // 1000 for s in asked}
        with open(path, 'rb') as f_:
            disk = f_.read()
        if disk != stored or any(disk[c * 1000 * HS:(c + 1) * 1000 * HS] != M['chunks'][c] for c in fetched):
            rec.violation('C07/W/persisted-file-differs/partly-downloaded-checkpointed-region',
                          f'first run fetched chunks {sorted(fetched)}: after close() the file ({len(disk)} bytes) is not the buffer / does not hold them', wit)
            return
        if cut is not None:
            _write_file(path, disk[:cut])
        good = {c for c in fetched if _chunk_class(c, fetched, cut) == 'downloaded-chunk'}
        if any(a in good and b not in good for a in range(NCK) for b in range(a + 1, NCK)):
            rec.hit('V4.restart_hole_above_held_chunk')
        if cut is not None and cut < top * HS:
            rec.hit('V4.restart_cut_inside_checkpointed_region')
            if cut % HS:
                rec.hit('V4.restart_cut_mid_header')
        shape = ('partly-downloaded' if len(fetched) < NCK else 'complete') + ('' if cut is None else '+cut-at-header-boundary' if cut % HS == 0 else '+cut-mid-header')
        shapes.append(shape)
        label = (f'restart on a file where the first run fetched chunks {sorted(c * 1000 for c in fetched)}' +
                 (f', then cut at byte {cut} (header {cut // HS})' if cut is not None else ''))
        # ---- restart
        asked.clear()
        h = Multi(path)
        await h.open()
        connected = False
        try:
            rec.hit('V4.restart_checked')
            if not _judge_chunks(rec, r, M, h, label, fetched, cut, shape, wit):
                return
            h.chunk_getter = getter
            if hi % 2 == 0 and len(h) == top:
                # the chain pinned down by the checkpoints is extended by a fully valid batch (its predecessors are read from the top chunk)
                added, exc = None, None
                try:
                    added = await h.connect(top, M['tail'])
                except Exception as e:  # noqa  judged below
                    exc = e
                rec.hit('V4.restart_batch_on_top_connected')
                if added != 3 or _buf(h)[top * HS:] != M['tail']:
                    rec.violation(f'C07/V1/valid-batch-above-checkpointed-region-not-stored-whole/top-chunk-{_chunk_class(NCK - 1, fetched, cut)}',
                                  f'{label}: 3 valid headers linking to the last checkpointed header returned added={added}'
                                  f'{" raised " + type(exc).__name__ if exc else ""}', dict(wit, added=added, exc=repr(exc)))
                    return
                connected = True
            for x in sorted({c * 1000 + o for c in range(NCK) for o in (0, 999)} | {r.randrange(top) for _ in range(6)}):
                try:
                    raw = await h.get_raw_header(x)
                except Exception as e:  # noqa  nothing served: logged
                    rec.log('chunks.get_raw_header_raised.' + type(e).__name__)
                    continue
                rec.hit('V4.restart_served_checked')
                if raw != truth[x]:
                    rec.violation(f'C07/V4/served-header-is-not-the-checkpointed-one/{_chunk_class(x // 1000, fetched, cut)}',
                                  f'{label}: with an honest server attached, get_raw_header({x}) serves '
                                  f'{"an all-zero header" if not any(raw) else "a header that is not the checkpointed one"} '
                                  f'(server was asked for chunks {sorted(asked)})', dict(wit, height=x, asked=sorted(asked)))
                    return
            stored = _buf(h)
        finally:
            await h.close()
        # ---- second restart: everything fetched by now (and the batch on top) is held
        fetched2 = good | {s // 1000 for s in asked if s < top}
        label += ', headers served, second restart'
        h = Multi(path)
        await h.open()
        rec.hit('V4.second_restart_checked')
        if not _judge_chunks(rec, r, M, h, label, fetched2, None, 'second-restart', wit):
            return
        if len(fetched2) == NCK and not _judge_reopen(rec, label, 'chunks/second-restart', len(h), _buf(h), set(h.known_missing_checkpointed_chunks), stored,
                                                     top + (3 if connected else 0), wit):
            return
    if os.path.exists(path):
        os.unlink(path)
    rec.case(['chunks', shapes], nontrivial=True, sample={'family': 'chunks', 'histories': shapes})


async def _fam_retarget(rec, case):
    from lbry.wallet.util import ArithUint256
    r = random.Random(case['seed'])
    h = _S['Sim'](':memory:')
    mt_choices = [MAXT, 0xffff << 224]
    for i in range(case['count']):
        mant = r.choice([r.randrange(0x008000, 0x800000), 0x7fffff, 0x008000, 0x00ffff, 0x010000, r.randrange(1, 0x800000)])
        exp = r.randrange(4, 33)
        bits = (exp << 24) | mant
        t0 = r.randrange(1, 1 << 31)
        dt = r.choice([0, 1, 5, 6, 7, 8, 9, 100, 149, 150, 151, 157, 158, 159, 700, 749, 750, 751, 758, 10 ** 6, -1, -7, -8, -9, -1000,
                       r.randrange(-2000, 3000)])
        prev = {'timestamp': t0, 'bits': bits}
        cur = {'timestamp': max(0, t0 + dt), 'bits': bits}
        mt = r.choice(mt_choices)
        got = h.get_next_block_target(ArithUint256(mt), prev, cur)
        want = R.next_target(mt, prev, cur)
        rec.hit('V5.retarget_checked')
        actual = cur['timestamp'] - prev['timestamp']
        if actual <= 6:
            rec.hit('V5.clamp_low')
        if actual >= 750:
            rec.hit('V5.clamp_high')
        if got.value != want and got.compact == R.target_to_compact(want):
            # float division: the value differs far below the 23-bit mantissa; only the PoW comparison could see it
            # (a 2^-50 sliver) and consensus compares against the compact-decoded target anyway: logged, not judged
            rec.log('V5.target_value_differs_below_mantissa_float_division')
        if got.compact != R.target_to_compact(want):
            if True:
                rec.violation('C07/V5/retarget-bits-differ-from-exact-integer-rule',
                              f'bits={bits:#x} timespan={actual}: next bits {got.compact:#x} != exact {R.target_to_compact(want):#x}',
                              {'bits': bits, 'timespan': actual, 'got': got.compact, 'want': R.target_to_compact(want)})
            break
    rec.case(['retarget', case['seed']], sample={'family': 'retarget', 'count': case['count']})


def _write_file(path, data):
    with open(path, 'wb') as f:
        f.write(data)


async def _reopen(path):
    h = _S['SimCk'](path)
    await h.open()
    n = len(h)
    buf = _buf(h)
    missing = set(h.known_missing_checkpointed_chunks)
    return n, buf, missing


def _judge_reopen(rec, label, key_suffix, n, buf, missing, original, keep_at_least, witness):
    """W1: every loaded header is the originally stored one (or inside a chunk flagged missing);
       W2: at least `keep_at_least` original headers are still present."""
    ok = True
    for hgt in range(n):
        if buf[hgt * HS:(hgt + 1) * HS] != original[hgt * HS:(hgt + 1) * HS]:
            if (hgt // 1000) * 1000 in missing and hgt < 1000:
                continue
            rec.violation(f'C07/W1/loaded-header-differs-from-stored/{key_suffix}',
                          f'{label}: after reopening, header {hgt} of {n} loaded headers is not the header that was stored',
                          dict(witness, height=hgt, loaded=n))
            ok = False
            break
    if n < keep_at_least:
        rec.violation(f'C07/W2/dropped-more-than-allowed/{key_suffix}',
                      f'{label}: reopened chain has {n} headers, at least {keep_at_least} undamaged ones should remain', dict(witness, loaded=n))
        ok = False
    return ok


async def _fam_sessions(rec, case):
    """open / connect ... / close repeated on ONE real file: what close() leaves on disk is what was stored, and what the next
    open() loads is a valid prefix of it - also when a later session rewrote headers BELOW the size the file had when it was opened
    (a fork at a lower height), extended the chain, or did both."""
    r = random.Random(case['seed'])
    ck = case['ck']
    cls = _S['SimCk'] if ck else _S['Sim']
    chain = _S['chain']
    path = os.path.join(_S['tmp'], 'sess-%d' % case['seed'])
    if os.path.exists(path):
        os.unlink(path)
    floor = 1000 if ck else 1
    cur = list(chain[:r.choice([1005, 1040, 1200]) if ck else r.choice([30, 200, 1040])])
    stored = disk = None
    kinds = []
    nsess = r.randrange(2, 5)
    for sess in range(nsess + 1):
        h = cls(path)
        await h.open()
        try:
            n, loaded = len(h), _buf(h)
            if stored is not None:
                rec.hit('W.session_reopened')
                # first height (above the checkpointed chunk) where the stored bytes themselves stop linking: a stale tail after a
                # shorter fork is such a seam, and everything from one before it may be dropped
                # (judged on the FILE: close() rewrites in place without truncating, so after a start-up repair shortened the chain the
                # file keeps the old bytes behind the stored chain; the next start-up sees them as a damaged header right behind the tip
                # and drops the tip with them - within "from one before the first damaged header onwards", logged below)
                nd = len(disk) // HS
                seam = next((k for k in range(max(floor, 1), nd) if disk[k * HS + 4:k * HS + 36] != R.header_hash(disk[(k - 1) * HS:k * HS])), None)
                keep = nd if seam is None else seam - 1
                if n < len(stored) // HS and seam is not None and seam >= len(stored) // HS:
                    rec.log('W.clean_restart_dropped_the_tip_because_the_file_keeps_old_bytes_behind_the_chain')
                if not _judge_reopen(rec, f'session {sess} after {kinds}', 'sessions/' + ('fork-below-size-at-open' if 'fork' in kinds[-1] else kinds[-1]),
                                     n, loaded, set(h.known_missing_checkpointed_chunks), stored, keep, {'sessions': kinds, 'checkpointed': ck}):
                    return
                cur = [loaded[i * HS:(i + 1) * HS] for i in range(n)]
            if sess == nsess:
                break
            if stored is None:
                ops = ['first']
                added = await h.connect(0, b''.join(cur))
                if added != len(cur):
                    raise RuntimeError('harness: base chain refused')
            else:
                ops = r.choice([['fork'], ['fork', 'extend'], ['extend'], ['extend', 'fork'], ['fork', 'fork'], []])
                for op in ops:
                    L = len(cur)
                    if op == 'extend':
                        nxt = build_chain(r, r.choice([1, 3, 40]), chain=cur, fork_at=L)[L:]
                        if await h.connect(L, b''.join(nxt)) == len(nxt):
                            cur = cur + list(nxt)
                    elif L > floor + 1:
                        f = r.randrange(max(floor, L - 60), L)
                        branch = build_chain(r, r.choice([1, 2, L - f, L - f + 3, 10]), chain=cur, fork_at=f)[f:]
                        if await h.connect(f, b''.join(branch)) == len(branch):
                            cur = cur[:f] + list(branch)
                            rec.hit('W.session_fork_below_size_at_open')
            kinds.append('+'.join(ops) or 'nothing')
            stored = _buf(h)
        finally:
            await h.close()
        with open(path, 'rb') as f_:
            disk = f_.read()
        rec.hit('W.session_closed')
        if disk[:len(stored)] != stored:
            d = next(i for i in range(len(stored)) if i >= len(disk) or disk[i] != stored[i])
            rec.violation('C07/W/persisted-file-differs/' + ('after-fork-below-size-at-open' if 'fork' in kinds[-1] else 'after-' + kinds[-1]),
                          f'session {sess} ({kinds[-1]}): after close() the file differs from the {len(stored) // HS} stored headers at byte {d} '
                          f'(header {d // HS}); file has {len(disk)} bytes', {'sessions': kinds, 'checkpointed': ck, 'header': d // HS})
            return
        if len(disk) > len(stored):
            rec.log('W.file_longer_than_stored_chain')
    rec.case(['sessions', ck, kinds], nontrivial=True, sample={'family': 'sessions', 'checkpointed': ck, 'sessions': kinds, 'final_len': len(cur)})


async def _fam_cut(rec, case):
    r = random.Random(case['seed'])
    tail = case['tail']
    L = 1000 + tail
    original = _S['bytes'][:L * HS]
    path = os.path.join(_S['tmp'], f'cut-{tail}')
    if case.get('real'):
        # persist through the real connect()/close() once, to confirm the file equals the stored bytes
        if os.path.exists(path):
            os.unlink(path)
        h = _S['SimCk'](path)
        await h.open()
        added = await h.connect(0, original)
        await h.close()
        with open(path, 'rb') as f:
            disk = f.read()
        rec.hit('W.real_persist')
        if added != L or disk != original:
            rec.violation('C07/W/persisted-file-differs', f'close() wrote {len(disk)} bytes, expected the {L} connected headers (added={added})', {'tail': tail})
            return
    lo = 997 * HS
    if case['offsets'] == 'all':
        offsets = list(range(lo, L * HS))
    else:
        offsets = sorted(set([lo, L * HS - 1, L * HS - HS, L * HS - HS + 1, 1000 * HS, 1000 * HS + 1, 1000 * HS - 1] +
                             [r.randrange(lo, L * HS) for _ in range(40)] + [r.randrange(0, lo) for _ in range(6)] + [0, 1, HS, 500 * HS + 60]))
    nchecked = 0
    for b in offsets:
        if rec.out_of_time():
            break
        _write_file(path, original[:b])
        n, buf, missing = await _reopen(path)
        rec.hit('W.cut_checked')
        if b % HS:
            rec.hit('W.cut_mid_header')
        nchecked += 1
        keep = max(0, b // HS - 1)
        cls = 'tail' if b >= 1000 * HS else 'checkpointed-chunk'
        if not _judge_reopen(rec, f'file of {L} headers cut at byte {b}', f'cut/{cls}', n, buf, missing, original, keep,
                             {'tail': tail, 'cut_byte': b, 'cut_header': b // HS, 'residue': (tail - 1) % 36}):
            break
    if case['offsets'] == 'all':
        rec.exhaustive[f'cut_offsets_tail_{tail}'] = nchecked == len(offsets)
    rec.case(['cut', tail, case['offsets']], sample={'family': 'cut', 'tail': tail, 'offsets_checked': nchecked})
    os.unlink(path)


async def _fam_overwrite(rec, case):
    r = random.Random(case['seed'])
    tail, pos, kind = case['tail'], case['pos'], case['kind']
    L = 1000 + tail
    tip = L - 1
    original = _S['bytes'][:L * HS]
    if pos.startswith('depth:'):
        d = tip - int(pos.split(':')[1])
        rec.hit('W.damage.deep_below_tip')
    else:
        d = {'first': 1000, 'interior': 1000 + tail // 2, 'tip-1': tip - 1, 'tip': tip}[pos]
    if d < 1000:
        return
    b = bytearray(original)
    o = d * HS
    if kind == 'random':
        b[o:o + HS] = r.randbytes(HS)
    elif kind == 'zero':
        b[o:o + HS] = bytes(HS)
    elif kind == 'foreign':
        # a header that is valid on another branch: the header of a different chain position
        b[o:o + HS] = _S['chain'][r.randrange(1, 999)]
    elif kind == 'partial-nonlink':
        p = o + r.choice([0, 36, 68, 100, 104, 108]) + r.randrange(4)
        b[p] ^= 1 << r.randrange(8)
    elif kind == 'partial-link':
        p = o + 4 + r.randrange(32)
        b[p] ^= 1 << r.randrange(8)
    else:
        a = r.randrange(HS)
        e = r.randrange(a + 1, HS + 1)
        b[o + a:o + e] = r.randbytes(e - a)
    damaged = bytes(b)
    if damaged == original:
        return
    path = os.path.join(_S['tmp'], f'ow-{tail}-{pos}-{kind}')
    _write_file(path, damaged)
    n, buf, missing = await _reopen(path)
    os.unlink(path)
    rec.hit('W.overwrite_checked')
    rec.hit('W.damage.' + ('tip' if d == tip else 'interior'))
    residue = (tip - 1000) % 36
    where = ('tip-is-first-above-checkpoint' if d == 1000 else 'tip') if d == tip else ('first-above-checkpoint' if d == 1000 else 'interior')
    link_damaged = damaged[o + 4:o + 36] != original[o + 4:o + 36]
    suffix = f'overwrite/{where}/' + ('link-field-damaged' if link_damaged else 'non-link-fields-only')
    if link_damaged and residue == 0 and d >= tip - 1 and d != 1000:
        suffix += '/tip-unchecked-when-tail-multiple-of-36'
    _judge_reopen(rec, f'{L} headers, header {d} ({pos}) damaged ({kind})', suffix, n, buf, missing, original, max(0, d - 1),
                  {'tail': tail, 'damaged_height': d, 'tip': tip, 'kind': kind, 'residue_mod_36': residue})
    rec.case(['overwrite', tail, pos, kind], sample={'family': 'overwrite', 'tail': tail, 'pos': pos, 'kind': kind, 'loaded': n})

"""C01 — Blob integrity.  [H+M] real BlobFile / BlobBuffer + real HashBlobWriter(s) driven by a
seeded chunk scheduler; monitor = instrumented `verified` Event, `_write_blob` hook, completion
callback counter, disk inspection after every step; oracle = independent writer model (hashlib)."""
import asyncio
import hashlib
import os
import random
import shutil
import tempfile

from vlib import boot

ID = 'C01'
LEVEL = 'exploration'
RULE = ('case = (blob kind file/buffer, content length class, how the length was declared, 1..3 writers each of a kind '
        '[correct, bit-flip, truncated-silent, truncated-closed, over-long-later, over-long-straddling, unrelated, '
        'late-correct], a chunking per writer, a seeded interleaving of chunk writes with 0..3 loop iterations between '
        'steps). distinct = hash(kinds, chunking classes, length class, declared-length mode, schedule signature); '
        'non-trivial = >=2 writers or at least one misbehaving writer or a wrong declared length')
ASSUMPTIONS = ['SHA-384 collision resistance (a writer is model-accepted iff its bytes up to a chunk boundary have the '
               'declared length and hashlib.sha384 equals the blob name)',
               'a final chunk that straddles the declared length is not a complete correct copy (the real client caps chunks)',
               'disk-write failures inside _write_blob are out of scope (not a peer behaviour)']
REQUIRED_HITS = ['L1.second_download_checked', 'S1.steps_checked', 'S1.bad_only_case', 'L1.checked', 'L1.multi_writer', 'S2.callback_seen',
                 'schedule.same_iteration_double_win', 'schedule.writer_reopened_by_same_peer_in_same_iteration', 'kind.flip', 'kind.trunc_closed', 'kind.overlong_straddle',
                 'kind.unrelated', 'kind.correct_then_closed', 'decl.length_only_claimed_by_peer', 'decl.second_announcement_while_a_copy_is_in_flight', 'L1.honest_retry_after_wrong_claims_checked', 'kind.overlong_later', 'decl.too_big', 'decl.zero', 'decl.unknown']
MAX = 2 * 1024 * 1024
KINDS = ['correct', 'flip', 'trunc_silent', 'trunc_closed', 'overlong_later', 'overlong_straddle', 'unrelated',
         'late_correct', 'correct_then_closed']
_TMP = {}


def plan(tier):
    return {'shards': 16, 'budget_s': 45 if tier == 'quick' else 700}


def shard_setup(rec, tier):
    _TMP['dir'] = tempfile.mkdtemp(prefix='verif-c01-')


def shard_finish(rec, tier):
    shutil.rmtree(_TMP.pop('dir', ''), ignore_errors=True)


def gen_cases(rng, tier, shard, nshards):
    n = 260 if tier == 'quick' else 5000
    small = [1, 2, 15, 16, 17, 63, 64, 100, 1000, 1448, 1449, 4096]
    big = [65536, 2 ** 20, MAX - 1, MAX]
    for i in range(n):
        L = rng.choice(big) if i % 12 == 11 else (rng.choice(small) if rng.random() < 0.7 else rng.randrange(1, 70000))
        yield {'fam': 'rand', 'seed': rng.getrandbits(48), 'L': L}
    # declared-length edge classes, each shard a few
    for decl in ['too_big', 'zero', 'negative', 'unknown', 'off_by_minus', 'off_by_plus', 'set_late', 'set_twice', 'same_wrong_twice',
                 'second_announcement_in_flight']:
        for _ in range(2 if tier == 'quick' else 20):
            yield {'fam': 'rand', 'seed': rng.getrandbits(48), 'L': rng.choice([1, 17, 1000, 5000]), 'decl': decl}
    for _ in range(6 if tier == 'quick' else 60):
        yield {'fam': 'doublewin', 'seed': rng.getrandbits(48), 'L': rng.choice([1, 16, 1000, 70000])}
    if tier == 'thorough':
        # exhaustive sub-space 1: every single-bit flip of a 64-byte blob (512), split over shards
        for bit in range(512):
            if bit % nshards == shard:
                yield {'fam': 'bitflip64', 'bit': bit}
        # exhaustive sub-space 2: all interleavings of 2 writers x 3 chunks (20 orders) x 4 yield patterns x 4 kind pairs
        idx = 0
        for order in _interleavings(3, 3):
            for ypat in range(4):
                for pair in [('correct', 'correct'), ('correct', 'flip'), ('flip', 'correct'), ('unrelated', 'correct')]:
                    if idx % nshards == shard:
                        yield {'fam': 'inter2x3', 'order': order, 'ypat': ypat, 'pair': list(pair)}
                    idx += 1
    elif shard == 0:
        for bit in (0, 7, 255, 256, 511):
            yield {'fam': 'bitflip64', 'bit': bit}
        for order in list(_interleavings(3, 3))[::4]:
            yield {'fam': 'inter2x3', 'order': order, 'ypat': 1, 'pair': ['correct', 'correct']}


def _interleavings(a, b):
    def rec_(x, y, acc):
        if x == 0 and y == 0:
            yield ''.join(acc)
            return
        if x:
            yield from rec_(x - 1, y, acc + ['0'])
        if y:
            yield from rec_(x, y - 1, acc + ['1'])
    return rec_(a, b, [])


# ---------------------------------------------------------------------------- model
class ModelWriter:
    def __init__(self, blob_hash):
        self.h = hashlib.sha384()
        self.n = 0
        self.dead = False
        self.accepted = False
        self.blob_hash = blob_hash

    def write(self, data, L):
        if self.dead or not L or L < 0:
            return
        self.h.update(data)
        self.n += len(data)
        if self.n > L:
            self.dead = True
        elif self.n == L:
            self.dead = True
            if self.h.hexdigest() == self.blob_hash:
                self.accepted = True


def chunk(r, data, style):
    if style == 'one' or len(data) <= 1:
        return [data]
    if style == 'bytes':
        return [data[i:i + 1] for i in range(len(data))]
    if style == 'mtu':
        return [data[i:i + 1448] for i in range(0, len(data), 1448)]
    if style == '64k':
        return [data[i:i + 65536] for i in range(0, len(data), 65536)]
    k = r.randrange(2, min(len(data), 24) + 1)
    cuts = sorted(r.sample(range(1, len(data)), k - 1)) if len(data) > k else list(range(1, len(data)))
    out, prev = [], 0
    for c in cuts + [len(data)]:
        out.append(data[prev:c])
        prev = c
    if r.random() < 0.2:
        out.insert(r.randrange(len(out) + 1), b'')
    return out


def build_writer_plan(r, kind, content, L_target):
    """returns (chunks, close_after) — the byte chunks this writer will deliver."""
    n = len(content)
    style = r.choice(['one', 'rand', 'rand', 'mtu', '64k'] + (['bytes'] if n <= 300 else []))
    close_after = False
    if kind in ('correct', 'late_correct'):
        chunks = chunk(r, content, style)
    elif kind == 'correct_then_closed':
        # the whole real blob, then the peer hangs up (close_handle): complete when the announced length is right, NOT a copy of the
        # announced length when that was over-stated (seeded break C01-F accepted it on the hash alone)
        chunks = chunk(r, content, style)
        close_after = True
    elif kind == 'flip':
        p = r.choice([0, n // 2, n - 1, r.randrange(n)])
        b = bytearray(content)
        b[p] ^= 1 << r.randrange(8)
        chunks = chunk(r, bytes(b), style)
    elif kind in ('trunc_silent', 'trunc_closed'):
        m = r.choice([0, n - 1, n // 2, r.randrange(n)]) if n > 1 else 0
        chunks = chunk(r, content[:m], style) if m else [b'']
        close_after = kind == 'trunc_closed'
    elif kind == 'overlong_later':
        chunks = chunk(r, content, style) + [r.randbytes(r.choice([1, 16, 1000]))]
    elif kind == 'overlong_straddle':
        extra = r.randbytes(r.choice([1, 16, 1000]))
        chunks = chunk(r, content, style)
        chunks[-1] = chunks[-1] + extra
        if chunks[-1] == extra:    # last chunk was empty: glue to previous content chunk instead
            chunks = [content + extra]
    elif kind == 'unrelated':
        chunks = chunk(r, r.randbytes(n), style)
    else:
        raise ValueError(kind)
    return chunks, close_after, style


class MonEvent(asyncio.Event):
    def __init__(self, log, name):
        super().__init__()
        self._log, self._name = log, name

    def set(self):
        self._log.append((self._name + '.set',))
        super().set()

    def clear(self):
        if self.is_set():
            self._log.append((self._name + '.clear',))
        super().clear()


def execute(rec, case):
    boot.import_lbry()
    fam = case['fam']
    r = random.Random(case.get('seed', 0))
    if fam == 'rand':
        L = case['L']
        content = r.randbytes(L)
        nw = r.choice([1, 1, 2, 2, 3])
        kinds = [r.choice(KINDS) for _ in range(nw)]
        if r.random() < 0.5 and 'correct' not in kinds and 'late_correct' not in kinds:
            kinds[r.randrange(nw)] = 'correct'
        decl = case.get('decl') or 'ctor' if r.random() < 0.5 else case.get('decl') or 'set_length'
        blobkind = r.choice(['file', 'file', 'buffer'])
        steps = None
    elif fam == 'doublewin':
        L = case['L']
        content = r.randbytes(L)
        kinds, decl, blobkind, steps = ['correct', 'correct'] + r.choice([[], ['flip'], ['trunc_silent']]), 'ctor', r.choice(['file', 'buffer']), 'doublewin'
    elif fam == 'bitflip64':
        content = bytes(range(64))
        bit = case['bit']
        kinds, decl, blobkind, steps = ['flipbit:%d' % bit], 'ctor', 'buffer' if bit % 2 else 'file', None
    elif fam == 'inter2x3':
        content = random.Random(7).randbytes(30)
        kinds, decl, blobkind, steps = list(case['pair']), 'ctor', 'file', ('order', case['order'], case['ypat'])
    else:
        raise ValueError(fam)
    loop = asyncio.new_event_loop()
    try:
        loop.run_until_complete(asyncio.wait_for(
            _run(rec, r, content, kinds, decl, blobkind, steps, case), 900))
    finally:
        try:
            loop.run_until_complete(loop.shutdown_default_executor())
        finally:
            loop.close()


async def _drain(k=3):
    for _ in range(k):
        await asyncio.sleep(0)


async def _run(rec, r, content, kinds, decl, blobkind, steps, case):
    from lbry.blob.blob_file import BlobFile, BlobBuffer
    loop = asyncio.get_running_loop()
    n = len(content)
    blob_hash = hashlib.sha384(content).hexdigest()
    events = []        # monitor log
    cb_calls = []
    write_tasks = []
    handed = []

    base = BlobFile if blobkind == 'file' else BlobBuffer

    class Mon(base):
        def _write_blob(self, blob_bytes):
            handed.append(bytes(blob_bytes))
            events.append(('write_blob', len(blob_bytes)))
            t = super()._write_blob(blob_bytes)
            write_tasks.append(t)
            return t

    def completed(b):
        cb_calls.append(b.get_is_verified())
        events.append(('callback', b.get_is_verified()))

    # ---- declared length
    ctor_len = None
    sets = []
    true_first = False          # the first announcement is the true length: a complete correct copy is n bytes, whatever is announced later
    in_flight_second = None
    if decl == 'ctor':
        ctor_len = n
    elif decl == 'set_length':
        sets = [n]
    elif decl == 'too_big':
        content = content + r.randbytes(MAX + 1 - n)      # a real 2 MiB + 1 blob
        n = len(content)
        blob_hash = hashlib.sha384(content).hexdigest()
        sets = [n]
    elif decl == 'zero':
        sets = [0]
    elif decl == 'negative':
        sets = [-1]
    elif decl == 'unknown':
        sets = []
    elif decl == 'off_by_minus':
        sets = [n - 1] if n > 1 else [n + 1]
    elif decl == 'off_by_plus':
        sets = [n + 1]
    elif decl == 'set_late':
        sets = ['late', n]
    elif decl == 'same_wrong_twice':
        wrong = r.choice([n + 1, n + 7, max(n - 1, 1) if n > 1 else n + 2])
        sets = [wrong, wrong]          # two peers announce the same wrong length
    elif decl == 'set_twice':
        sets = [n, r.choice([n + 1, max(n - 1, 0), 0, MAX + 5])]    # a second, different announcement must not change it
        true_first = True
    elif decl == 'second_announcement_in_flight':
        # the honest peer's header comes first; another peer's header with a different length arrives while the honest copy is on its way
        sets = [n]
        in_flight_second = r.choice([n + 1, n + 32, max(n - 1, 1) if n > 1 else n + 3])
        true_first = True
    rec.hit('decl.' + decl)
    bdir = _TMP.get('dir') or tempfile.gettempdir()
    path = os.path.join(bdir, blob_hash)
    if os.path.exists(path):
        os.unlink(path)
    blob = Mon(loop, blob_hash, ctor_len, completed, bdir)
    blob.verified = MonEvent(events, 'verified')
    late_set = None
    claimed = r.random() < 0.7 or decl == 'same_wrong_twice'
    for s in sets:
        if s == 'late':
            late_set = True
            continue
        if late_set:
            late_set = s
            continue
        before = blob.get_length()
        if before is None and claimed:
            # as BlobExchangeClientProtocol does when the length is only what a peer announced
            try:
                blob.length_claimed_by_peer = True
                rec.hit('decl.length_only_claimed_by_peer')
            except AttributeError:
                pass
        blob.set_length(s)
        if before is None and isinstance(s, int) and 0 < s <= MAX and blob.get_length() != s:
            rec.violation('C01/L1/legal-announced-length-refused', f'set_length({s}) on a blob of unknown length was refused (0 < n <= 2 MiB is the '
                          f'range the statement quantifies over); length is now {blob.get_length()}', {'announced': s, 'now': blob.get_length()})
            return
    if ctor_len is not None and blob.get_length() != ctor_len:
        rec.violation('C01/L1/legal-announced-length-refused', f'length {ctor_len} given at construction is not what the blob reports', {})
        return

    # ---- writers
    plans, writers, models = [], [], []
    for i, kind in enumerate(kinds):
        if kind.startswith('flipbit:'):
            bit = int(kind.split(':')[1])
            b = bytearray(content)
            b[bit // 8] ^= 1 << (bit % 8)
            chunks, close_after, style = [bytes(b)], False, 'one'
            rec.hit('kind.flip')
        else:
            chunks, close_after, style = build_writer_plan(r, kind, content, n)
            rec.hit('kind.' + kind)
        if steps and steps[0] == 'order':
            third = max(1, len(chunks[0]) // 3) if len(chunks) == 1 else None
            data = b''.join(chunks)
            chunks = [data[:10], data[10:20], data[20:]]
        plans.append({'kind': kind, 'chunks': chunks, 'close_after': close_after, 'style': style, 'next': 0, 'reopen_at': None})
        if case.get('fam') == 'rand' and len(kinds) >= 2 and kind not in ('late_correct',) and r.random() < 0.12:
            # the peer's connection drops and the same peer is asked again before the loop has run the old writer's callbacks
            plans[-1]['reopen_at'] = r.randrange(0, len(chunks))
        try:
            writers.append(blob.get_blob_writer('10.0.0.%d' % (i + 1), 3333))
        except OSError as e:   # cannot happen for distinct peers on a fresh blob
            rec.violation('C01/L1/get_blob_writer-refused', f'get_blob_writer raised {e!r} on a fresh blob', {'kinds': kinds})
            return
        models.append(ModelWriter(blob_hash))

    # ---- schedule
    order = []
    if steps == 'doublewin':
        # both correct writers deliver everything inside ONE loop iteration (no await in between)
        order = [('burst', [0, 1])] + [('w', i) for i in range(2, len(kinds)) for _ in plans[i]['chunks']]
    elif steps and steps[0] == 'order':
        order = [('w', int(c)) for c in steps[1]]
    else:
        pend = []
        for i, p in enumerate(plans):
            pend += [i] * len(p['chunks'])
        early = [i for i in pend if plans[i]['kind'] != 'late_correct']
        late = [i for i in pend if plans[i]['kind'] == 'late_correct']
        mode = r.choice(['shuffle', 'shuffle', 'roundrobin', 'sequential'])
        if mode == 'shuffle':
            # random merge keeping each writer's own chunk order
            r.shuffle(early)
        elif mode == 'roundrobin':
            early.sort(key=lambda i: 0)  # stable
            rr, counts = [], {i: early.count(i) for i in set(early)}
            while any(counts.values()):
                for i in sorted(counts):
                    if counts[i]:
                        rr.append(i)
                        counts[i] -= 1
            early = rr
        order = [('w', i) for i in early + late]
    ypat = steps[2] if steps and steps[0] == 'order' else None
    sched_sig = hashlib.blake2b(digest_size=8)
    accepted_any = False
    accepted_step = None
    pre_accept_writers = list(range(len(writers)))
    exc_types = set()
    reopened = set()
    step_no = 0

    def do_write(i):
        nonlocal accepted_any, accepted_step
        p = plans[i]
        if p['next'] >= len(p['chunks']):
            return
        if p['reopen_at'] == p['next'] and accepted_any:
            p['reopen_at'] = None       # a writer opened after the blob was completed is a new request, not a pending writer
        if p['reopen_at'] == p['next']:
            p['reopen_at'] = None
            writers[i].close_handle()
            try:
                writers[i] = blob.get_blob_writer('10.0.0.%d' % (i + 1), 3333)
                models[i] = ModelWriter(blob_hash)
                reopened.add(i)
                rec.hit('schedule.writer_reopened_by_same_peer_in_same_iteration')
            except OSError:
                exc_types.add('OSError@reopen')
        data = p['chunks'][p['next']]
        p['next'] += 1
        Lnow = n if true_first else blob.get_length()
        models[i].write(data, Lnow)
        try:
            writers[i].write(data)
        except Exception as e:   # the statement is silent on exceptions from write(): logged by type, not judged
            exc_types.add(type(e).__name__)
        if models[i].accepted and not accepted_any:
            accepted_any, accepted_step = True, step_no
        if p['next'] == len(p['chunks']) and p['close_after']:
            writers[i].close_handle()

    seen_handed, disk_checked = [0], [None]

    async def observe(final=False):
        """S1/S2 after every step."""
        rec.hit('S1.steps_checked')
        v = blob.get_is_verified()
        present = blobkind == 'file' and os.path.isfile(path)
        L = blob.get_length()
        if v or present or cb_calls or handed:
            if not accepted_any:
                rec.violation('C01/S1/accepted-without-correct-copy',
                              f'blob became verified={v} file_present={present} callbacks={len(cb_calls)} '
                              f'saved={len(handed)} although no writer delivered bytes of the declared length '
                              f'{L} hashing to the blob name (writers {kinds}, decl {decl})',
                              {'events': events[-20:], 'kinds': kinds, 'decl': decl, 'L': L, 'n': n})
                return False
            if not (L is not None and 0 < L <= MAX):
                rec.violation('C01/S1/length-out-of-range', f'blob accepted with declared length {L} outside (0, 2 MiB]',
                              {'L': L, 'decl': decl})
                return False
        for hb in handed[seen_handed[0]:]:        # each saved copy is hashed once (2 MiB blobs made every step cost a full hash)
            seen_handed[0] += 1
            if len(hb) != L or hashlib.sha384(hb).hexdigest() != blob_hash:
                rec.violation('C01/S1/saved-bytes-differ', 'bytes handed to the blob store do not have the declared length / SHA-384 name',
                              {'len': len(hb), 'L': L, 'kinds': kinds})
                return False
        idle = all(t.done() for t in write_tasks)
        if present and idle and v and (final or disk_checked[0] != (len(write_tasks), len(handed))):
            disk_checked[0] = (len(write_tasks), len(handed))
            with open(path, 'rb') as f:
                disk = f.read()
            if len(disk) != L or hashlib.sha384(disk).hexdigest() != blob_hash:
                rec.violation('C01/S1/disk-bytes-differ', f'file on disk has {len(disk)} bytes, sha384 mismatch={hashlib.sha384(disk).hexdigest() != blob_hash}',
                              {'L': L, 'disk_len': len(disk), 'kinds': kinds})
                return False
        if len(cb_calls) > 1:
            rec.violation('C01/S2/callback-more-than-once', f'completion callback fired {len(cb_calls)} times', {'events': events[-20:], 'kinds': kinds})
            return False
        if cb_calls and not cb_calls[0]:
            rec.violation('C01/S2/callback-before-verified', 'completion callback fired while the blob was not verified', {'events': events[-20:]})
            return False
        return True

    ok = True
    for kind_, arg in order:
        step_no += 1
        if in_flight_second is not None and step_no == 2:
            blob.set_length(in_flight_second)          # what the client does with every raced peer's header
            rec.hit('decl.second_announcement_while_a_copy_is_in_flight')
        if late_set not in (None, True) and step_no == 2:
            if blob.get_length() is None and claimed:
                try:
                    blob.length_claimed_by_peer = True
                except AttributeError:
                    pass
            blob.set_length(late_set)
        if kind_ == 'burst':
            # interleave the two writers' chunks without yielding to the loop
            seq = []
            for i in arg:
                seq += [i] * len(plans[i]['chunks'])
            r.shuffle(seq)
            for i in seq:
                do_write(i)
            both = all(models[i].accepted for i in arg)
            if both:
                rec.hit('schedule.same_iteration_double_win')
            sched_sig.update(b'B' + bytes(seq))
        else:
            do_write(arg)
            sched_sig.update(b'w%d' % arg)
        if ypat is not None:
            k = [0, 1, 2, (step_no % 3)][ypat]
        else:
            k = r.choice([0, 0, 1, 1, 2, 3])
        sched_sig.update(b'y%d' % k)
        for _ in range(k):
            await asyncio.sleep(0)
        if k == 3 and write_tasks and r.random() < 0.5:
            # let an outstanding executor job finish now (different placement of the completion)
            await asyncio.wait(write_tasks, timeout=30)
        ok = await observe()
        if not ok:
            break
    # ---- drain and judge the converse (L1)
    await _drain(4)
    if write_tasks:
        done, pending = await asyncio.wait(write_tasks, timeout=60)
        if pending:
            raise RuntimeError('write task did not finish in 60 s (harness watchdog)')
    await _drain(4)
    if ok:
        ok = await observe(final=True)
    bad_only = not any(m.accepted for m in models)
    if bad_only:
        rec.hit('S1.bad_only_case')
    if ok and accepted_any:
        rec.hit('L1.checked')
        if len(kinds) > 1:
            rec.hit('L1.multi_writer')
        L = blob.get_length()
        if not blob.get_is_verified():
            rec.violation('C01/L1/not-verified-after-correct-copy',
                          f'a writer delivered a complete correct copy (step {accepted_step}) but the blob is not verified after draining '
                          f'(writers {kinds}, blob {blobkind}, decl {decl})', {'events': events[-20:], 'kinds': kinds, 'exc': sorted(exc_types)})
        else:
            stored = None
            try:
                with blob.reader_context() as f:
                    stored = f.read()
            except Exception as e:  # noqa
                rec.violation('C01/L1/verified-but-unreadable', f'verified blob cannot be read: {e!r}', {'kinds': kinds})
            if stored is not None and stored != content:
                rec.violation('C01/L1/stored-bytes-not-the-content', 'verified blob reads back different bytes', {'kinds': kinds, 'len': len(stored)})
            if blob.get_length() != n:
                rec.violation('C01/L1/verified-blob-reports-another-length', f'the blob is verified with {n} bytes stored but reports length '
                              f'{blob.get_length()} (writers {kinds}, decl {decl}, claimed-by-peer {claimed})', {'kinds': kinds, 'decl': decl})
            for i in pre_accept_writers:
                w = writers[i]
                if not w.closed() or not w.finished.done():
                    rec.violation('C01/L1/pending-writer-not-shut-down' + ('/reopened-by-same-peer-before-old-callbacks-ran' if i in reopened else ''),
                                  f'writer {i} ({kinds[i]}{", second writer of a peer whose first one was closed in the same loop iteration" if i in reopened else ""}) '
                                  f'still open after another writer completed the blob',
                                  {'kinds': kinds, 'closed': w.closed(), 'finished_done': w.finished.done()})
                    break
            if blob.writers:
                rec.violation('C01/L1/writers-left-registered', f'{len(blob.writers)} writers still registered after completion', {'kinds': kinds})
            # later writes to losers change nothing
            before = (len(handed), len(cb_calls), blob.get_length())
            for i, w in enumerate(writers):
                try:
                    w.write(b'\x00' * 10)
                except Exception as e:  # noqa
                    exc_types.add(type(e).__name__)
            await _drain(4)
            if write_tasks:
                await asyncio.wait(write_tasks, timeout=60)
            after = (len(handed), len(cb_calls), blob.get_length())
            if before != after:
                rec.violation('C01/L1/late-write-changed-state', f'writes after completion changed state {before}->{after}', {'kinds': kinds})
            if blobkind == 'file':
                with open(path, 'rb') as f:
                    if f.read() != content:
                        rec.violation('C01/S1/disk-bytes-differ', 'file differs from the content after late writes', {'kinds': kinds})
        if cb_calls:
            rec.hit('S2.callback_seen')
        else:
            rec.violation('C01/L1/completion-not-announced', 'blob verified but the completion callback never fired', {'kinds': kinds, 'events': events[-20:]})
    # ---- every attempt failed under a length that was only what peers had announced: once they are all over, an honest peer announcing
    # the true length must be able to deliver the blob (added after seeded break C01-H: the same wrong length announced twice stuck)
    if ok and not accepted_any and claimed and decl in ('off_by_minus', 'off_by_plus', 'same_wrong_twice') and len(content) <= 70000:
        for w in writers:
            if not w.closed():
                w.close_handle()               # the connections of the failed attempts end
        await _drain(4)
        rec.hit('L1.honest_retry_after_wrong_claims_checked')
        if blob.get_length() is None:
            try:
                blob.length_claimed_by_peer = True
            except AttributeError:
                pass
        blob.set_length(len(content))
        try:
            wh = blob.get_blob_writer('10.0.7.7', 3333)
            for c in chunk(r, content, 'rand'):
                if wh.closed():
                    break
                wh.write(c)
        except Exception as e:  # noqa
            exc_types.add(type(e).__name__ + '@honest-retry')
        await _drain(4)
        if write_tasks:
            await asyncio.wait(write_tasks, timeout=60)
        await _drain(4)
        if not blob.get_is_verified():
            rec.violation('C01/L1/not-verified-after-correct-copy/honest-peer-after-failed-attempts-under-a-wrong-claimed-length',
                          f'peers had announced length {sets} for a {len(content)}-byte blob of unknown length and all their attempts failed; an '
                          f'honest peer announcing {len(content)} then delivered the complete correct copy but the blob is not verified '
                          f'(length is now {blob.get_length()})', {'decl': decl, 'announced': [x for x in sets if isinstance(x, int)],
                                                                   'kinds': kinds, 'exc': sorted(exc_types)})
    # ---- second life of the same blob object (added after seeded break C01-C): once it is not verified any more - deleted, or a
    # BlobBuffer read through its one-shot reader - a later complete correct copy must verify it again
    if ok and accepted_any and not rec.violations and case.get('fam') in ('rand', 'doublewin') and n <= 70000:
        if blobkind == 'file':
            blob.delete()
        if not blob.get_is_verified():
            rec.hit('L1.second_download_checked')
            if blob.get_length() is None:
                blob.set_length(n)
            cb_before = len(cb_calls)
            try:
                w2 = blob.get_blob_writer('10.0.9.9', 3333)
                for c in chunk(r, content, 'rand'):
                    if w2.closed():
                        break           # complete: a trailing empty chunk would be a write to a finished writer
                    w2.write(c)
            except Exception as e:  # noqa
                rec.violation(f'C01/L1/second-download-refused/{type(e).__name__}', f'after the {blobkind} blob stopped being verified a new writer '
                              f'could not deliver it again: {e!r}', {'blob': blobkind})
                w2 = None
            if w2 is not None:
                await _drain(4)
                if write_tasks:
                    await asyncio.wait(write_tasks, timeout=60)
                await _drain(4)
                if not blob.get_is_verified() or len(cb_calls) != cb_before + 1:
                    rec.violation('C01/L1/not-verified-after-correct-copy/second-download-on-same-object',
                                  f'the {blobkind} blob was verified, then {"deleted" if blobkind == "file" else "consumed by its one-shot reader"}; a later '
                                  f'complete correct copy did not verify it again (verified={blob.get_is_verified()}, callbacks {len(cb_calls) - cb_before})',
                                  {'blob': blobkind, 'writing_flag': blob.writing.is_set()})
                else:
                    with blob.reader_context() as f:
                        if f.read() != content:
                            rec.violation('C01/L1/stored-bytes-not-the-content', 'second download stored different bytes', {'blob': blobkind})
    for t in sorted(exc_types):
        rec.log('write_raised.' + t)
    lcls = 'big' if n >= 65536 else ('mid' if n > 300 else 'small')
    styles = tuple(p['style'] for p in plans)
    nontrivial = len(kinds) > 1 or any(k not in ('correct', 'late_correct') for k in kinds) or decl not in ('ctor', 'set_length')
    rec.case([kinds, styles, lcls, decl, blobkind, sched_sig.hexdigest()], nontrivial=nontrivial,
             sample={'blob': blobkind, 'length': n, 'declared': decl, 'writers': kinds, 'chunking': styles,
                     'steps': len(order), 'accepted_by_model': accepted_any, 'verified': blob.get_is_verified(),
                     'monitor_events': [list(e) for e in events[:8]]})
    blob.close()
    if os.path.exists(path):
        os.unlink(path)

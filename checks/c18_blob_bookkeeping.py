"""C18 — Blob bookkeeping matches the disk after any restart.  [H+M] + crash placement.

A seeded history (downloads through the real writer path, publishes via the real
StreamDescriptor.create_stream + store_stream, "downloaded" streams, delete_blobs with/without
db deletion, stream deletion, files removed / added behind the manager's back (also larger than the
2 MiB blob limit, also living on a second volume and symlinked into the blob directory), in-process
restarts, clean / unclean ends) runs on the REAL BlobManager + SQLiteStorage (file-backed, WAL)
in a forked child that can be made to die (os._exit(137)) at the n-th entry to / exit from
storage.add_blobs, BlobManager.blob_completed, right before / after the blob file is written and
closed in BlobFile._write_blob, and a few more db-write boundaries.  A second, fresh forked child
then starts a new manager on the same directory + database twice (new objects each time) and
reports what it saw; ground truth (directory listing, `select blob_hash,status from blob`) is
taken by vlib/ref/blobbook.py, which also holds the oracle Z1-Z4 (shares no code with lbry).
Histories tie claims to streams that have a file entry (what `publish` / a download from a claim
leave behind) and remove sd blob files behind the manager's back; once a directory holds such a
stream, each of the two fresh starts goes on in the daemon's order - the real StreamManager.start()
after BlobManager.setup(): it rebuilds streams whose sd blob file is missing (on disk, or in memory
only with save_blobs off) and calls the blob manager's reconciliation as its second caller - and
Z1-Z4 are judged once more on the state at the END of that start-up (keys .../after-stream-manager-start).
"""
import asyncio
import atexit
import collections
import hashlib
import json
import os
import random
import select
import shutil
import tempfile
import time
import traceback

from vlib import boot
from vlib.ref import blobbook

ID = 'C18'
LEVEL = 'exploration'
RULE = ('case = (history of <=40 operations derived from a seed: dl/publish(+-file entry, +-claim)/remote-stream(+-file entry and claim)/delete(+-db)/delete-stream/'
        'rm-behind-back/rm-of-a-stream-sd-blob-behind-back/add-behind-back[genuine, junk content, zero length, known hash, junk names, loose names, '
        'directories, genuine file larger than the 2 MiB blob limit, blob file living on a second volume and '
        'symlinked into the blob directory (new one / a known one moved there and linked back)]/bulk orphan files around the 500 batch boundary/quiesce/in-process restart/end[clean, stop-only, '
        'abrupt]; one fixed history per shard that links + oversizes before anything else, one that publishes / downloads claimed streams and '
        'loses two of their sd blob files (restart with save_blobs on / off by shard parity); config save_blobs on/off; one crash point (kind, phase, n) or none) followed by two fresh-process '
        'starts (BlobManager.setup(), observed; then, when the directory holds a claimed stream, StreamManager.start() as the daemon does, observed again); '
        '30% of the cases chain 2-3 such epochs on the same directory + database.  thorough additionally '
        'enumerates EVERY crash point (all kinds, phases, n) of the last history of each enumerated case.  '
        'distinct = hash(per epoch: history seed, length, profile, crash point); non-trivial = some first start had '
        'something to reconcile (a genuine blob file without a `finished` row, or a `finished` row without file)')
ASSUMPTIONS = [
    'process death is modelled by os._exit(137) (no power loss: the page cache survives), scratch data on tmpfs',
    'a blob file that MUST be recorded/reported = regular file (or symbolic link that resolves to one), name of 96 chars '
    '0-9a-f, non-empty - of ANY size, also above the 2 MiB blob limit -, SHA-384 of content == name; dangling links, zero-length / junk-content / loosely named files and directories carrying a blob name are logged, not judged',
    'the first start may report fewer blobs than files present (statement asks equality only for the further restart)',
    'in-process restarts are observed only at quiescent points (all add_blobs tasks awaited)',
    'failpoint n-th-call numbering is deterministic up to thread completion order; witnesses carry the pre-start state',
    'a start in the daemon order is observed at a quiescent point: StreamManager.start() has returned and the add_blobs tasks '
    'begun by blob_completed during it were awaited; reflect_streams is off (no network), no wallet / DHT node is attached; '
    'when StreamManager.start() raises, what it left half way is logged, not judged',
]
REQUIRED_HITS = [
    'Z1.checked', 'Z1.completed_hashes', 'Z2.files', 'Z3.rows', 'Z4.checked', 'Z4.files',
    'class.file_without_row', 'class.file_with_pending_row', 'class.finished_row_without_file',
    'class.pending_row_without_file', 'class.finished_row_with_file', 'class.over_500_unrecorded',
    'class.junk_name_file', 'class.zero_length_valid_name', 'class.valid_name_junk_content',
    'class.symlinked_file_unrecorded', 'class.symlinked_file_with_finished_row', 'class.oversize_file_unrecorded',
    'crash.fired', 'crash.left_file_unrecorded', 'crash.fired.write_blob.closed', 'crash.fired.add_blobs.entry',
    'crash.fired.add_blobs.exit', 'crash.fired.blob_completed.entry', 'crash.fired.blob_completed.exit',
    'end.clean', 'end.abrupt', 'op.dl', 'op.publish', 'op.remote_stream', 'op.del', 'op.del_keep_db', 'op.rm', 'op.add',
    'inproc.restarts', 'inproc.same_manager', 'op.peek', 'restart.fresh_process',
    'op.rm_sd', 'daemon.starts', 'daemon.Z1.checked', 'daemon.Z1.completed_hashes', 'daemon.Z1.announced_hashes', 'daemon.Z2.files',
    'daemon.Z3.checked', 'daemon.Z4.checked', 'daemon.Z4.files', 'daemon.class.claimed_stream_sd_file_missing.save_blobs_on',
    'daemon.class.claimed_stream_sd_file_missing.save_blobs_off',
    'daemon.class.claimed_stream_sd_file_missing_content_blob_files_present',
]
MAXB = 2 * 2 ** 20
BULK_NS = [501, 502, 1003, 1002, 500, 499, 777, 600]
FP_KINDS = [('write_blob', 'closed', 30), ('write_blob', 'before', 5), ('blob_completed', 'entry', 10),
            ('blob_completed', 'exit', 10), ('add_blobs', 'entry', 15), ('add_blobs', 'exit', 12),
            ('store_stream', 'entry', 3), ('store_stream', 'exit', 3), ('delete_blobs_from_db', 'entry', 3),
            ('delete_blobs_from_db', 'exit', 3), ('sync_missing_blobs', 'entry', 1), ('sync_missing_blobs', 'exit', 3),
            ('delete_stream', 'entry', 1), ('delete_stream', 'exit', 1)]
CHILD_TIMEOUT = 180
_STATE = {}


def plan(tier):
    return {'shards': 16, 'budget_s': 22 if tier == 'quick' else 330}


def _cpu_spent():
    t = os.times()
    return t.user + t.system + t.children_user + t.children_system


def out_of_time(rec):
    """core's soft budget counts CPU seconds of the shard process itself; this check burns its CPU in forked
    (and waited-for) children, so their CPU is counted as well.  Wall time stays capped by core (2.5 x budget)."""
    return rec.out_of_time() or _cpu_spent() - _STATE.get('cpu0', 0.0) >= rec.budget_s


def shard_setup(rec, tier):
    _STATE['cpu0'] = _cpu_spent()
    _STATE['rec'] = rec
    blobbook.self_check()
    boot.import_lbry()
    # import everything the children need BEFORE forking (no loop, no thread exists here)
    import lbry.conf  # noqa: F401
    import lbry.extras.daemon.storage  # noqa: F401
    import lbry.blob.blob_manager  # noqa: F401
    import lbry.stream.descriptor  # noqa: F401
    import lbry.stream.stream_manager  # noqa: F401
    import lbry.schema.claim  # noqa: F401
    import lbry.dht.protocol.data_store  # noqa: F401
    import lbry.dht.peer  # noqa: F401
    import threading
    if threading.active_count() != 1:
        raise RuntimeError('shard process is not single threaded before forking')
    base = '/dev/shm' if os.path.isdir('/dev/shm') and os.access('/dev/shm', os.W_OK) else None
    _STATE['base'] = tempfile.mkdtemp(prefix='verif-c18-', dir=base)
    atexit.register(shutil.rmtree, _STATE['base'], True)      # forked children leave through os._exit


def shard_finish(rec, tier):
    shutil.rmtree(_STATE.pop('base', ''), ignore_errors=True)


# --------------------------------------------------------------------------- case generation
def gen_cases(rng, tier, shard, nshards):
    def one(nops_choices):
        seed = rng.getrandbits(40)
        nops = rng.choice(nops_choices)
        case = {'fam': 'one', 'seed': seed, 'nops': nops, 'profile': 'mixed', 'crash': pick_crash(rng, seed, nops, 'mixed', 0)}
        x = rng.random()
        nprev = 2 if x < 0.08 else (1 if x < 0.30 else 0)
        if nprev:
            # earlier epochs on the same directory + database: history, (crash), two observed starts, next history
            eps = []
            for e in range(nprev):
                n = rng.choice([2, 5, 8, 12])
                eps.append({'seed': seed, 'nops': n, 'profile': 'mixed', 'crash': pick_crash(rng, seed, n, 'mixed', e)})
            case['prev'] = eps
            case['crash'] = pick_crash(rng, seed, nops, 'mixed', nprev)
        return case
    def budget_gone():      # same sequence of cases for a seed, possibly cut short (also counts the children's CPU)
        rec = _STATE.get('rec')
        if rec is not None and out_of_time(rec):
            rec.note('stopped_on_budget', True)
            return True
        return False
    def vol2(first_seed):   # one fixed, cheap history per shard (its seed derived without drawing from rng)
        return {'fam': 'one', 'seed': (first_seed * 2654435761 + shard + 1) % 2 ** 40, 'nops': 3, 'profile': 'vol2', 'crash': None}
    def daemon(first_seed):     # one more fixed history per shard: claimed streams whose sd blob file is gone at the next start
        return {'fam': 'one', 'seed': (first_seed * 40503 + 7 * shard + 3) % 2 ** 40, 'nops': 0, 'profile': 'daemon%d' % (shard % 2),
                'crash': None}
    if tier == 'quick':
        first = rng.getrandbits(40)
        yield {'fam': 'one', 'seed': first, 'nops': 4, 'profile': 'bulk%d' % BULK_NS[shard % len(BULK_NS)],
               'crash': None}
        yield vol2(first)
        yield daemon(first)
        for i in range(420):
            if budget_gone():
                return
            yield one([2, 3, 5, 8, 12, 16, 20, 25])
    else:
        first = rng.getrandbits(40)
        yield {'fam': 'enum', 'seed': first, 'nops': 3, 'profile': 'bulk%d' % BULK_NS[shard % len(BULK_NS)]}
        yield vol2(first)
        yield daemon(first)
        for i in range(4000):
            if budget_gone():
                return
            if i % 8 == 0:
                c = one([4, 8, 12, 20, 30, 40])
                c['fam'] = 'enum'
                c.pop('crash')
                yield c
            else:
                yield one([2, 3, 5, 8, 12, 16, 20, 25, 32, 40])


def pick_crash(rng, seed, nops, profile, epoch):
    if rng.random() < 0.18:
        return None
    hist = gen_history(seed, nops, profile, epoch)
    est = 1
    for op in hist['ops']:
        est += {'dl': 1, 'publish': 2, 'remote_stream': 2, 'restart': 1}.get(op[0], 0)
    kind, phase, _w = rng.choices(FP_KINDS, weights=[w for _k, _p, w in FP_KINDS])[0]
    if kind in ('write_blob', 'blob_completed', 'add_blobs'):
        n = 1 + int((rng.random() ** 1.4) * est)
    else:
        n = rng.choice([1, 1, 1, 2, 2, 3])
    return [kind, phase, n]


def _hexname(r, n=96):
    return ''.join(r.choice('0123456789abcdef') for _ in range(n))


def gen_history(seed, nops, profile, epoch=0):
    """pure function of its arguments -> {'conf': {...}, 'ops': [...]} (JSON-able).  Blob contents depend on
    `seed` only, so later epochs of a chain meet the blobs of the earlier ones again."""
    r = random.Random(seed * 7919 + nops + 104729 * epoch)
    conf = {'save_blobs': r.random() >= 0.12, 'restart_save_blobs': r.random() >= 0.1}
    ops = []
    nb = npub = nrem = nadd = 0
    if profile.startswith('bulk'):
        conf['save_blobs'] = True
        n = int(profile[4:])
        ops.append(['dl', 0, 1000, 'one', 'db', 0])
        nb = 1
        ops.append(['bulk_add', n])
        if r.random() < 0.5:
            ops.append(['restart', r.random() < 0.5])
    if profile == 'vol2':
        # part of the blob store lives on a second volume and is linked back; a file above the blob size limit is present
        conf['save_blobs'] = True
        ops.append(['dl', 0, 1000, 'one', 'db', 0])
        ops.append(['dl', 1, 4096, 'two', 'db', 1])
        nb = 2
        ops.append(['add', 'link_known', 0, 0, 16, _hexname(r)])            # known[0] = blob 0: finished row, moved + linked back
        ops.append(['add', 'link_genuine', 1, r.getrandbits(16), r.choice([1, 16, 1000, 4096]), _hexname(r)])
        ops.append(['add', 'genuine_oversize', 2, r.getrandbits(16), 16, _hexname(r)])
        nadd = 3
        if r.random() < 0.5:
            ops.append(['restart', r.choice([False, True, 'same'])])
    if profile.startswith('daemon'):
        # what a daemon start has to cope with beyond the blob manager's own scan: streams with a file entry and a claim
        # (published here, downloaded from somebody else) whose sd blob file is missing at the next start while their
        # content blob files are still there; 'daemon0' restarts with save_blobs on, 'daemon1' with save_blobs off
        conf['save_blobs'] = True
        conf['restart_save_blobs'] = profile != 'daemon1'
        ops.append(['publish', 0, 5000, 'claimed'])
        ops.append(['publish', 1, 70000, 'claimed'])
        ops.append(['remote_stream', 0, 5000, 15, True, 'db'])
        npub, nrem = 2, 1
        ops.append(['quiesce'])
        ops.append(['rm_sd', 0])
        ops.append(['rm_sd', 2])
        if r.random() < 0.5:
            ops.append(['restart', r.choice([False, True, 'same'])])
    sizes = [1, 2, 15, 16, 17, 100, 1000, 1000, 4096, 4096, 65536]
    for _ in range(nops):
        x = r.random() * 100
        if x < 30:
            if nb and r.random() < 0.15:
                i = r.randrange(nb)
            else:
                i = nb
                nb += 1
            size = r.choice(sizes) if r.random() > 0.02 else r.choice([MAXB, MAXB - 1])
            ops.append(['dl', i, size, r.choice(['one', 'two', 'many']), r.choice(['db', 'db', 'file', 'none']),
                        r.randrange(3)])
        elif x < 38:
            if npub and r.random() < 0.1:
                j = r.randrange(npub)
            else:
                j = npub
                npub += 1
            size = r.choice([1, 15, 16, 17, 1000, 5000, 70000]) if r.random() > 0.03 else MAXB + 5
            # 'claimed': as `publish` / `stream_create` leave it (stream + file entry + the claim tied to it), 'full': no claim yet
            ops.append(['publish', j, size, r.choices(['claimed', 'full', 'no_file', 'no_store'], weights=[4, 2, 2, 2])[0]])
        elif x < 45:
            j = nrem
            nrem += 1
            size = r.choice([1, 16, 1000, 5000]) if r.random() > 0.03 else MAXB + 5
            ops.append(['remote_stream', j, size, r.getrandbits(4), r.random() < 0.5, r.choice(['db', 'db', 'file'])])
        elif x < 58:
            ks = [r.getrandbits(16) for _ in range(r.choice([1, 1, 2, 3]))]
            special = None
            y = r.random()
            if y < 0.06:
                special = _hexname(r)            # a valid hash nobody knows
            elif y < 0.09:
                special = 'not-a-blob-hash'      # delete_blob raises for it
            ops.append(['del', ks, r.random() < 0.5, special])
        elif x < 62:
            ops.append(['del_stream', r.getrandbits(16)])
        elif x < 68:
            ops.append(['rm', r.getrandbits(16)])
        elif x < 71:
            ops.append(['rm_sd', r.getrandbits(16)])     # the sd blob file of a stream of this history, its content blobs stay
        elif x < 84:
            cls = r.choices(['genuine', 'valid_junk', 'valid_empty', 'known', 'junk_short', 'junk_long', 'junk_upper',
                             'junk_text', 'loose_comma', 'loose_newline', 'dir_junk', 'dir_hash', 'dir_known',
                             'link_genuine', 'link_known', 'genuine_oversize'],
                            weights=[22, 10, 10, 22, 5, 5, 5, 5, 4, 3, 3, 3, 3, 4, 6, 2])[0]
            ops.append(['add', cls, nadd, r.getrandbits(16), r.choice([1, 16, 1000, 4096]), _hexname(r)])
            nadd += 1
        elif x < 87:
            ops.append(['quiesce'])
        elif x < 90:
            # a blob opened but never completed in this session: looked up only, or a download a peer abandoned half way
            ops.append(['peek', r.getrandbits(16), nb, r.choice([1, 16, 1000, 4096]), r.choice(['lookup', 'lookup_then_file', 'lookup_then_file', 'half_written', 'half_written_then_file'])])
            nb += 1
        elif x < 96:
            # False: new manager on the same storage, True: new storage too, 'same': stop()/setup() of the SAME manager object (the
            # restart idiom of the upstream blob-manager tests; seeded break C18-D kept blob objects cached across it)
            ops.append(['restart', r.choice([False, False, True, True, 'same', 'same'])])
        else:
            ops.append(['bulk_add', r.choice([3, 10, 40])])
    ops.append(['end', r.choices(['clean', 'stop_only', 'abrupt'], weights=[4, 2, 4])[0]])
    return {'conf': conf, 'ops': ops}


def content_for(seed, tag, i, size):
    return hashlib.shake_128(f'{seed}:{tag}:{i}'.encode()).digest(size)


# --------------------------------------------------------------------------- fork plumbing
def _write_all(fd, data):
    view = memoryview(data)
    while view:
        n = os.write(fd, view[:65536])
        view = view[n:]


def fork_run(fn, timeout=CHILD_TIMEOUT):
    """Runs fn(emit) in a forked child (which never returns); -> (exit code, [json lines])."""
    rfd, wfd = os.pipe()
    pid = os.fork()
    if pid == 0:
        code = 3
        try:
            os.close(rfd)

            def emit(obj):
                _write_all(wfd, json.dumps(obj).encode() + b'\n')
            try:
                code = fn(emit)
            except BaseException:  # harness failure inside the child
                emit({'t': 'harness_error', 'tb': traceback.format_exc()[-4000:]})
                code = 3
        finally:
            os._exit(code)
    os.close(wfd)
    buf = bytearray()
    deadline = time.monotonic() + timeout
    try:
        while True:
            left = deadline - time.monotonic()
            ready = select.select([rfd], [], [], max(0.0, left))[0] if left > 0 else []
            if not ready:
                os.kill(pid, 9)
                os.waitpid(pid, 0)
                raise RuntimeError(f'C18 harness: forked child did not finish within {timeout}s')
            chunk = os.read(rfd, 1 << 16)
            if not chunk:
                break
            buf += chunk
    finally:
        os.close(rfd)
    _, status = os.waitpid(pid, 0)
    code = os.waitstatus_to_exitcode(status)
    lines = []
    parts = bytes(buf).split(b'\n')
    for ln in parts[:-1]:           # a trailing partial line (death during a write) is dropped
        if ln:
            lines.append(json.loads(ln))
    for ln in lines:
        if ln.get('t') == 'harness_error':
            raise RuntimeError('C18 harness error in forked child:\n' + ln['tb'])
    return code, lines


# --------------------------------------------------------------------------- history child
class FailPoints:
    def __init__(self, crash, emit):
        self.counts = collections.Counter()
        self.crash = tuple(crash) if crash else None
        self.emit = emit

    def at(self, kind, phase):
        key = f'{kind}.{phase}'
        self.counts[key] += 1
        c = self.crash
        if c and c[0] == kind and c[1] == phase and self.counts[key] == c[2]:
            self.emit({'t': 'crashing', 'at': key, 'n': c[2], 'fp': dict(self.counts)})
            os._exit(137)


def install_failpoints(fp, loop, tasks):
    """wrap the real classes in THIS (child) process only; attribute lookups happen at call time"""
    from lbry.extras.daemon.storage import SQLiteStorage
    from lbry.blob.blob_manager import BlobManager
    real_add = SQLiteStorage.add_blobs

    async def add_blobs(self, *a, **k):
        fp.at('add_blobs', 'entry')
        r = await real_add(self, *a, **k)
        fp.at('add_blobs', 'exit')
        return r
    SQLiteStorage.add_blobs = add_blobs
    real_bc = BlobManager.blob_completed

    def blob_completed(self, blob):
        fp.at('blob_completed', 'entry')
        t = real_bc(self, blob)
        tasks.append(t)
        fp.at('blob_completed', 'exit')
        return t
    BlobManager.blob_completed = blob_completed

    def wrap_awaitable(name):
        real = getattr(SQLiteStorage, name)

        def wrapper(self, *a, **k):
            fp.at(name, 'entry')
            aw = real(self, *a, **k)

            async def fin():
                r = await aw
                fp.at(name, 'exit')
                return r
            return fin()
        setattr(SQLiteStorage, name, wrapper)
    for name in ('store_stream', 'delete_blobs_from_db', 'sync_missing_blobs', 'delete_stream'):
        wrap_awaitable(name)
    real_rie = loop.run_in_executor

    def run_in_executor(executor, func, *args):
        if getattr(func, '__qualname__', '').endswith('BlobFile._write_blob.<locals>._write_blob'):
            def write_and_close():
                fp.at('write_blob', 'before')
                r = func(*args)
                fp.at('write_blob', 'closed')     # the `with open(...)` block has closed the file
                return r
            return real_rie(executor, write_and_close)
        return real_rie(executor, func, *args)
    loop.run_in_executor = run_in_executor


def _innermost_lbry_frame(e):
    tb = traceback.extract_tb(e.__traceback__)
    for fr in reversed(tb):
        if '/lbry/' in fr.filename:
            return f'{fr.filename.split("/lbry/", 1)[1]}:{fr.name}'
    return '?'


class Driver:
    def __init__(self, work, hist, seed, emit, fp, tasks, epoch=0):
        self.work, self.hist, self.seed, self.emit, self.fp, self.tasks = work, hist, seed, emit, fp, tasks
        self.epoch = epoch
        self.bdir = os.path.join(work, 'blobs')
        self.dbpath = os.path.join(work, 'db', 'lbrynet.sqlite')
        self.known = []
        self.content = {}
        self.streams = []
        self.pending_blobs = []

    def learn(self, h, content=None):
        if h not in self.content:
            self.known.append(h)
            self.content[h] = content
        elif content is not None:
            self.content[h] = content

    def pick(self, k):
        return self.known[k % len(self.known)] if self.known else None

    async def lb(self, where, fn):
        """call into lbry; exceptions are observations (logged by the parent), not harness errors"""
        try:
            r = fn()
            if asyncio.iscoroutine(r) or asyncio.isfuture(r):
                r = await r
            return True, r
        except Exception as e:  # noqa
            self.emit({'t': 'raised', 'where': where, 'exc': type(e).__name__, 'frame': _innermost_lbry_frame(e),
                       'msg': str(e)[:120]})
            return False, None

    async def start(self):
        from lbry.conf import Config
        from lbry.extras.daemon.storage import SQLiteStorage
        from lbry.blob.blob_manager import BlobManager
        self.loop = asyncio.get_running_loop()
        if self.epoch:      # what earlier epochs left behind can be targeted by this one
            left = set(n for n in os.listdir(self.bdir) if blobbook.strict_blob_name(n))
            left.update(blobbook.snap_db(self.dbpath) or {})
            for h in sorted(left):
                self.learn(h, None)
        self.conf = Config(save_blobs=self.hist['conf']['save_blobs'])
        self.storage = SQLiteStorage(self.conf, self.dbpath, self.loop)
        await self.storage.open()
        self.bm = BlobManager(self.loop, self.bdir, self.storage, self.conf)
        await self.bm.setup()

    async def wait_written(self, blob, tag):
        """until the in-flight file write of `blob` (if any) is over; `verified` may legitimately have been
        cleared again by a delete in between, so it is not what is waited for"""
        deadline = self.loop.time() + 15
        while blob.writing.is_set() and not blob.verified.is_set():
            if self.loop.time() > deadline:
                self.emit({'t': 'note', 'what': tag + '.write_never_finished'})
                return False
            await asyncio.sleep(0.0005)
        return True

    async def quiesce(self):
        for _ in range(50):
            pend, self.pending_blobs = self.pending_blobs, []
            for blob in pend:
                await self.wait_written(blob, 'quiesce')
            for _i in range(3):
                await asyncio.sleep(0)
            tasks = [t for t in self.tasks if not t.done()]
            if not tasks and not self.pending_blobs:
                break
            if tasks:
                await asyncio.gather(*tasks, return_exceptions=True)
        del self.tasks[:]

    async def download(self, h, data, chunking, wait, peer, tag):
        """the real writer path, as BlobDownloader / the reflector server drive it"""
        ok, blob = await self.lb(tag + '.get_blob', lambda: self.bm.get_blob(h, len(data)))
        if not ok:
            return
        if blob.get_is_verified():
            self.emit({'t': 'note', 'what': tag + '.already_verified'})
            return
        ok, writer = await self.lb(tag + '.get_blob_writer', lambda: blob.get_blob_writer('10.0.0.%d' % (peer + 1), 3333))
        if not ok:
            return
        if chunking == 'one' or len(data) < 2:
            chunks = [data]
        elif chunking == 'two':
            chunks = [data[:len(data) // 2], data[len(data) // 2:]]
        else:
            step = max(1, len(data) // 7)
            chunks = [data[i:i + step] for i in range(0, len(data), step)]
        ntasks = len(self.tasks)
        for c in chunks:
            ok, _ = await self.lb(tag + '.write', lambda c=c: writer.write(c))
            if not ok:
                return
        if wait == 'none':
            self.pending_blobs.append(blob)
            await asyncio.sleep(0)
            return
        for _i in range(2):
            await asyncio.sleep(0)      # writer-finished callback -> save_verified_blob -> write task
        if not await self.wait_written(blob, tag):
            return
        if not blob.verified.is_set():
            self.emit({'t': 'note', 'what': tag + '.not_verified_after_write'})
            return
        if wait == 'db':
            for _i in range(3):
                if len(self.tasks) > ntasks:
                    break
                await asyncio.sleep(0)
            new = self.tasks[ntasks:]
            if new:
                await asyncio.gather(*new, return_exceptions=True)

    def ivs(self, tag, j):
        n = 0
        while True:
            n += 1
            yield hashlib.sha256(f'{self.seed}:{tag}:{j}:iv{n}'.encode()).digest()[:16]

    async def op_dl(self, i, size, chunking, wait, peer):
        data = content_for(self.seed, 'dl', i, size)
        h = blobbook.blob_name_of(data)
        self.learn(h, data)
        await self.download(h, data, chunking, wait, peer, 'dl')

    async def op_publish(self, j, size, mode):
        from lbry.stream.descriptor import StreamDescriptor
        src = os.path.join(self.work, 'src', f'pub{j}.bin')      # same bytes in every epoch
        with open(src, 'wb') as f:
            f.write(content_for(self.seed, 'pub', j, size))
        key = hashlib.sha256(f'{self.seed}:pub:{j}:key'.encode()).digest()[:16]
        ok, desc = await self.lb('publish.create_stream', lambda: StreamDescriptor.create_stream(
            self.loop, self.bm.blob_dir, src, key=key, iv_generator=self.ivs('pub', j),
            blob_completed_callback=self.bm.blob_completed))
        if not ok:
            return
        hashes = [desc.sd_hash] + [b.blob_hash for b in desc.blobs[:-1]]
        for h in hashes:
            p = os.path.join(self.bdir, h)
            data = None
            if os.path.isfile(p) and os.path.getsize(p) <= 70000 + 4096:
                with open(p, 'rb') as f:
                    data = f.read()
            self.learn(h, data)
        self.streams.append({'desc': desc, 'hashes': hashes})
        if mode == 'no_store':
            return
        ok, _ = await self.lb('publish.store_stream', lambda: self.storage.store_stream(
            self.bm.get_blob(desc.sd_hash, is_mine=True), desc))
        if ok and mode in ('full', 'claimed'):
            ok, _ = await self.lb('publish.save_published_file', lambda: self.storage.save_published_file(
                desc.stream_hash, os.path.basename(src), os.path.dirname(src), 0))
            if ok and mode == 'claimed':
                await self.attach_claim(desc, 'publish')

    async def attach_claim(self, desc, tag):
        """what `publish` / a download from a claim do next: remember the claim and tie it to the stream's file entry (only
        such streams are loaded - and, with their sd blob file missing, rebuilt - by the stream manager at the next start)"""
        from lbry.schema.claim import Claim
        self.emit({'t': 'claiming', 'sd': desc.sd_hash, 'blobs': [b.blob_hash for b in desc.blobs[:-1]]})
        claim = Claim()
        claim.stream.source.sd_hash = desc.sd_hash
        ident = hashlib.sha256(b'claim for ' + desc.sd_hash.encode()).hexdigest()
        ok, _ = await self.lb(tag + '.save_claims', lambda: self.storage.save_claims([{
            'claim_id': ident[:40], 'name': 'c18-' + ident[:8], 'amount': '1.0', 'address': 'bT6wc54qiUUYt34HQF9wnW8b2o2yQTXf2S',
            'txid': ident, 'nout': 0, 'value': claim, 'height': -1, 'claim_sequence': -1}]))
        if ok:
            ok, _ = await self.lb(tag + '.save_content_claim', lambda: self.storage.save_content_claim(
                desc.stream_hash, ident + ':0'))
        if ok:
            self.emit({'t': 'note', 'what': tag + '.claim_tied_to_stream'})

    async def op_remote_stream(self, j, size, mask, save_file, wait):
        """a stream somebody else published: sd blob downloaded, store_stream (pending rows for all its
        blobs), then a subset of the content blobs downloaded"""
        from lbry.stream.descriptor import StreamDescriptor
        rdir = os.path.join(self.work, 'remote', f'e{self.epoch}-{j}')
        os.makedirs(rdir)
        src = os.path.join(rdir, 'source.bin')
        with open(src, 'wb') as f:
            f.write(content_for(self.seed, 'rem', j, size))
        key = hashlib.sha256(f'{self.seed}:rem:{j}:key'.encode()).digest()[:16]
        rblobs = os.path.join(rdir, 'blobs')
        os.mkdir(rblobs)
        # preparing the remote side is harness work: real code, but its failure is a harness error
        rdesc = await StreamDescriptor.create_stream(self.loop, rblobs, src, key=key, iv_generator=self.ivs('rem', j))
        blobs = {}
        for h in [rdesc.sd_hash] + [b.blob_hash for b in rdesc.blobs[:-1]]:
            with open(os.path.join(rblobs, h), 'rb') as f:
                blobs[h] = f.read()
            self.learn(h, blobs[h])
        sd = rdesc.sd_hash
        await self.download(sd, blobs[sd], 'one', 'db' if wait == 'db' else 'file', 0, 'remote_sd')
        ok, sd_blob = await self.lb('remote.get_blob', lambda: self.bm.get_blob(sd))
        if not ok or not sd_blob.get_is_verified():
            return
        ok, desc = await self.lb('remote.from_stream_descriptor_blob', lambda: StreamDescriptor.from_stream_descriptor_blob(
            self.loop, self.bm.blob_dir, sd_blob))
        if not ok:
            return
        ok, _ = await self.lb('remote.store_stream', lambda: self.storage.store_stream(
            self.bm.get_blob(sd, length=desc.length), desc))
        if not ok:
            return
        self.streams.append({'desc': desc, 'hashes': [sd] + [b.blob_hash for b in desc.blobs[:-1]]})
        if save_file:
            ok, _ = await self.lb('remote.save_downloaded_file', lambda: self.storage.save_downloaded_file(
                desc.stream_hash, None, None, 0))
            if ok:
                await self.attach_claim(desc, 'remote')
        for n, b in enumerate(desc.blobs[:-1]):
            if mask >> (n % 4) & 1:
                await self.download(b.blob_hash, blobs[b.blob_hash], 'two', wait, 1, 'remote_blob')

    async def op_del(self, ks, from_db, special):
        hashes = [h for h in (self.pick(k) for k in ks) if h]
        if special:
            hashes.append(special)
        if hashes:
            await self.lb('del.delete_blobs', lambda: self.bm.delete_blobs(hashes, delete_from_db=from_db))

    async def op_del_stream(self, k):
        if not self.streams:
            return
        s = self.streams.pop(k % len(self.streams))
        # mirrors StreamManager.delete
        ok, _ = await self.lb('del_stream.delete_blobs', lambda: self.bm.delete_blobs(s['hashes'], delete_from_db=False))
        await self.lb('del_stream.delete_stream', lambda: self.storage.delete_stream(s['desc']))
        self.emit({'t': 'unclaimed', 'sd': s['hashes'][0]})

    def op_rm(self, k):
        h = self.pick(k)
        if h:
            p = os.path.join(self.bdir, h)
            if os.path.isfile(p):
                os.remove(p)
                return True
        return False

    def op_rm_sd(self, k):
        """behind the manager's back: the sd blob file of one of this history's streams goes, its content blob files stay"""
        if not self.streams:
            return False
        p = os.path.join(self.bdir, self.streams[k % len(self.streams)]['hashes'][0])
        if os.path.isfile(p):
            os.remove(p)
            return True
        return False

    def op_add(self, cls, idx, k, size, hexname):
        if cls == 'genuine_oversize':      # a file present above the blob size limit (exactly the limit: `dl` does that)
            size = [MAXB + 1, MAXB + 4096, 2 * MAXB, MAXB + 1][k % 4]
        data = content_for(self.seed, 'add', idx, size)
        name, mkdir = None, False
        if cls in ('link_genuine', 'link_known'):
            return self.op_link(cls, idx, k, data)
        if cls in ('genuine', 'genuine_oversize'):
            name = blobbook.blob_name_of(data)
            self.learn(name, data)
        elif cls == 'valid_junk':
            name = hexname
            self.learn(name, None)
        elif cls == 'valid_empty':
            name, data = hexname, b''
            self.learn(name, None)
        elif cls == 'known':
            name = self.pick(k)
            if name is None:
                return
            data = self.content.get(name) or data
        elif cls == 'junk_short':
            name = hexname[:95]
        elif cls == 'junk_long':
            name = hexname + 'a'
        elif cls == 'junk_upper':
            name = hexname[:90].upper() + 'ABCDEF'
        elif cls == 'junk_text':
            name = ['README.txt', 'lbrynet.tmp', '.hidden', hexname[:40] + '.part'][k % 4]
        elif cls == 'loose_comma':
            name = hexname[:50] + ',' + hexname[51:]
        elif cls == 'loose_newline':
            name = hexname[:95] + '\n'
        elif cls == 'dir_junk':
            name, mkdir = 'dir-%d' % idx, True
        elif cls == 'dir_hash':
            name, mkdir = hexname, True
        elif cls == 'dir_known':
            name, mkdir = self.pick(k), True
            if name is None:
                return
        p = os.path.join(self.bdir, name)
        if mkdir:
            if not os.path.lexists(p):
                os.mkdir(p)
        elif not os.path.isdir(p):
            with open(p, 'wb') as f:
                f.write(data)

    def op_link(self, cls, idx, k, data):
        """behind the manager's back: a blob file that lives on a second volume and is symlinked into the blob directory
        under its hash - a new one (`link_genuine`), or a known one: its regular file is moved away and linked back, or,
        when it has no entry at present and its content is known, it is restored on the second volume and linked in"""
        if cls == 'link_genuine':
            name = blobbook.blob_name_of(data)
            self.learn(name, data)
        else:
            name = self.pick(k)
            if name is None:
                return
        p = os.path.join(self.bdir, name)
        vol2 = os.path.join(self.work, 'vol2')
        os.makedirs(vol2, exist_ok=True)
        target = os.path.join(vol2, 'e%d-%d-%s' % (self.epoch, idx, name[:24]))
        if os.path.lexists(target):
            return
        if not os.path.lexists(p):
            data = data if cls == 'link_genuine' else self.content.get(name)
            if not data:
                return
            with open(target, 'wb') as f:
                f.write(data)
        elif os.path.isfile(p) and not os.path.islink(p):
            shutil.move(p, target)
        else:
            return
        try:
            os.symlink(target, p)
        except FileExistsError:         # a file write still in flight (dl with wait='none') created the entry meanwhile
            os.remove(target)
            return
        self.emit({'t': 'note', 'what': 'linked.' + ('new_file' if cls == 'link_genuine' else 'known_blob')})

    def op_bulk_add(self, n):
        for i in range(n):
            data = b'bulk orphan %d of history %d' % (i, self.seed)
            h = blobbook.blob_name_of(data)
            if os.path.isdir(os.path.join(self.bdir, h)):      # an earlier `add dir_known` took the name
                continue
            with open(os.path.join(self.bdir, h), 'wb') as f:
                f.write(data)
            if i < 5:
                self.learn(h, data)

    async def op_peek(self, k, i, size, mode):
        """opens a blob without completing it; its content is known to the harness, so a later `add known` / `rm` can make the
        file appear or disappear behind the manager's back"""
        if k % 2 and self.known:
            h = self.pick(k)
            data = self.content.get(h)
        else:
            data = content_for(self.seed, 'dl', i, size)
            h = blobbook.blob_name_of(data)
            self.learn(h, data)
        ok, blob = await self.lb('peek.get_blob', lambda: self.bm.get_blob(h, len(data) if data else None))
        if not ok or not data or blob.get_is_verified():
            return
        if mode.startswith('half_written') and len(data) >= 2:
            ok, writer = await self.lb('peek.get_blob_writer', lambda: blob.get_blob_writer('10.0.0.9', 3333))
            if not ok:
                return
            await self.lb('peek.write', lambda: writer.write(data[:len(data) // 2]))
            await self.lb('peek.close', lambda: writer.close_handle())       # the peer went away
            await asyncio.sleep(0)
        if mode.endswith('_then_file'):
            # ... and the file then turns up behind the manager's back (restored from a backup, copied in by the user)
            p = os.path.join(self.bdir, h)
            if not os.path.lexists(p):
                with open(p, 'wb') as f:
                    f.write(data)

    async def op_restart(self, hard):
        """in-process restart at a quiescent point, observed like the fresh-process ones"""
        from lbry.extras.daemon.storage import SQLiteStorage
        from lbry.blob.blob_manager import BlobManager
        await self.quiesce()
        pre_disk, pre_db = blobbook.snap_disk(self.bdir), blobbook.snap_db(self.dbpath, live=True)
        self.bm.stop()
        if hard is True:
            await self.storage.close()
            self.storage = SQLiteStorage(self.conf, self.dbpath, self.loop)
            await self.storage.open()
        if hard != 'same':
            self.bm = BlobManager(self.loop, self.bdir, self.storage, self.conf)
        ok, _ = await self.lb('restart.setup', lambda: self.bm.setup())
        completed = sorted(self.bm.completed_blob_hashes)
        post_disk, post_db = blobbook.snap_disk(self.bdir), blobbook.snap_db(self.dbpath, live=True)
        self.emit({'t': 'restart', 'hard': hard, 'setup_ok': ok, 'pre_disk': pre_disk, 'pre_db': pre_db,
                   'completed': completed, 'post_disk': post_disk, 'post_db': post_db})

    async def run(self):
        await self.start()
        for idx, op in enumerate(self.hist['ops']):
            name = op[0]
            self.emit({'t': 'op', 'i': idx, 'op': name})
            if name == 'dl':
                await self.op_dl(*op[1:])
            elif name == 'publish':
                await self.op_publish(*op[1:])
            elif name == 'remote_stream':
                await self.op_remote_stream(*op[1:])
            elif name == 'del':
                await self.op_del(*op[1:])
            elif name == 'del_stream':
                await self.op_del_stream(*op[1:])
            elif name == 'rm':
                self.op_rm(*op[1:])
            elif name == 'rm_sd':
                self.op_rm_sd(*op[1:])
            elif name == 'add':
                self.op_add(*op[1:])
            elif name == 'bulk_add':
                self.op_bulk_add(*op[1:])
            elif name == 'quiesce':
                await self.quiesce()
            elif name == 'peek':
                await self.op_peek(*op[1:])
            elif name == 'restart':
                await self.op_restart(*op[1:])
            elif name == 'end':
                how = op[1]
                if how == 'clean':
                    await self.quiesce()
                    self.bm.stop()
                    await self.storage.close()
                elif how == 'stop_only':
                    self.bm.stop()
                self.emit({'t': 'end', 'how': how, 'fp': dict(self.fp.counts)})
                return
            else:
                raise RuntimeError(f'unknown op {op!r}')


def run_history(work, hist, seed, crash, epoch=0):
    for d in ('blobs', 'db', 'src'):
        os.makedirs(os.path.join(work, d), exist_ok=True)

    def child(emit):
        loop = asyncio.new_event_loop()
        asyncio.set_event_loop(loop)
        tasks = []
        fp = FailPoints(crash, emit)
        install_failpoints(fp, loop, tasks)
        drv = Driver(work, hist, seed, emit, fp, tasks, epoch)
        loop.run_until_complete(drv.run())
        return 0            # os._exit(0) right away: whatever is still pending is lost, like a kill
    code, lines = fork_run(child)
    if code not in (0, 137):
        raise RuntimeError(f'C18 harness: history child exited with {code}; last lines {lines[-3:]}')
    return code, lines


# --------------------------------------------------------------------------- restart child
def run_restarts(work, save_blobs, with_stream_manager=False):
    """two fresh starts: database, BlobManager.setup() [observed]; with_stream_manager (some history on this directory tied
    a claim to a stream with a file entry): each start goes on in the daemon's order and starts the stream manager, which
    loads those streams and rebuilds the ones whose sd blob file is missing - through the blob manager's own
    reconciliation, as its second caller [observed again once the database writes it started have landed]"""
    bdir = os.path.join(work, 'blobs')
    dbpath = os.path.join(work, 'db', 'lbrynet.sqlite')
    dldir = os.path.join(work, 'downloads')
    os.makedirs(dldir, exist_ok=True)

    def child(emit):
        from lbry.conf import Config
        from lbry.extras.daemon.storage import SQLiteStorage
        from lbry.blob.blob_manager import BlobManager
        from lbry.stream.stream_manager import StreamManager
        loop = asyncio.new_event_loop()
        asyncio.set_event_loop(loop)
        tasks = []
        real_bc = BlobManager.blob_completed

        def blob_completed(self, blob):     # only to know when the database writes it starts are over
            t = real_bc(self, blob)
            tasks.append(t)
            return t
        BlobManager.blob_completed = blob_completed

        def brief(e):
            return {'exc': type(e).__name__, 'frame': _innermost_lbry_frame(e), 'msg': str(e)[:200]}

        async def stream_manager_phase(conf, storage, bm):
            sm = StreamManager(loop, conf, bm, None, storage, None)
            err = None
            try:
                await sm.start()
            except Exception as e:  # noqa  - logged; the state it leaves is not judged
                err = brief(e)
            for _ in range(50):             # quiescent point, as a running daemon reaches it moments after start-up
                for _i in range(3):
                    await asyncio.sleep(0)
                pending = [t for t in tasks if not t.done()]
                if not pending:
                    break
                await asyncio.gather(*pending, return_exceptions=True)
            del tasks[:]
            completed = sorted(bm.completed_blob_hashes)
            announced = None
            try:
                announced = sorted(await storage.get_blobs_to_announce())
            except Exception as e:  # noqa
                err = err or brief(e)
            loaded = sorted(sm.streams)
            post_disk, post_db = blobbook.snap_disk(bdir), blobbook.snap_db(dbpath, live=True)
            try:
                await sm.stop()
            except Exception as e:  # noqa
                err = err or brief(e)
            return {'error': err, 'completed': completed, 'announced': announced, 'loaded': loaded,
                    'post_disk': post_disk, 'post_db': post_db}

        async def one_start(with_data_store):
            pre_disk, pre_db = blobbook.snap_disk(bdir), blobbook.snap_db(dbpath)
            conf = Config(save_blobs=save_blobs, announce_head_and_sd_only=False, reflect_streams=False, download_dir=dldir)
            storage = SQLiteStorage(conf, dbpath, loop)
            await storage.open()
            ds = None
            if with_data_store:      # as BlobComponent wires it: the DHT node's data store shares the set
                from lbry.dht.protocol.data_store import DictDataStore
                from lbry.dht.peer import PeerManager
                ds = DictDataStore(loop, PeerManager(loop))
            bm = BlobManager(loop, bdir, storage, conf, ds)
            err = None
            try:
                await bm.setup()
            except Exception as e:  # noqa  - judged through the state it leaves
                err = brief(e)
            completed = sorted(bm.completed_blob_hashes)
            announced = None
            try:
                announced = sorted(await storage.get_blobs_to_announce())
            except Exception as e:  # noqa
                err = err or brief(e)
            ds_view = None if ds is None else sorted(ds.completed_blobs)
            post_disk, post_db = blobbook.snap_disk(bdir), blobbook.snap_db(dbpath, live=True)
            daemon = None
            if with_stream_manager and err is None:
                daemon = await stream_manager_phase(conf, storage, bm)
            bm.stop()
            await storage.close()
            emit({'t': 'start', 'setup_error': err, 'pre_disk': pre_disk, 'pre_db': pre_db, 'completed': completed,
                  'announced': announced, 'post_disk': post_disk, 'post_db': post_db, 'data_store_view': ds_view,
                  'daemon': daemon})
        loop.run_until_complete(one_start(False))
        loop.run_until_complete(one_start(True))     # new storage + manager objects, nothing changed in between
        return 0
    code, lines = fork_run(child)
    starts = [ln for ln in lines if ln.get('t') == 'start']
    if code != 0 or len(starts) != 2:
        raise RuntimeError(f'C18 harness: restart child exited with {code}, {len(starts)} starts reported')
    return starts


# --------------------------------------------------------------------------- judging
def _brief_state(disk, db):
    c = blobbook.classify(disk, db)
    return {k: v for k, v in sorted(c.items())}


def judge_start(rec, tag, obs, further, ctx, case, point=None):
    """point: None = right after BlobManager.setup() returned; 'after-stream-manager-start' = the same clauses at the end of a
    start-up in the daemon's order (counters / logs prefixed 'daemon.', mechanism keys suffixed with the point)"""
    findings, counters, logged = blobbook.evaluate(obs['pre_disk'], obs['pre_db'], obs['completed'], obs.get('announced'),
                                                   obs['post_disk'], obs['post_db'], further)
    for k, v in counters.items():
        rec.hit(('daemon.' if point else '') + k, v)
    for k, v in logged.items():
        rec.log(('daemon.' if point else '') + k, v)
    if obs.get('data_store_view') is not None:
        # observed, not judged here: the DHT data store's view of what is completed (C18 is stated on the manager)
        rec.log('data_store.completed_blobs_' + ('same_as_manager' if obs['data_store_view'] == obs['completed']
                                                  else 'differs_from_manager'))
    err = obs.get('setup_error')
    if err:
        rec.log(f"setup_raised.{err['exc']}@{err['frame']}")
    for suffix, what, detail in findings:
        key = f'{ID}/{suffix}'
        if point:
            key += '/' + point
        if err:
            key += f"/setup-raised:{err['exc']}@{err['frame']}"
        rec.violation(key, f'[{tag}] {what}; history seed={case["seed"]} nops={case["nops"]} profile={case["profile"]} '
                           f'crash={case.get("crash")} earlier_epochs={len(case.get("prev") or [])}',
                      {'start': tag, 'detail': detail, 'setup_error': err,
                       'state_before_start': _brief_state(obs['pre_disk'], obs['pre_db']),
                       'state_after_start': _brief_state(obs['post_disk'], obs['post_db']),
                       'completed_count': len(obs['completed']), 'crash': ctx.get('crash_line'),
                       'ops': ctx['ops'] if len(json.dumps(ctx['ops'])) < 6000 else ctx['ops'][:40]},
                      case=case)
    return bool(findings)


def judge_daemon_start(rec, tag, start, further, ctx, case, claimed, save_blobs):
    """the start went on in the daemon's order (stream manager started, its database writes landed): the statement's clauses
    once more on what is reported / announced / recorded / on disk THEN, relative to the state before the start"""
    d = start['daemon']
    rec.hit('daemon.starts')
    pre_disk = start['pre_disk']

    def has_file(disk, h):
        return h in disk and disk[h][0] in blobbook.FILE_KINDS
    # input classes, from the harness's own record of the streams it tied claims to (they may have been deleted since)
    missing = [sd for sd in claimed if not has_file(pre_disk, sd)]
    if missing:
        rec.hit('daemon.class.claimed_stream_sd_file_missing.save_blobs_' + ('on' if save_blobs else 'off'))
        if any(has_file(pre_disk, h) for sd in missing for h in claimed[sd]):
            rec.hit('daemon.class.claimed_stream_sd_file_missing_content_blob_files_present')
        if any(sd in d['loaded'] for sd in missing):
            rec.hit('daemon.stream_loaded_although_sd_file_was_missing')
        if any(has_file(d['post_disk'], sd) for sd in missing):
            rec.hit('daemon.sd_file_rebuilt_on_disk')
        if any(sd in d['loaded'] and not has_file(d['post_disk'], sd) for sd in missing):
            rec.hit('daemon.sd_blob_rebuilt_in_memory_only')
    rec.hit('daemon.streams_loaded', len(d['loaded']))
    if d['error']:
        # the stream manager (or the announce query after it) raised: whatever it left half way is logged, not judged
        rec.log(f"daemon.stream_manager_raised.{d['error']['exc']}@{d['error']['frame']}")
        return False
    # logged, not judged (the unchanged tree does it; reported to the maintainer): a file under a blob's name whose content is
    # NOT that blob (junk / zero length - a class Z1 / Z2 only log anyway) was there before the start, the stream manager
    # found it unparsable as the sd blob of a stream and removed it from the disk behind the blob manager's back, which goes on
    # reporting it
    def start_deleted_corrupt_file(h):
        return has_file(pre_disk, h) and pre_disk[h][2] is not True and h not in d['post_disk']
    reported = {}
    for label in ('completed', 'announced'):
        reported[label] = d[label]
        if d[label] is not None:
            reported[label] = [h for h in d[label] if not start_deleted_corrupt_file(h)]
            if len(reported[label]) != len(d[label]):
                rec.log(f'daemon.Z1.{label}_blob_whose_corrupt_file_the_stream_manager_deleted', len(d[label]) - len(reported[label]))
    obs = {'pre_disk': pre_disk, 'pre_db': start['pre_db'], 'completed': reported['completed'], 'announced': reported['announced'],
           'post_disk': d['post_disk'], 'post_db': d['post_db']}
    return judge_start(rec, tag, obs, further, ctx, case, point='after-stream-manager-start')


def run_one(rec, case):
    """a chain of epochs (usually one): history (+ optional crash point) on the real code, then two
    fresh-process starts which are judged; returns the failpoint counts of the LAST history when it ran
    to its end (used by the crash-point enumeration)."""
    keys = ('seed', 'nops', 'profile', 'crash')
    epochs = [dict(e) for e in (case.get('prev') or [])] + [{k: case.get(k) for k in keys}]
    work = tempfile.mkdtemp(prefix='h-', dir=_STATE['base'])
    nontrivial, sample, counts, code = False, None, None, None
    claimed = {}            # the harness's own record: sd hash -> content blob hashes of the streams it tied a claim to
    try:
        for ei, ep in enumerate(epochs):
            seed, nops, profile, crash = (ep.get(k) for k in keys)
            this_case = dict(ep, fam='one')
            if ei:
                this_case['prev'] = epochs[:ei]
            hist = gen_history(seed, nops, profile, ei)
            code, lines = run_history(work, hist, seed, crash, ei)
            ctx = {'ops': hist['ops'], 'crash_line': None}
            executed = [ln['op'] for ln in lines if ln['t'] == 'op']
            for ln in lines:
                t = ln['t']
                if t == 'op':
                    rec.hit('op.' + ln['op'])
                elif t == 'raised':
                    rec.log(f"raised.{ln['where']}.{ln['exc']}@{ln['frame']}")
                elif t == 'note':
                    rec.log('note.' + ln['what'])
                elif t == 'crashing':
                    ctx['crash_line'] = ln
                elif t == 'claiming':
                    claimed[ln['sd']] = ln['blobs']
            for op in hist['ops'][:len(executed)]:
                if op[0] == 'del' and not op[2]:
                    rec.hit('op.del_keep_db')
                if op[0] == 'add':
                    rec.hit('add.' + op[1])
            end = [ln for ln in lines if ln['t'] == 'end']
            counts = end[0]['fp'] if end else (ctx['crash_line'] or {}).get('fp', {})
            for k, v in counts.items():
                rec.hit('fp.' + k, v)
            rec.hit('epochs.run')
            if ei:
                rec.hit('epochs.later_epoch_on_used_directory')
            if code == 137:
                rec.hit('crash.fired')
                rec.hit('crash.fired.%s.%s' % (crash[0], crash[1]))
            else:
                if crash:
                    rec.hit('crash.not_reached')
                rec.hit('end.' + (end[0]['how'] if end else 'unknown'))
            # in-process restarts seen during the history
            for n, ob in enumerate(ln for ln in lines if ln['t'] == 'restart'):
                rec.hit('inproc.restarts')
                rec.hit('inproc.same_manager' if ob['hard'] == 'same' else 'inproc.hard' if ob['hard'] else 'inproc.soft')
                for k in blobbook.classify(ob['pre_disk'], ob['pre_db']):
                    rec.hit('class.' + k)
                if not ob['setup_ok']:
                    rec.log('inproc.setup_raised')
                judge_start(rec, f'epoch {ei}: in-process restart #{n + 1}', ob, False, ctx, this_case)
            starts = run_restarts(work, hist['conf']['restart_save_blobs'], with_stream_manager=bool(claimed))
            rec.hit('restart.fresh_process', 2)
            s0 = blobbook.classify(starts[0]['pre_disk'], starts[0]['pre_db'])
            for k in s0:
                rec.hit('class.' + k)
            unrecorded = s0.get('file_without_row', 0) + s0.get('file_with_pending_row', 0)
            if code == 137 and unrecorded:
                rec.hit('crash.left_file_unrecorded')
            if unrecorded or s0.get('finished_row_without_file'):
                nontrivial = True
            judge_start(rec, f'epoch {ei}: first start after the history', starts[0], False, ctx, this_case)
            judge_start(rec, f'epoch {ei}: further restart, nothing changed', starts[1], True, ctx, this_case)
            for st, further, tag in ((starts[0], False, 'first start after the history'),
                                     (starts[1], True, 'further restart, nothing changed')):
                if st.get('daemon'):
                    judge_daemon_start(rec, f'epoch {ei}: {tag}, after the stream manager started', st, further, ctx,
                                       this_case, claimed, hist['conf']['restart_save_blobs'])
            if ei == len(epochs) - 1 and len(rec.samples) < 4 and nontrivial:
                sample = {'case': case, 'ops_last_epoch': hist['ops'][:12], 'conf': hist['conf'], 'history_exit': code,
                          'state_before_first_start': s0, 'completed_first_start': len(starts[0]['completed']),
                          'completed_further_restart': len(starts[1]['completed']),
                          'state_after': blobbook.classify(starts[1]['post_disk'], starts[1]['post_db'])}
        rec.case(json.dumps(epochs), nontrivial=nontrivial, sample=sample)
        return counts if code == 0 else None
    finally:
        shutil.rmtree(work, ignore_errors=True)


def execute(rec, case):
    if 'base' not in _STATE:          # --replay path
        shard_setup(rec, rec.tier)
    fam = case['fam']
    if fam == 'one':
        run_one(rec, case)
        return
    if fam == 'enum':
        base = {'fam': 'one', 'seed': case['seed'], 'nops': case['nops'], 'profile': case['profile'], 'crash': None}
        if case.get('prev'):
            base['prev'] = case['prev']
        counts = run_one(rec, base)
        if counts is None:
            raise RuntimeError('C18 harness: crash-free history did not run to its end')
        complete = True
        npoints = 0
        for key in sorted(counts):
            kind, phase = key.rsplit('.', 1)
            for n in range(1, counts[key] + 1):
                if out_of_time(rec):
                    complete = False
                    break
                run_one(rec, dict(base, crash=[kind, phase, n]))
                npoints += 1
            if not complete:
                break
        rec.hit('enum.histories')
        rec.hit('enum.crash_points', npoints)
        if complete:
            rec.hit('enum.histories_fully_enumerated')
        rec.exhaustive['all_crash_points_of_each_enumerated_history'] = \
            rec.exhaustive.get('all_crash_points_of_each_enumerated_history', True) and complete
        return
    raise RuntimeError(f'unknown case family {fam!r}')

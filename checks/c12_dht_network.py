"""C12 — DHT network: announced blobs findable until expiry; lookups terminate.  [H+M]
N real Nodes (real KademliaProtocol, routing tables, ping queues, refresh loops) on a fully simulated
datagram network under the virtual clock: seeded one-way delay, reordering, duplication; in fault scenarios
loss, dead nodes and HOSTILE scripted repliers.  Oracle H1-H4 (hit guarantee), T1-T2 (termination, output
validity), DESIGN §4 C12.  A network monitor records every delivered response datagram.  Value lookups are made with the
iterative finder AND through Node.accumulate_peers() (the entry point of the blob downloader and of peer_list); hit scenarios go on
after their lookups (more lookups, an announcement by a node that has searched, a node that joins after the announcements)."""
import asyncio
import collections
import hashlib
import ipaddress
import random
import socket

from vlib import boot, vclock
from vlib.ref import bencode as BE

ID = 'C12'
LEVEL = 'exploration'
RULE = ('families: hit = loss-free honest network of N in {2..40} nodes joined through a bootstrap node in a seeded order with per-datagram '
        'delay/reorder/duplication, then announcements from random nodes checked from every other node (iterative finder; one node per blob also through '
        'Node.accumulate_peers), multi-announcer blobs (M > K) looked up by a non-announcer, by an announcer, through accumulate_peers and once more by a random node '
        'after those lookups, then one announcement (neighbouring hash) by each of the two nodes that have searched, looked up by a random node, then (N < 40) a node that '
        'joins after all announcements looks every blob up both ways, '
        'pages = focused sweep: one storer holding n = 1..100 records, one searcher (which then announces the blob itself: stored on the storer, the n others still returned), plus a lookup during which n/2 further records reach the storer '
        '(one between any two datagrams); expiry = announce, 24 h - 1 s, 24 h + 1 s of virtual time; stale = N >= 10: blob announced by one of its K '
        'closest nodes, 24 h + 1 s later by a far node, looked up from every node incl. the one left with only the expired record; '
        'fault = loss in {0.1,0.3,0.6}, dead subset, hostile subset from a 13-entry catalogue (+ cases of their own for kinds added later: repeated_page), node and value lookups from honest nodes; oneway = N in {5,8,12} + a late joiner whose replies to 1-3 nodes are lost while its requests arrive, node lookups from those nodes (existing ids, random keys) while it joins and over the next minutes. '
        'distinct = hash(family, N, delay class, fault mix, hostile kinds, lookup kind); non-trivial = everything except N=2 zero-delay hits')
ASSUMPTIONS = ['datagram network fully simulated (no sockets); one-way delay <= rpc_timeout/2 - eps in hit scenarios (longer is indistinguishable from loss)',
               'virtual clock: all deadlines in virtual seconds; wall-clock watchdog => inconclusive',
               'placement is judged as stated (stored on the K nodes closest to the hash, known finding for larger networks); findability is judged independently and strictly',
               'hostile repliers are scripted from a fixed catalogue; they answer every request they receive']
REQUIRED_HITS = ['H1.lookup_found_announcer', 'H2.checked', 'H3.before_expiry_found', 'H3.after_expiry_gone', 'H3.renewed_found_after_first_expiry', 'H4.multi_announcer_all_found',
                 'H4.page_sweep_checked', 'T1.lookup_terminated', 'T1.with_loss', 'T1.with_dead', 'T1.with_hostile', 'T2.node_results_checked',
                 'T2.value_results_checked', 'T2.oneway_node_results_checked', 'H4.page_sweep_checked_searcher_is_announcer', 'H4.multi_announcer_all_found_by_an_announcer', 'net.duplicates_delivered', 'net.reordered', 'hostile.garbage', 'hostile.endless_pages',
                 'hostile.reserved_ips', 'hostile.own_id_contacts', 'hostile.bad_compact', 'size.2', 'size.40',
                 'H3.holder_of_expired_record_found_fresh_announcer', 'T1.paging_while_records_arrive', 'hostile.repeated_page_served_again',
                 'H1.delivered_by_accumulate_peers', 'H1.late_joiner_found_announcer', 'H1.late_joiner_delivered_by_accumulate_peers',
                 'H4.all_delivered_by_accumulate_peers', 'H4.all_found_again_after_lookups', 'H1.found_announcement_made_after_lookups',
                 'H2.pages_searcher_announcement_stored']
K, ALPHA, RPC = 8, 5, 5.0
MAX_PROBES = 3000      # no honest or merely faulty network of <= 40 nodes needs more probes for one lookup
API_DEADLINE = 300.0   # virtual s an honest loss-free network of <= 41 nodes gets to deliver an announcer through accumulate_peers (lookup + one ping)
HOSTILE = ['garbage', 'wrong_rpc_id', 'contacts_wrong_shape', 'own_id_contacts', 'reserved_ips', 'bad_ports', 'oversized', 'bad_compact',
           'missing_token', 'endless_pages', 'fake_closer_contacts', 'impersonate_key', 'fake_id_real_addr']
HOSTILE_LATER = ['repeated_page']      # kinds added later get cases of their own: the rotation of the older ones (and so their cases) stays as it was


def plan(tier):
    return {'shards': 16, 'budget_s': 55 if tier == 'quick' else 800}


def gen_cases(rng, tier, shard, nshards):
    q = tier == 'quick'
    fams = []
    sizes = [2, 3, 5, 8, 12, 20, 40]
    fams.append([{'fam': 'hit', 'seed': rng.getrandbits(48), 'n': sizes[(i + shard) % len(sizes)]} for i in range(7 if q else 150)])
    fams.append([{'fam': 'pages', 'lo': lo, 'hi': min(100, lo + 6)} for lo in range(1 + 7 * shard, 101, 7 * nshards)] if True else [])
    fams.append([{'fam': 'fault', 'seed': rng.getrandbits(48), 'n': rng.choice([6, 10, 16, 24]),
                  'hostile': [HOSTILE[(i * 3 + shard + j) % len(HOSTILE)] for j in range(rng.choice([1, 2, 3]))],
                  'loss': rng.choice([0, 0, 0.1, 0.3, 0.6]), 'dead': rng.choice([0, 0, 1, 3])} for i in range(20 if q else 600)])
    fams.append([{'fam': 'expiry', 'seed': rng.getrandbits(48), 'n': rng.choice([3, 4, 6] if q else [4, 6, 9])} for _ in range((1 if shard < 6 else 0) if q else 6)])
    # (drawn after the older families so that their descriptors stay what they were for a given seed)
    fams.append([{'fam': 'stale', 'seed': rng.getrandbits(48), 'n': 10 if q else rng.choice([10, 12, 16]), 'blobs': 6}
                 for _ in range((1 if 8 <= shard < 10 else 0) if q else 3)])
    fams.append([{'fam': 'fault', 'seed': rng.getrandbits(48), 'n': rng.choice([6, 10] if q else [6, 10, 16, 24]),
                  'hostile': [HOSTILE_LATER[i % len(HOSTILE_LATER)]] + ([] if q else rng.sample(HOSTILE, rng.choice([0, 1, 2]))),
                  'loss': 0 if q else rng.choice([0, 0, 0.1, 0.3]), 'dead': 0 if q else rng.choice([0, 0, 1])}
                 for i in range((1 if 10 <= shard < 14 else 0) if q else 40)])
    fams.append([{'fam': 'oneway', 'seed': rng.getrandbits(48), 'n': rng.choice([5, 8, 12])}
                 for _ in range((1 if 2 <= shard < 8 else 0) if q else 12)])
    while any(fams):
        for f in fams:
            if f:
                yield f.pop(0)


# ------------------------------------------------------------------------------ simulated datagram network
class SimTransport:
    def __init__(self, net, local):
        self.net, self.local = net, local
        self._closing = False

    def sendto(self, data, addr):
        if not self._closing:
            self.net.send(self.local, tuple(addr), bytes(data))

    def is_closing(self):
        return self._closing

    def close(self):
        self._closing = True
        self.net.protocols.pop(self.local, None)

    def get_extra_info(self, name, default=None):
        return default

    def abort(self):
        self.close()


class SimNet:
    def __init__(self, loop, r, delay=(0.0, 0.0), dup=0.0, loss=0.0):
        self.loop, self.r = loop, r
        self.delay, self.dup, self.loss = delay, dup, loss
        self.protocols = {}
        self.dead = set()
        self.hostile = {}                    # addr -> callable(data, src) -> [reply bytes]
        self.mute = set()                    # (src, dst): response datagrams of src to dst are lost
        self.muted = 0
        self.illformed = set()               # (ip, port) named only by compact addresses of the wrong length that hostile nodes sent
        self.replies_seen = collections.defaultdict(set)      # dst -> {(node_id, src)}
        self.sent = self.delivered = self.dropped = self.duplicated = self.reordered = 0
        self.escaped = collections.Counter()
        self.replayed_pages = 0              # times a 'repeated_page' liar was asked again by the same node for the same key (and served the same page)
        self._last_delivery_due = {}

    def install(self):
        net = self

        async def create_datagram_endpoint(protocol_factory, local_addr=None, **kw):
            proto = protocol_factory()
            tr = SimTransport(net, tuple(local_addr))
            net.protocols[tuple(local_addr)] = proto
            proto.connection_made(tr)
            return tr, proto
        self.loop.create_datagram_endpoint = create_datagram_endpoint

    def send(self, src, dst, data):
        self.sent += 1
        if src in self.dead or dst in self.dead:
            self.dropped += 1
            return
        if (src, dst) in self.mute and data[:7] == b'di0ei1e':      # one-way reachability: src's replies never reach dst (its requests do)
            self.dropped += 1
            self.muted += 1
            return
        if self.loss and self.r.random() < self.loss:
            self.dropped += 1
            return
        if dst in self.hostile:
            for reply in self.hostile[dst](data, src):
                self.loop.call_later(self.r.uniform(*self.delay), self._deliver, dst, src, reply)
            return
        d = self.r.uniform(*self.delay)
        due = self.loop.time() + d
        if due < self._last_delivery_due.get((src, dst), 0):
            self.reordered += 1
        self._last_delivery_due[(src, dst)] = due
        self.loop.call_later(d, self._deliver, src, dst, data)
        if self.dup and self.r.random() < self.dup:
            self.duplicated += 1
            self.loop.call_later(self.r.uniform(*self.delay), self._deliver, src, dst, data)

    def _deliver(self, src, dst, data):
        proto = self.protocols.get(dst)
        if proto is None or proto.transport is None:
            return
        self.delivered += 1
        if data[:7] == b'di0ei1e':        # a response datagram: remember who replied to whom (for T2)
            try:
                m = BE.decode(data, strict=False, int_keys=True)
                if isinstance(m.get(2), bytes):
                    self.replies_seen[dst].add((m[2], src))
            except Exception:  # noqa
                pass
        try:
            proto.datagram_received(data, src)
        except Exception as e:  # noqa  escaping exceptions are C17's subject; counted here
            self.escaped[type(e).__name__] += 1


def pub_ip(i):
    return f'5.{20 + i // 60000}.{(i // 250) % 240 + 1}.{i % 250 + 1}'


def valid_public_peer(address, port):
    """independent validator for value-lookup results"""
    try:
        ip = ipaddress.IPv4Address(address)
    except Exception:  # noqa
        return False
    if ip.is_private or ip.is_loopback or ip.is_link_local or ip.is_multicast or ip.is_reserved or ip.is_unspecified:
        return False
    if ip in ipaddress.ip_network('100.64.0.0/10') or ip in ipaddress.ip_network('192.88.99.0/24'):
        return False
    return isinstance(port, int) and 0 < port < 65536


def make_hostile(kind, r, my_id, net, real_addrs, key_hint):
    """returns callable(data, src) -> list of reply datagrams (bytes)"""
    counter = [0]
    asked = collections.Counter()

    def fresh_compact():
        counter[0] += 1
        ip = bytes([23, (counter[0] >> 16) & 0xff or 1, (counter[0] >> 8) & 0xff, counter[0] & 0xff or 1])
        return ip + (3333).to_bytes(2, 'big') + hashlib.sha384(b'fake%d' % counter[0]).digest()

    def reply(rpc_id, result, node_id=None):
        return BE.encode({0: 1, 1: rpc_id, 2: node_id or my_id, 3: result}, int_keys=True)

    def handler(data, src):
        try:
            m = BE.decode(data, strict=False, int_keys=True)
            rpc_id, sender_id, method, args = m[1], m[2], m[3], m[4]
        except Exception:  # noqa
            return []
        key = args[0] if args and isinstance(args[0], bytes) and len(args[0]) == 48 else key_hint
        honest_contacts = [[hashlib.sha384(b'c%d' % i).digest(), pub_ip(5000 + i).encode(), 4444] for i in range(3)]
        if method == b'ping' and kind not in ('garbage', 'wrong_rpc_id'):
            return [reply(rpc_id, b'pong')]
        if kind == 'garbage':
            return [r.randbytes(r.choice([1, 20, 200])), b'd', b'l', b'di0ei1e']
        if kind == 'wrong_rpc_id':
            return [reply(r.randbytes(20), b'pong' if method == b'ping' else [])]
        if method == b'store':
            return [reply(rpc_id, b'OK')]
        if kind == 'contacts_wrong_shape':
            res = [[b'short', b'1.2.3.4'], 5, [my_id, b'1.2.3.4', 4444, 7], b'xx', [my_id, 1234, 4444], [my_id, b'8.8.8.8', b'port']]
        elif kind == 'own_id_contacts':
            res = [[sender_id, src[0].encode(), src[1]], [sender_id, pub_ip(7000).encode(), 4444], [hashlib.sha384(b'z').digest(), src[0].encode(), src[1]]]
        elif kind == 'reserved_ips':
            res = [[hashlib.sha384(b'r%d' % i).digest(), ip.encode(), 4444] for i, ip in
                   enumerate(['10.0.0.1', '127.0.0.1', '192.168.1.1', '0.0.0.0', '224.0.0.1', '100.64.0.1', '169.254.1.1', '255.255.255.255', '::1', 'nonsense'])]
        elif kind == 'bad_ports':
            res = [[hashlib.sha384(b'p%d' % i).digest(), pub_ip(8000 + i).encode(), p] for i, p in enumerate([0, 70000, -1, 1023, 65536, 2 ** 40])]
        elif kind == 'oversized':
            res = [[hashlib.sha384(b'o%d' % i).digest(), pub_ip(9000 + i).encode(), 4444] for i in range(400)]
        elif kind == 'fake_closer_contacts':
            res = [[bytes(a ^ b for a, b in zip(key, (r.getrandbits(16)).to_bytes(48, 'big'))), pub_ip(10000 + r.randrange(5000)).encode(), 4444]
                   for _ in range(16)]
        elif kind == 'impersonate_key':
            return [reply(rpc_id, honest_contacts if method == b'findNode' else {b'token': b't' * 48, b'contacts': honest_contacts}, node_id=key)]
        elif kind == 'fake_id_real_addr':
            res = [[hashlib.sha384(b'f%d' % i).digest(), a[0].encode(), a[1]] for i, a in enumerate(real_addrs[:8])]
        else:
            res = honest_contacts
        if method == b'findNode':
            return [reply(rpc_id, res)]
        # findValue
        if kind == 'reserved_ips':
            # one reserved class per reply so that a single rejected entry does not mask the others
            counter[0] += 1
            ipb = [bytes([127, 0, 0, 1]), bytes([10, 1, 2, 3]), bytes([192, 168, 0, 9]), bytes([0, 0, 0, 0]), bytes([224, 0, 0, 5]),
                   bytes([100, 64, 0, 1]), bytes([169, 254, 1, 1])][counter[0] % 7]
            return [reply(rpc_id, {b'token': b't' * 48, b'contacts': [], key: [ipb + (3333).to_bytes(2, 'big') + hashlib.sha384(b'rv%d' % i).digest()
                                                                                for i in range(3)], b'p': 1})]
        if kind == 'bad_compact':
            entries = [b'short', b'\x01\x02\x03\x04\x00\x00' + my_id, b'x' * 100,
                       bytes([10, 0, 0, 1]) + (3333).to_bytes(2, 'big') + my_id,
                       bytes([127, 0, 0, 1]) + (3333).to_bytes(2, 'big') + my_id,
                       bytes([45, 45, 7, 1]) + (4444).to_bytes(2, 'big') + my_id + b'\x00',                # a public one with one byte too many
                       bytes([45, 45, 7, 2]) + (4444).to_bytes(2, 'big') + my_id + my_id[:6],
                       bytes([45, 45, 7, 3]) + (4444).to_bytes(2, 'big') + my_id[:-1]]                      # and one byte short
            asked['bad_compact'] += 1
            if asked['bad_compact'] % 2 == 0:
                # every second page holds nothing but public addresses of the wrong length: the finder drops a whole page on the first
                # entry it refuses, so in the mixed page above `short` hides what would become of the longer ones
                entries = [e for e in entries if len(e) > 54]
            for e in entries:
                if len(e) != 54 and len(e) >= 6:          # what a decoder that ignores the length would make of it (seeded break C17-K)
                    net.illformed.add((socket.inet_ntoa(e[:4]), int.from_bytes(e[4:6], 'big')))
            return [reply(rpc_id, {b'token': b't' * 48, b'contacts': [], key: entries, b'p': 1})]
        if kind == 'missing_token':
            return [reply(rpc_id, {b'contacts': honest_contacts})]
        if kind == 'endless_pages':
            return [reply(rpc_id, {b'token': b't' * 48, b'contacts': [], key: [fresh_compact() for _ in range(K)], b'p': 2 ** 40})]
        if kind == 'repeated_page':
            # ignores the page argument: the same full page of well-formed records again and again, two more pages promised
            asked[(src, key)] += 1
            net.replayed_pages += asked[(src, key)] > 1
            return [reply(rpc_id, {b'token': b't' * 48, b'contacts': [], b'p': 3,
                                   key: [bytes([23, 77, 0, i + 1]) + (3333).to_bytes(2, 'big') + hashlib.sha384(b'rp%d' % i).digest() for i in range(K)]})]
        return [reply(rpc_id, {b'token': b't' * 48, b'contacts': res})]
    return handler


# ------------------------------------------------------------------------------ network set-up
async def build_network(loop, net, r, n, order=None, settle=700.0):
    from lbry.dht.node import Node
    from lbry.dht.peer import PeerManager
    nodes = []
    for i in range(n):
        nid = hashlib.sha384(b'node%d-%d' % (i, r.getrandbits(32))).digest()
        node = Node(loop, PeerManager(loop), nid, 4444, 4444, 3333, pub_ip(i), rpc_timeout=RPC)
        nodes.append(node)
    boot_addr = (pub_ip(0), 4444)
    await nodes[0].start_listening(pub_ip(0))
    nodes[0].start(pub_ip(0), [])
    order = order or list(range(1, n))
    for i in order:
        await nodes[i].start_listening(pub_ip(i))
        nodes[i].start(pub_ip(i), [boot_addr])
        await asyncio.sleep(r.choice([0, 0.5, 3]))
    # wait until all joined (bounded in virtual time), then let ping queues drain and routing tables fill
    for _ in range(600):
        if all(nd.joined.is_set() for nd in nodes[1:]) and (n == 1 or nodes[0].protocol.routing_table.get_peers()):
            break
        await asyncio.sleep(1)
    await asyncio.sleep(settle)
    return nodes


def stop_all(nodes):
    for nd in nodes:
        try:
            nd.stop()
        except Exception:  # noqa
            pass


async def value_lookup(loop, node, key, watchdog=2000.0):
    """(union of peers, finished?, probes scheduled, virtual seconds)"""
    finder = node.get_iterative_value_finder(key)
    probes = [0]
    orig = finder._schedule_probe

    runner = []

    def counted(peer):
        probes[0] += 1
        if probes[0] > MAX_PROBES and runner and not runner[0].done():
            runner[0].cancel()          # logical-step watchdog: a liar that answers instantly never lets virtual time advance
        return orig(peer)
    finder._schedule_probe = counted
    found = []
    t0 = loop.time()

    async def run():
        async for peers in finder:
            found.extend(peers)
    runner.append(loop.create_task(run()))
    try:
        await asyncio.wait_for(runner[0], watchdog)
        done = True
    except (asyncio.TimeoutError, asyncio.CancelledError):
        done = False
    await finder.aclose()
    return found, done, probes[0], loop.time() - t0, finder


async def node_lookup(loop, node, key, watchdog=2000.0):
    finder = node.get_iterative_node_finder(key)
    probes = [0]
    orig = finder._schedule_probe

    runner = []

    def counted(peer):
        probes[0] += 1
        if probes[0] > MAX_PROBES and runner and not runner[0].done():
            runner[0].cancel()          # logical-step watchdog: a liar that answers instantly never lets virtual time advance
        return orig(peer)
    finder._schedule_probe = counted
    found = []
    t0 = loop.time()

    async def run():
        async for peers in finder:
            found.extend(peers)
    runner.append(loop.create_task(run()))
    try:
        await asyncio.wait_for(runner[0], watchdog)
        done = True
    except (asyncio.TimeoutError, asyncio.CancelledError):
        done = False
    await finder.aclose()
    return found, done, probes[0], loop.time() - t0, finder


async def api_lookup(loop, node, key, want, deadline=API_DEADLINE):
    """value lookup through Node.accumulate_peers(), the way the blob downloader and peer_list look a blob up: the node's own producer
    task drives the iterative finder and hands over the peers it was given (unknown ones after they answered a ping).  Returns
    ({(address, tcp port)} delivered, virtual seconds); stops as soon as all of `want` were delivered or after `deadline` virtual s."""
    search_queue = asyncio.Queue()
    search_queue.put_nowait(key.hex())
    peer_queue, task = node.accumulate_peers(search_queue)
    got = set()
    t0 = loop.time()
    try:
        while want - got and loop.time() - t0 < deadline:
            try:
                peers = await asyncio.wait_for(peer_queue.get(), t0 + deadline - loop.time())
            except asyncio.TimeoutError:
                break
            got.update((p.address, p.tcp_port) for p in peers)
    finally:
        task.cancel()
        await asyncio.gather(task, return_exceptions=True)
    return got, loop.time() - t0


def xor(a, b):
    return int.from_bytes(a, 'big') ^ int.from_bytes(b, 'big')


# ------------------------------------------------------------------------------ families
async def _hit(rec, case, loop):
    boot.import_lbry()
    r = random.Random(case['seed'])
    r2 = random.Random(case['seed'] ^ 0x5eed)       # choices of the steps added later: the older steps keep drawing what they drew
    n = case['n']
    dclass = r.choice(['zero', 'small', 'max'])
    delay = {'zero': (0.0, 0.0), 'small': (0.0, 0.3), 'max': (0.0, RPC / 2 - 0.1)}[dclass]
    net = SimNet(loop, r, delay=delay, dup=r.choice([0, 0.1, 0.3]))
    net.install()
    order = list(range(1, n))
    r.shuffle(order)
    nodes = await build_network(loop, net, r, n, order)
    try:
        rec.hit(f'size.{n}')
        if not all(nd.joined.is_set() for nd in nodes[1:]):
            rec.violation('C12/H0/node-never-joined', f'{sum(1 for nd in nodes[1:] if not nd.joined.is_set())} of {n} nodes never joined a loss-free honest network',
                          {'n': n, 'delay': dclass})
            return
        ids = [nd.protocol.node_id for nd in nodes]
        nann = min(3, n)
        announced = []
        for a_i in r.sample(range(n), nann):
            if rec.out_of_time():
                break
            blob = hashlib.sha384(b'blob%d' % r.getrandbits(40)).digest()
            announcer = nodes[a_i]
            stored_to = await announcer.announce_blob(blob.hex())
            # H2: every id returned really holds the record; >= 1 of them among the true K closest
            rec.hit('H2.checked')
            by_id = {nd.protocol.node_id: nd for nd in nodes}
            closest = sorted((i for i in ids if i != announcer.protocol.node_id), key=lambda i: xor(i, blob))[:K]
            if n > 1 and not stored_to:
                rec.violation('C12/H2/announce-stored-nowhere', f'announce_blob stored to 0 nodes in a loss-free honest network of {n}', {'n': n, 'delay': dclass})
                return
            for sid in stored_to:
                holder = by_id.get(sid)
                recs = [p for p in holder.protocol.data_store.get_peers_for_blob(blob)] if holder else []
                if not any(p.address == pub_ip(a_i) and p.tcp_port == 3333 for p in recs):
                    rec.violation('C12/H2/reported-storing-node-does-not-hold-record', 'a node id returned by announce_blob does not hold the announcement', {'n': n})
                    return
            overlap = len(set(stored_to) & set(closest))
            rec.note('h2_overlap_example', [overlap, len(closest)])
            rec.hit(f'H2.overlap_{overlap}_of_{len(closest)}')
            if stored_to and overlap < len(closest):
                # the statement says "stored on nodes closest to its hash": judged as stated; findability (H1) is still checked below
                rec.violation('C12/H2/announcement-not-stored-on-the-k-closest-nodes',
                              f'network of {n} honest nodes (delay {dclass}): announcement stored on {len(stored_to)} nodes of which only {overlap} are '
                              f'among the {len(closest)} nodes closest to the hash', {'n': n, 'delay': dclass, 'overlap': overlap, 'k_closest': len(closest)})
            # H1: every other node finds the announcer
            for s_i in range(n):
                if s_i == a_i:
                    continue
                found, done, probes, dt, _ = await value_lookup(loop, nodes[s_i], blob)
                if not done:
                    rec.violation('C12/T1/lookup-did-not-terminate/honest-network', f'value lookup still running after 2000 virtual s in an honest network of {n}', {'n': n})
                    return
                rec.hit('T1.lookup_terminated')
                if any(p.address == pub_ip(a_i) and p.tcp_port == 3333 for p in found):
                    rec.hit('H1.lookup_found_announcer')
                else:
                    rec.violation('C12/H1/announcer-not-found',
                                  f'network of {n} honest nodes (delay {dclass}, dup {net.dup}): node {s_i} did not find announcer {a_i} of a blob stored on '
                                  f'{len(stored_to)} nodes ({overlap} of the {len(closest)} closest); lookup returned {len(found)} peers after {probes} probes',
                                  {'n': n, 'delay': dclass, 'dup': net.dup, 'stored_to': len(stored_to), 'overlap': overlap, 'probes': probes})
                    return
            announced.append((blob, a_i))
            # H1 at the node's own lookup entry point (seeded break C12-J: the raw finder yields the announcer, the producer behind
            # Node.accumulate_peers dropped it): one node, if possible one that was not asked to store the record and so learns the
            # announcer from other nodes' replies (such a peer is handed over only after it answered a ping)
            others = [i for i in range(n) if i != a_i]
            s_i = r2.choice([i for i in others if ids[i] not in stored_to] or others)
            got, dt = await api_lookup(loop, nodes[s_i], blob, {(pub_ip(a_i), 3333)})
            if (pub_ip(a_i), 3333) in got:
                rec.hit('H1.delivered_by_accumulate_peers')
            else:
                rec.violation('C12/H1/announcer-not-delivered-by-accumulate-peers',
                              f'network of {n} honest nodes (delay {dclass}, dup {net.dup}): the iterative finder of node {s_i} yields announcer {a_i}, a lookup of the '
                              f'same blob through Node.accumulate_peers() of node {s_i} delivered {len(got)} peers without it in {dt:.0f} virtual s '
                              f'(searcher {"was not" if ids[s_i] not in stored_to else "was"} asked to store the record)',
                              {'n': n, 'delay': dclass, 'dup': net.dup, 'delivered': len(got), 'searcher_stores_record': ids[s_i] in stored_to})
        multi = None
        # H4: multi-announcer blob
        if n > K + 1:
            blob = hashlib.sha384(b'multi%d' % r.getrandbits(40)).digest()
            announcers = r.sample(range(n), min(n - 1, r.choice([K + 1, 2 * K + 1, n - 1])))
            for a_i in announcers:
                await nodes[a_i].announce_blob(blob.hex())
            searcher = r.choice([i for i in range(n) if i not in announcers] or [announcers[0]])
            found, done, probes, dt, _ = await value_lookup(loop, nodes[searcher], blob)
            got = {p.address for p in found}
            want = {pub_ip(a) for a in announcers if a != searcher}
            if want - got:
                rec.violation('C12/H4/multi-announcer-lookup-misses-some',
                              f'{len(announcers)} announcers of one blob in a network of {n}: lookup from node {searcher} misses {len(want - got)} of them',
                              {'n': n, 'announcers': len(announcers), 'missing': len(want - got), 'probes': probes})
            else:
                rec.hit('H4.multi_announcer_all_found')
            s0 = searcher
            # the same lookup from a node that is itself one of the announcers (seeded break C12-C: the requester's own record was
            # cut out of a page AFTER paging, leaving a short page that ends the paging early)
            searcher = r.choice(announcers)
            found, done, probes, dt, _ = await value_lookup(loop, nodes[searcher], blob)
            got = {p.address for p in found}
            want = {pub_ip(a) for a in announcers if a != searcher}
            if want - got:
                rec.violation('C12/H4/multi-announcer-lookup-misses-some/searcher-is-an-announcer',
                              f'{len(announcers)} announcers of one blob in a network of {n}: lookup from node {searcher}, itself one of them, misses '
                              f'{len(want - got)} of the others', {'n': n, 'announcers': len(announcers), 'missing': len(want - got), 'probes': probes})
            else:
                rec.hit('H4.multi_announcer_all_found_by_an_announcer')
            multi = (blob, announcers)
            # the same blob through Node.accumulate_peers() of a node that is not an announcer (if there is one): every announcer is delivered
            s_i = r2.choice([i for i in range(n) if i not in announcers] or announcers)
            want = {(pub_ip(a), 3333) for a in announcers if a != s_i}
            got, dt = await api_lookup(loop, nodes[s_i], blob, want)
            if want - got:
                rec.violation('C12/H4/multi-announcer-lookup-misses-some/through-accumulate-peers',
                              f'{len(announcers)} announcers of one blob in a network of {n} (delay {dclass}): Node.accumulate_peers() of node {s_i} delivered '
                              f'{len(want & got)} of {len(want)} of them in {dt:.0f} virtual s', {'n': n, 'announcers': len(announcers), 'missing': len(want - got)})
            else:
                rec.hit('H4.all_delivered_by_accumulate_peers')
            # ---- the network AFTER those lookups (seeded break C12-I: a lookup that had seen a whole number of full pages ended with a request
            # the storing node answered with an error; both sides then booked a failure for an honest peer: the storing nodes hid the searcher's
            # own announcement from everybody else, the searcher dropped the storing nodes).  A lookup is a read: whoever looks the blob up next
            # gets every announcer, the one that has just searched included, and that node announces another blob like any other node.
            x = searcher
            y = r2.choice([i for i in range(n) if i != x])
            found, done, probes, dt, _ = await value_lookup(loop, nodes[y], blob)
            got = {p.address for p in found}
            want = {pub_ip(a) for a in announcers if a != y}
            if want - got:
                rec.violation('C12/H4/multi-announcer-lookup-misses-some/after-lookups-by-other-nodes',
                              f'{len(announcers)} announcers of one blob in a network of {n}; after node {s0} and node {x}, one of them, have looked the blob up '
                              f'the lookup from node {y} misses {len(want - got)} of them'
                              f'{" including node %d" % x if pub_ip(x) in want - got else ""}, minutes after the announcements',
                              {'n': n, 'announcers': len(announcers), 'missing': len(want - got), 'misses_the_earlier_searcher': pub_ip(x) in want - got,
                               'probes': probes})
            else:
                rec.hit('H4.all_found_again_after_lookups')
            for k, z in enumerate(dict.fromkeys([s0, x])):        # both nodes that have searched: s0 (not an announcer if there is such a node) and x
                blob2 = blob[:-1] + bytes([blob[-1] ^ (1 + k)])     # a neighbouring hash: same closest nodes
                role = 'itself one of them' if z in announcers else 'not one of them'
                stored_to = await nodes[z].announce_blob(blob2.hex())
                closest = sorted((i for i in ids if i != ids[z]), key=lambda i: xor(i, blob2))[:K]
                overlap = len(set(stored_to) & set(closest))
                if not stored_to:
                    rec.violation('C12/H2/announce-stored-nowhere/after-lookups-by-the-announcing-node',
                                  f'network of {n} honest nodes (delay {dclass}): node {z} looked up a blob with {len(announcers)} announcers ({role}), then '
                                  f'announced a blob with a neighbouring hash: stored to 0 nodes', {'n': n, 'delay': dclass, 'announcers': len(announcers)})
                    continue
                rec.hit(f'H2.after_lookups_overlap_{overlap}_of_{len(closest)}')
                if overlap < len(closest):
                    # same clause, same key as for the first announcements (known finding for the larger networks)
                    rec.violation('C12/H2/announcement-not-stored-on-the-k-closest-nodes',
                                  f'network of {n} honest nodes (delay {dclass}): announcement (made after lookups by the announcing node) stored on {len(stored_to)} '
                                  f'nodes of which only {overlap} are among the {len(closest)} nodes closest to the hash',
                                  {'n': n, 'delay': dclass, 'overlap': overlap, 'k_closest': len(closest), 'after_lookups': True})
                y = r2.choice([i for i in range(n) if i != z])
                found, done, probes, dt, _ = await value_lookup(loop, nodes[y], blob2)
                if any(p.address == pub_ip(z) and p.tcp_port == 3333 for p in found):
                    rec.hit('H1.found_announcement_made_after_lookups')
                else:
                    rec.violation('C12/H1/announcer-not-found/announced-after-lookups-by-the-announcing-node',
                                  f'network of {n} honest nodes (delay {dclass}): node {z} looked up a blob with {len(announcers)} announcers ({role}), then '
                                  f'announced a blob with a neighbouring hash (stored on {len(stored_to)} nodes, {overlap} of the {len(closest)} closest): node {y} '
                                  f'does not find it, lookup returned {len(found)} peers after {probes} probes',
                                  {'n': n, 'delay': dclass, 'announcers': len(announcers), 'stored_to': len(stored_to), 'overlap': overlap, 'probes': probes,
                                   'announcing_node_is_an_announcer_of_the_first_blob': z in announcers})
        # ---- join orders: a node that joins AFTER the announcements (it stores none of them, whatever it is given comes from other nodes'
        # replies) looks every blob up, with the iterative finder and through Node.accumulate_peers()
        if n < 40 and announced and not rec.out_of_time():
            from lbry.dht.node import Node
            from lbry.dht.peer import PeerManager
            late = Node(loop, PeerManager(loop), hashlib.sha384(b'late%d-%d' % (n, r2.getrandbits(32))).digest(), 4444, 4444, 3333, pub_ip(n), rpc_timeout=RPC)
            nodes.append(late)          # stopped with the others
            await late.start_listening(pub_ip(n))
            late.start(pub_ip(n), [(pub_ip(0), 4444)])
            for _ in range(600):
                if late.joined.is_set():
                    break
                await asyncio.sleep(1)
            if not late.joined.is_set():
                rec.violation('C12/H0/node-never-joined/joined-after-announcements', f'a node started 600 virtual s ago has not joined a loss-free honest network of {n}',
                              {'n': n, 'delay': dclass})
                return
            await asyncio.sleep(30)
            for blob, a_i in announced:
                found, done, probes, dt, _ = await value_lookup(loop, late, blob)
                if any(p.address == pub_ip(a_i) and p.tcp_port == 3333 for p in found):
                    rec.hit('H1.late_joiner_found_announcer')
                else:
                    rec.violation('C12/H1/announcer-not-found/searcher-joined-after-the-announcement',
                                  f'network of {n} honest nodes (delay {dclass}, dup {net.dup}) + one that joined after the announcements: it did not find announcer '
                                  f'{a_i}; lookup {"returned" if done else "still running, had returned"} {len(found)} peers after {probes} probes',
                                  {'n': n, 'delay': dclass, 'dup': net.dup, 'probes': probes, 'terminated': done})
                    continue
                got, dt = await api_lookup(loop, late, blob, {(pub_ip(a_i), 3333)})
                if (pub_ip(a_i), 3333) in got:
                    rec.hit('H1.late_joiner_delivered_by_accumulate_peers')
                else:
                    rec.violation('C12/H1/announcer-not-delivered-by-accumulate-peers/searcher-joined-after-the-announcement',
                                  f'network of {n} honest nodes (delay {dclass}, dup {net.dup}) + one that joined after the announcements: its iterative finder yields '
                                  f'announcer {a_i}, a lookup of the same blob through its Node.accumulate_peers() delivered {len(got)} peers without it in '
                                  f'{dt:.0f} virtual s', {'n': n, 'delay': dclass, 'dup': net.dup, 'delivered': len(got)})
            if multi:
                blob, announcers = multi
                found, done, probes, dt, _ = await value_lookup(loop, late, blob)
                want = {pub_ip(a) for a in announcers}
                if want - {p.address for p in found}:
                    rec.violation('C12/H4/multi-announcer-lookup-misses-some/searcher-joined-after-the-announcements',
                                  f'{len(announcers)} announcers of one blob in a network of {n}: the lookup from a node that joined after the announcements misses '
                                  f'{len(want - {p.address for p in found})} of them', {'n': n, 'announcers': len(announcers), 'probes': probes})
                else:
                    rec.hit('H4.late_joiner_found_all')
        if net.duplicated:
            rec.hit('net.duplicates_delivered')
        if net.reordered:
            rec.hit('net.reordered')
        for name, cnt in net.escaped.items():
            rec.log(f'exception_escaped_datagram_received.{name}', cnt)
        rec.case(['hit', n, dclass, net.dup > 0], nontrivial=not (n == 2 and dclass == 'zero'),
                 sample={'family': 'hit', 'nodes': n, 'delay': dclass, 'dup_p': net.dup, 'datagrams_sent': net.sent, 'delivered': net.delivered,
                         'duplicated': net.duplicated, 'reordered': net.reordered, 'virtual_seconds': round(loop.time() - 1_000_000.0, 1)})
    finally:
        stop_all(nodes)


async def _pages(rec, case, loop):
    """H4 focused sweep: one storing node holding n records, one searcher: the lookup must return all n."""
    boot.import_lbry()
    from lbry.dht.peer import make_kademlia_peer
    r = random.Random(case['lo'])
    net = SimNet(loop, r)
    net.install()
    nodes = await build_network(loop, net, r, 2, settle=5.0)
    try:
        storer, searcher = nodes
        for n in range(case['lo'], case['hi'] + 1):
            key = hashlib.sha384(b'pages%d' % n).digest()
            want = set()
            for i in range(n):
                p = make_kademlia_peer(hashlib.sha384(b'ann%d-%d' % (n, i)).digest(), pub_ip(20000 + n * 128 + i), 4444, 3333)
                storer.protocol.data_store.add_peer_to_blob(p, key)
                want.add(p.address)
            found, done, probes, dt, _ = await value_lookup(loop, searcher, key)
            rec.hit('H4.page_sweep_checked')
            got = {p.address for p in found}
            rec.case(['pages', n], sample={'family': 'pages', 'records': n, 'returned': len(got & want), 'probes': probes} if n % 25 == 0 else None)
            if want - got:
                rec.violation('C12/H4/paging-loses-records', f'one storing node holds {n} announcers for a blob, the lookup returned {len(got & want)} of them '
                              f'({probes} probes)', {'n': n, 'returned': len(got & want), 'probes': probes})
            # again after the searcher has itself announced the blob to the storer (n + 1 records, the requester's own is left out of
            # the replies): every one of the n others must still come back
            stored_to = await searcher.announce_blob(key.hex())
            if storer.protocol.node_id in stored_to:
                rec.hit('H2.pages_searcher_announcement_stored')
            else:
                # H2 after a history: the searching node has looked up this and the smaller blobs before, now it announces one itself; the
                # only other node of this honest loss-free network is the place to store it (what announce_blob reports is judged, the
                # storing node's data store is only read for the log below)
                rec.violation('C12/H2/announce-stored-nowhere/after-lookups-by-the-announcing-node',
                              f'honest loss-free network of 2: the node that has just looked up a blob with {n} announcers (all held by the other node, all returned: '
                              f'{not want - got}) announces the blob itself: announce_blob stored it on {len(stored_to)} nodes',
                              {'n': n, 'stored_to': len(stored_to), 'lookup_was_complete': not want - got})
                continue
            if not any(p.address == pub_ip(1) for p in storer.protocol.data_store.get_peers_for_blob(key)):
                rec.log('pages.searcher_announcement_not_stored')
                continue
            found, done, probes, dt, _ = await value_lookup(loop, searcher, key)
            rec.hit('H4.page_sweep_checked_searcher_is_announcer')
            got = {p.address for p in found}
            if want - got:
                rec.violation('C12/H4/paging-loses-records/searcher-is-an-announcer',
                              f'one storing node holds {n} announcers for a blob plus the searching node\'s own announcement, the lookup returned '
                              f'{len(got & want)} of the {n} others ({probes} probes)', {'n': n, 'returned': len(got & want), 'probes': probes})
            # records ARRIVING WHILE a lookup pages through them (schedules: an announcement of a further node reaches the storing node
            # between two page requests).  The storing node hands out pages of a shuffled record list, every new record changes the
            # permutation, so the next page overlaps the previous ones.  One-way delay 0.05 s, one record stored in the middle between any
            # two consecutive datagrams of the lookup.  Judged: the racing lookup terminates (T1) and yields only records the storer was
            # given (T2); how many of the records present at its start it returns is logged only (the statement promises "all of them" for
            # the peers that hold the blob, not for a set that changes under the lookup); a lookup after the last arrival gets all n (H4).
            key = hashlib.sha384(b'race%d' % n).digest()
            peers = [make_kademlia_peer(hashlib.sha384(b'rann%d-%d' % (n, i)).digest(), pub_ip(40000 + n * 128 + i), 4444, 3333) for i in range(n)]
            late = n // 2
            for p in peers[:n - late]:
                storer.protocol.data_store.add_peer_to_blob(p, key)

            async def arrivals():
                await asyncio.sleep(0.025)
                for p in peers[n - late:]:
                    storer.protocol.data_store.add_peer_to_blob(p, key)
                    await asyncio.sleep(0.05)
            net.delay = (0.05, 0.05)
            arriving = loop.create_task(arrivals())
            found, done, probes, dt, _ = await value_lookup(loop, searcher, key)
            await arriving
            net.delay = (0.0, 0.0)
            if not done:
                rec.violation('C12/T1/lookup-did-not-terminate/records-arrive-during-paging',
                              f'one storing node holds {n - late} announcers for a blob and receives {late} more, one between any two datagrams of a running '
                              f'lookup: the lookup was still running after {dt:.0f} virtual s / {probes} probes (honest loss-free network of 2)',
                              {'n': n, 'present_at_start': n - late, 'arriving': late, 'probes': probes})
                return
            rec.hit('T1.paging_while_records_arrive')
            got = {p.address for p in found}
            if got - {p.address for p in peers}:
                rec.violation('C12/T2/value-lookup-yielded-peer-nobody-announced', f'lookup racing {late} arriving records yielded {len(got)} peers of which '
                              f'{len(got - {p.address for p in peers})} were never stored', {'n': n})
            if {p.address for p in peers[:n - late]} - got:
                rec.log('pages.racing_lookup_missed_records_present_at_its_start')
            found, done, probes, dt, _ = await value_lookup(loop, searcher, key)
            got = {p.address for p in found}
            if {p.address for p in peers} - got:
                rec.violation('C12/H4/paging-loses-records/after-records-arrived-during-a-lookup',
                              f'one storing node holds {n} announcers for a blob, {late} of them arrived during an earlier lookup of the same node: the next lookup '
                              f'returned {len(got)} of them ({probes} probes)', {'n': n, 'returned': len(got), 'probes': probes})
        rec.exhaustive['page_sweep_%d_%d' % (case['lo'], case['hi'])] = True
    finally:
        stop_all(nodes)


async def _expiry(rec, case, loop):
    boot.import_lbry()
    r = random.Random(case['seed'])
    n = case['n']
    net = SimNet(loop, r)           # zero delay: lookups take no virtual time, so "24 h +- 1 s" is exact
    net.install()
    nodes = await build_network(loop, net, r, n)
    try:
        a_i = r.randrange(n)
        blob = hashlib.sha384(b'exp%d' % r.getrandbits(40)).digest()
        t_first = loop.time()
        stored_to = await nodes[a_i].announce_blob(blob.hex())
        t_last = loop.time()
        if not stored_to and n > 1:
            rec.violation('C12/H2/announce-stored-nowhere', f'announce_blob stored to 0 nodes (network of {n})', {'n': n})
            return
        others = [i for i in range(n) if i != a_i]
        await asyncio.sleep(t_first + 86400 - 1 - loop.time())
        for s_i in others:
            found, done, probes, dt, _ = await value_lookup(loop, nodes[s_i], blob)
            if any(p.address == pub_ip(a_i) for p in found):
                rec.hit('H3.before_expiry_found')
            else:
                rec.violation('C12/H3/announcement-lost-before-24h', f'at age 24 h - 1 s (no re-announce) node {s_i} no longer finds the announcer (network of {n})',
                              {'n': n, 'stored_to': len(stored_to)})
                return
        await asyncio.sleep(t_last + 86400 + 1 - loop.time())
        for s_i in others:
            found, done, probes, dt, _ = await value_lookup(loop, nodes[s_i], blob)
            if any(p.address == pub_ip(a_i) for p in found):
                rec.violation('C12/H3/announcement-still-returned-after-24h', f'at age 24 h + 1 s node {s_i} still gets the announcer (network of {n})', {'n': n})
                return
            rec.hit('H3.after_expiry_gone')
        # ---- renewal (added after seeded break C12-A): a re-announcement from the same node makes the record young again.
        # announce at t0, re-announce at t0 + 12 h: at (t0 + 24 h + 1 s) the newest announcement is 12 h old -> must be found;
        # at (re-announce + 24 h + 1 s) it is gone.
        blob2 = hashlib.sha384(b'renew%d' % r.getrandbits(40)).digest()
        t0 = loop.time()
        st1 = await nodes[a_i].announce_blob(blob2.hex())
        t0_last = loop.time()
        await asyncio.sleep(t0 + 12 * 3600 - loop.time())
        t1 = loop.time()
        st2 = await nodes[a_i].announce_blob(blob2.hex())
        t1_last = loop.time()
        if st1 and st2:
            await asyncio.sleep(t0_last + 86400 + 1 - loop.time())
            missed = []
            for s_i in others:
                found, done, probes, dt, _ = await value_lookup(loop, nodes[s_i], blob2)
                if not any(p.address == pub_ip(a_i) for p in found):
                    missed.append(s_i)
            if missed:
                rec.violation('C12/H3/renewed-announcement-lost-24h-after-the-first-one',
                              f're-announced 12 h ago (first announced 24 h + 1 s ago): {len(missed)} of {len(others)} nodes no longer find the announcer '
                              f'(network of {n})', {'n': n, 'missed': len(missed)})
                return
            rec.hit('H3.renewed_found_after_first_expiry')
            await asyncio.sleep(t1_last + 86400 + 1 - loop.time())
            for s_i in others:
                found, done, probes, dt, _ = await value_lookup(loop, nodes[s_i], blob2)
                if any(p.address == pub_ip(a_i) for p in found):
                    rec.violation('C12/H3/announcement-still-returned-after-24h', f'24 h + 1 s after the re-announcement node {s_i} still gets the announcer', {'n': n})
                    return
            rec.hit('H3.renewed_gone_after_renewal_expiry')
        rec.case(['expiry', n], sample={'family': 'expiry', 'nodes': n, 'stored_to': len(stored_to), 'virtual_hours': round((loop.time() - t_first) / 3600, 2),
                                         'datagrams': net.sent})
    finally:
        stop_all(nodes)


async def _stale(rec, case, loop):
    """H1/H3 with a history on the SEARCHING node: it stored an earlier announcement of the blob that has meanwhile turned 24 h old (the hourly
    purge has not run since), and a fresh announcement by another node went to OTHER nodes only.  First announcer = one of the K nodes closest
    to the hash (its K storing nodes reach rank K + 1), second announcer = a node beyond rank K + 1 (storing nodes = ranks 1..K): the node of
    rank K + 1 is left with nothing but the expired record.  Every node but the fresh announcer must find it, nobody gets the expired one."""
    boot.import_lbry()
    r = random.Random(case['seed'])
    n = case['n']
    net = SimNet(loop, r)           # zero delay: lookups take no virtual time, so "24 h + 1 s" is exact
    net.install()
    nodes = await build_network(loop, net, r, n)
    try:
        ids = [nd.protocol.node_id for nd in nodes]
        idx = {nid: i for i, nid in enumerate(ids)}
        plan_ = []
        for _ in range(case['blobs']):
            blob = hashlib.sha384(b'stale%d' % r.getrandbits(40)).digest()
            ranked = sorted(range(n), key=lambda i: xor(ids[i], blob))
            a1, a2 = ranked[r.randrange(K)], ranked[r.randrange(K + 1, n)]
            st1 = await nodes[a1].announce_blob(blob.hex())
            if not st1:
                rec.violation('C12/H2/announce-stored-nowhere', f'announce_blob stored to 0 nodes (network of {n})', {'n': n})
                return
            plan_.append((blob, a1, a2, {idx[s] for s in st1 if s in idx}))
        t_last = loop.time()
        await asyncio.sleep(t_last + 86400 + 1 - loop.time())
        for blob, a1, a2, st1 in plan_:
            st2 = {idx[s] for s in await nodes[a2].announce_blob(blob.hex()) if s in idx}
            if not st2:
                rec.violation('C12/H2/announce-stored-nowhere', f'announce_blob stored to 0 nodes (network of {n})', {'n': n})
                return
            # what the harness itself did decides who is a holder of nothing but the expired record; the data store is only read for the log
            holders = st1 - st2 - {a1, a2}
            for s_i in range(n):
                if s_i == a2:
                    continue
                found, done, probes, dt, _ = await value_lookup(loop, nodes[s_i], blob)
                if not done:
                    rec.violation('C12/T1/lookup-did-not-terminate/honest-network', f'value lookup still running after 2000 virtual s in an honest network of {n}', {'n': n})
                    return
                rec.hit('T1.lookup_terminated')
                if s_i != a1 and any(p.address == pub_ip(a1) for p in found):
                    rec.violation('C12/H3/announcement-still-returned-after-24h', f'at age 24 h + 1 s node {s_i} still gets the first announcer (network of {n}, '
                                  f'the blob was announced again by another node)', {'n': n, 'searcher_stored_first': s_i in st1, 'searcher_stored_second': s_i in st2})
                    return
                if any(p.address == pub_ip(a2) and p.tcp_port == 3333 for p in found):
                    rec.hit('H1.lookup_found_announcer')
                    if s_i in holders:
                        rec.hit('H3.holder_of_expired_record_found_fresh_announcer')
                        if not nodes[s_i].protocol.data_store.has_peers_for_blob(blob):
                            rec.log('stale.expired_record_already_purged')
                elif s_i in holders:
                    rec.violation('C12/H3/fresh-announcement-not-found-by-holder-of-expired-record',
                                  f'network of {n} honest nodes: node {s_i} stored an announcement of the blob 24 h + 1 s ago (expired, hourly purge not yet run); '
                                  f'a fresh announcement by node {a2} is stored on {len(st2)} other nodes, but the lookup from node {s_i} returned '
                                  f'{len(found)} peers after {probes} probes', {'n': n, 'stored_second': len(st2), 'returned': len(found), 'probes': probes})
                    return
                else:
                    rec.violation('C12/H1/announcer-not-found',
                                  f'network of {n} honest nodes: node {s_i} did not find announcer {a2} of a blob stored on {len(st2)} nodes (an earlier announcement '
                                  f'by node {a1} is 24 h + 1 s old); lookup returned {len(found)} peers after {probes} probes',
                                  {'n': n, 'stored_to': len(st2), 'probes': probes, 'searcher_stored_first': s_i in st1, 'searcher_stored_second': s_i in st2})
                    return
        rec.case(['stale', n], sample={'family': 'stale', 'nodes': n, 'blobs': len(plan_), 'virtual_hours': round((loop.time() - t_last) / 3600, 2),
                                        'datagrams': net.sent})
    finally:
        stop_all(nodes)


async def _oneway(rec, case, loop):
    """T2 for node lookups where it is hard: a late joiner W whose *replies* never reach some nodes S (one-way reachability) while its
    requests do, so S keeps hearing from a node that has never answered it.  S looks up ids of existing nodes (the lookup ends as soon as a
    reply names the key, with contacts it has not probed yet in its list) and random keys, while W joins and afterwards.  Seeded break
    C12-K counted a received request as proof of life; the oracle is the one of the fault family: replies S really received."""
    boot.import_lbry()
    from lbry.dht.node import Node
    from lbry.dht.peer import PeerManager
    r = random.Random(case['seed'])
    n = case['n']
    net = SimNet(loop, r, delay=(0.0, r.choice([0.0, 0.3, 1.0])))
    net.install()
    nodes = await build_network(loop, net, r, n, settle=300.0)
    w = None
    try:
        deaf = r.sample(range(1, n), r.randrange(1, min(4, n - 1)))
        w_addr = (pub_ip(n), 4444)
        for s_i in deaf:
            net.mute.add((w_addr, (pub_ip(s_i), 4444)))
        w = Node(loop, PeerManager(loop), hashlib.sha384(b'oneway%d' % r.getrandbits(32)).digest(), 4444, 4444, 3333, pub_ip(n), rpc_timeout=RPC)
        await w.start_listening(pub_ip(n))
        w.start(pub_ip(n), [(pub_ip(0), 4444)])
        ids = [nd.protocol.node_id for nd in nodes] + [w.protocol.node_id]
        for rnd in range(8):
            # short waits while W joins; long ones so that the 300 s ping queues run (the others adopt W, S pings it in vain)
            await asyncio.sleep(r.choice([0.2, 1, 3, 10, 40, 150, 320]))
            if rec.out_of_time():
                break
            for s_i in deaf:
                searcher = nodes[s_i]
                my_addr = (pub_ip(s_i), 4444)
                for key in r.sample([i for i in ids if i != searcher.protocol.node_id], 2) + [hashlib.sha384(b'ow%d' % r.getrandbits(30)).digest()]:
                    found, done, probes, dt, finder = await node_lookup(loop, searcher, key, watchdog=1500.0)
                    if not done:
                        rec.violation('C12/T1/lookup-did-not-terminate/node/one-way-reachable-node',
                                      f'node lookup still running after 1500 virtual s ({probes} probes); network of {n}+1', {'n': n, 'probes': probes})
                        continue
                    rec.hit('T1.lookup_terminated')
                    rec.hit('T2.oneway_node_results_checked')
                    if any((p.address, p.udp_port) == w_addr for p in finder.active):
                        rec.hit('T2.oneway_mute_node_was_in_the_finished_lookups_list')
                    for p in found:
                        if p.node_id == searcher.protocol.node_id:
                            rec.violation('C12/T2/node-lookup-yielded-the-searcher', 'node lookup yielded the searching node itself', {'family': 'oneway'})
                            break
                        if (p.node_id, (p.address, p.udp_port)) not in net.replies_seen[my_addr]:
                            mech = 'one-way-reachable-node' if (p.address, p.udp_port) == w_addr else 'never-replied'
                            rec.violation(f'C12/T2/node-lookup-yielded-contact-that-never-replied/{mech}',
                                          f'node lookup yielded {p.node_id.hex()[:8]}@{p.address}:{p.udp_port} from which the searcher never received a reply '
                                          f'({mech}: its requests arrive, its replies are lost)', {'family': 'oneway', 'mech': mech, 'n': n})
                            break
        if net.muted:
            rec.hit('net.oneway_replies_dropped')
        rec.case(['oneway', n, len(deaf)], sample={'family': 'oneway', 'nodes': n + 1, 'deaf_to_late_joiner': len(deaf), 'replies_dropped': net.muted})
    finally:
        stop_all(nodes + ([w] if w else []))


async def _fault(rec, case, loop):
    boot.import_lbry()
    r = random.Random(case['seed'])
    n = case['n']
    net = SimNet(loop, r, delay=(0.0, r.choice([0.0, 0.5, 2.0])), dup=r.choice([0, 0.2]))
    net.install()
    nodes = await build_network(loop, net, r, n, settle=400.0)
    try:
        honest = list(range(n))
        real_addrs = [(pub_ip(i), 4444) for i in range(n)]
        # hostile nodes take over existing identities (they were honest while joining, so everybody knows them)
        hostile_idx = r.sample(range(1, n), min(len(case['hostile']), n - 2))
        key_hint = hashlib.sha384(b'hint').digest()
        for hi, kind in zip(hostile_idx, case['hostile']):
            nd = nodes[hi]
            addr = (pub_ip(hi), 4444)
            nd.stop()
            net.hostile[addr] = make_hostile(kind, r, nd.protocol.node_id, net, real_addrs, key_hint)
            honest.remove(hi)
            rec.hit('hostile.' + kind)
        dead_idx = r.sample([i for i in honest if i != 0], min(case['dead'], max(0, len(honest) - 2)))
        for di in dead_idx:
            net.dead.add((pub_ip(di), 4444))
            honest.remove(di)
        net.loss = case['loss']
        # an announcement made under faults (best effort), then lookups from honest nodes
        blob = hashlib.sha384(b'fblob%d' % r.getrandbits(40)).digest()
        announcer = r.choice(honest)
        try:
            await asyncio.wait_for(nodes[announcer].announce_blob(blob.hex()), 3000)
        except asyncio.TimeoutError:
            rec.violation('C12/T1/announce-did-not-terminate/' + '+'.join(sorted(case['hostile'])), 'announce_blob still running after 3000 virtual s', dict(case))
            return
        except Exception as e:  # noqa
            rec.log('announce_raised.' + type(e).__name__)
        for s_i in r.sample(honest, min(3, len(honest))):
            if rec.out_of_time():
                break
            searcher = nodes[s_i]
            my_addr = (pub_ip(s_i), 4444)
            for kind_l, key in (('value', blob), ('node', hashlib.sha384(b'target%d' % r.getrandbits(30)).digest()), ('value', key_hint)):
                fn = value_lookup if kind_l == 'value' else node_lookup
                found, done, probes, dt, finder = await fn(loop, searcher, key, watchdog=1500.0)
                faults = '+'.join(sorted(set(case['hostile'])))
                if not done:
                    if kind_l == 'value' and 'endless_pages' in case['hostile']:
                        faults = 'endless-page-liar'
                    elif kind_l == 'value' and 'repeated_page' in case['hostile']:
                        faults = 'repeated-page-liar'
                    rec.violation(f'C12/T1/lookup-did-not-terminate/{kind_l}/{faults}',
                                  f'{kind_l} lookup from an honest node still running after 1500 virtual s or {MAX_PROBES} probes ({probes} probes scheduled); network of {n}, '
                                  f'hostile {case["hostile"]}, dead {len(dead_idx)}, loss {case["loss"]}',
                                  {'n': n, 'hostile': case['hostile'], 'dead': len(dead_idx), 'loss': case['loss'], 'probes': probes})
                    continue
                rec.hit('T1.lookup_terminated')
                if case['loss']:
                    rec.hit('T1.with_loss')
                if dead_idx:
                    rec.hit('T1.with_dead')
                rec.hit('T1.with_hostile')
                # sound bound: at least one probe is in flight until the search is exhausted, each probe ends within one rpc
                # timeout (+ two one-way delays); alpha-parallelism only makes it faster
                bound = (probes + 2) * (RPC + 2 * net.delay[1])
                if dt > bound + 1e-6:
                    rec.violation(f'C12/T1/lookup-slower-than-bound/{kind_l}', f'{kind_l} lookup took {dt:.1f} virtual s for {probes} probes; bound {bound:.1f}',
                                  {'dt': dt, 'probes': probes, 'bound': bound, 'hostile': case['hostile']})
                if kind_l == 'node':
                    rec.hit('T2.node_results_checked')
                    for p in found:
                        if p.node_id == searcher.protocol.node_id:
                            rec.violation('C12/T2/node-lookup-yielded-the-searcher', 'node lookup yielded the searching node itself', {'hostile': case['hostile']})
                            break
                        if (p.node_id, (p.address, p.udp_port)) not in net.replies_seen[my_addr]:
                            replied_addr = any(a == (p.address, p.udp_port) for _, a in net.replies_seen[my_addr])
                            mech = 'address-replied-under-another-id' if replied_addr else 'never-replied'
                            rec.violation(f'C12/T2/node-lookup-yielded-contact-that-never-replied/{mech}',
                                          f'node lookup yielded {p.node_id.hex()[:8]}@{p.address}:{p.udp_port} from which the searcher never received a reply '
                                          f'({mech}); hostile {case["hostile"]}', {'hostile': case['hostile'], 'mech': mech})
                            break
                else:
                    rec.hit('T2.value_results_checked')
                    for p in found:
                        if (p.address, p.tcp_port) in net.illformed:
                            rec.violation('C12/T2/value-lookup-yielded-peer-from-ill-formed-compact-address',
                                          f'value lookup yielded {p.address}:{p.tcp_port}, which only a compact address of the wrong length named',
                                          {'address': p.address, 'port': p.tcp_port, 'hostile': case['hostile']})
                            break
                        if not valid_public_peer(p.address, p.tcp_port):
                            rec.violation('C12/T2/value-lookup-yielded-invalid-peer-address', f'value lookup yielded {p.address}:{p.tcp_port}',
                                          {'address': p.address, 'port': p.tcp_port, 'hostile': case['hostile']})
                            break
        if net.replayed_pages:
            rec.hit('hostile.repeated_page_served_again')
        for name, cnt in net.escaped.items():
            rec.log(f'exception_escaped_datagram_received.{name}', cnt)
        rec.case(['fault', n, sorted(case['hostile']), case['loss'] > 0, len(dead_idx)],
                 sample={'family': 'fault', 'nodes': n, 'hostile': case['hostile'], 'dead': len(dead_idx), 'loss': case['loss'],
                         'datagrams_sent': net.sent, 'dropped': net.dropped, 'escaped': dict(net.escaped)})
    finally:
        stop_all(nodes)


def execute(rec, case):
    fam = {'hit': _hit, 'pages': _pages, 'expiry': _expiry, 'stale': _stale, 'fault': _fault, 'oneway': _oneway}[case['fam']]
    random.seed(case.get('seed', case.get('lo', 0)))      # routing-table refresh draws ids from the global PRNG
    boot.import_lbry()
    from lbry.dht import peer as _peer
    _peer.make_kademlia_peer.cache_clear()                # shared, mutable KademliaPeer objects must not leak between cases
    vclock.run(lambda loop: fam(rec, case, loop), wall_timeout=400)

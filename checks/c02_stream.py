"""C02 — stream publish/decrypt round trip and descriptor commitments.  [DIFF]

Real `StreamDescriptor.create_stream` on real temp files, real `BlobFile.decrypt`,
`decrypt_blob_bytes` and `StreamDownloader.read_blob` (real BlobManager) for decryption, real
`from_stream_descriptor_blob` on published / synthetic / tampered descriptor blobs, real
`sanitize_file_name`; judged against vlib/ref/stream.py (own SHA-384 commitments, own CBC
chaining + manual PKCS7, own consistency classifier) and `hashlib`.  Download side: valid descriptors
written by a FOREIGN publisher (reference-built blobs, any string as hash-committed suggested name) are
handed to the real `ManagedStream` (real Config / SQLiteStorage / BlobManager); the names it suggests,
the name of the file it writes, the stored file row and the saved bytes are judged.
"""
import asyncio
import copy
import hashlib
import json
import os
import random
import shutil
import sqlite3
import tempfile

from vlib import boot
from vlib.ref import stream as ref

ID = 'C02'
LEVEL = 'exploration'
RULE = ('publish cases: (size class incl. 1/15/16/17, MAX-2..MAX+1, 2(MAX-1), 2(MAX-1)+1, random) x content kind x '
        'key kind x IV sequence kind x old_sort x hostile file name; tamper cases: one valid descriptor (published, '
        'synthetic 1..8 data blobs, or main-net fixture) x the whole tampering catalogue at first/middle/last/'
        'terminator, each with stale and with re-computed stream hash; name cases: strings from a hostile-name '
        'generator; download cases: valid reference-built stream of a foreign publisher x hostile name in the '
        'descriptor (or blank descriptor name + hostile claim source name) x history (save_file / start(save_now) / '
        'start, save_file / start, stop, reloaded with descriptor, save_file).  distinct = hash(file bytes digest, key, '
        'ivs, name) / hash(tampered sd bytes) / the string / hash(sd bytes, history); '
        'non-trivial = every publish, every tampering that changed the bytes, every name, every download')
ASSUMPTIONS = [
    '"2 MiB" = 2*2**20 bytes; "control character" = U+0001..U+001F (DEL and C1 are logged, not judged)',
    'a tampering is judged only when the reference classifies it inconsistent (invalid JSON / missing field / '
    'numbering / terminator / literal stream-hash mismatch); JSON type confusion, hex-case respelling and the '
    'concatenation ambiguities of the legacy commitment leave the stated criterion satisfied and are only logged',
    'publishing with a repeating IV a file whose chunks repeat (two blobs with identical ciphertext) and publishing '
    'a file whose name is not valid UTF-8 are logged, not judged',
    'SHA-384 from hashlib and the single-block AES primitive of `cryptography` are trusted; JSON validity = Python json',
    'download side: "the file name suggested for saving" = ManagedStream.suggested_file_name and .file_name when the user '
    'gave no name, the directory entry save_file() writes and the file name stored for the next start; a save that does '
    'not complete (name too long for the file system, ...) is logged, not judged; a descriptor with a blank name is only '
    'driven together with a claim (as the daemon always does)',
]
REQUIRED_HITS = [
    'R1.stream_roundtrip_checked', 'R1.via.BlobFile.decrypt', 'R1.via.StreamDownloader.read_blob',
    'R1.via.decrypt_blob_bytes', 'R1.via.reference', 'R1.multi_blob_stream',
    'R1.size.1', 'R1.size.16', 'R1.size.MAX-1', 'R1.size.MAX', 'R1.size.2(MAX-1)', 'R1.size.2(MAX-1)+1',
    'R2.blob_checked', 'R2.blob_of_exactly_2MiB', 'R2.terminator_checked',
    'R3.sd_hash_checked', 'R3.sd_fields_checked', 'R3.stream_hash_checked', 'R3.old_sort_checked', 'R3.loaded_back',
    'R4.base_loaded', 'R4.inconsistent_refused', 'R4.refused.stream-hash', 'R4.refused.numbering',
    'R4.refused.terminator', 'R4.refused.invalid-json', 'R4.refused.not-utf8', 'R4.refused.missing-field',
    'R4.structural_refused_with_matching_hash', 'R4.fixture_descriptor_loaded',
    'R5.publish_name_checked', 'R5.sanitize_checked', 'R5.input_with_forbidden_char',
    'R5.download_name_checked', 'R5.download_input_with_forbidden_char', 'R5.download_claim_fallback_checked',
    'R5.download_saved_file_checked', 'R1.via.ManagedStream.save_file',
]

MAX = 2 * 2 ** 20          # "2 MiB" of the statement (not imported from lbry)
CH = MAX - 1               # most plaintext one blob can carry (PKCS7 always adds at least one byte)
FIXTURE = os.path.join(boot.VERIF, 'fixtures', 'c02_sd_vectors.json')
BIG_SIZES = [('MAX-17', CH - 16), ('MAX-16', CH - 15), ('MAX-2', CH - 1), ('MAX-1', CH), ('MAX', CH + 1),
             ('MAX+1', CH + 2), ('2(MAX-1)-1', 2 * CH - 1), ('2(MAX-1)', 2 * CH), ('2(MAX-1)+1', 2 * CH + 1)]
SMALL_SIZES = [1, 2, 15, 16, 17, 31, 32, 33, 47, 48, 49, 255, 256, 257, 4095, 4096, 4097, 65535, 65536, 65537]
SIZE_LABEL = {v: k for k, v in BIG_SIZES}
CONTENTS = ['rand', 'rand', 'rand', 'zeros', 'ff', 'padlike', 'text']
KEYS = ['rand16', 'rand16', 'rand16', 'zero16', 'ff16', 'ascii16', 'none', 'rand24', 'rand32']
IVS = ['counter', 'rand', 'rand', 'const', 'zero', 'none']
FORBIDDEN = {'/': 'slash', '\\': 'backslash', '\x00': 'NUL'}
FORBIDDEN.update({chr(i): 'C0-control' for i in range(1, 32)})


def plan(tier):
    # budget_s is CPU seconds per shard; core caps the shard's wall time at 2.5x (quick 60 s, thorough 850 s)
    return {'shards': 16, 'budget_s': 24 if tier == 'quick' else 340}


# =============================================================================== names
UNI = ['é', 'ß', 'Ж', '中', '文', '🎬', '\u0301', '\u202e', '\u200b', '\u2028', '\xa0', '\ufeff', 'İ', '\U0001f600']
RESERVED = ['CON', 'PRN', 'AUX', 'NUL', 'COM1', 'COM9', 'LPT1', 'LPT9', 'con', 'nul', 'COM0', 'CONIN$', 'COM10']
PLAIN = 'abcXYZ019_-'
HOSTILE = list('<>:"/\\|?*') + [chr(i) for i in range(0, 32)] + [' ', ' ', '.', '.', '\t', '\x7f', '\x85', '\x9f']


def _rand_word(r, alphabet, lo=1, hi=12):
    return ''.join(r.choice(alphabet) for _ in range(r.randint(lo, hi)))


def hostile_name(r):
    """-> (kind, str) arbitrary string (may contain '/' and NUL)."""
    k = r.randrange(26)
    w = _rand_word(r, PLAIN)
    ext = r.choice(['.txt', '.mp4', '.tar.gz', '.x', '', '.JPG', '.e x t'])
    if k == 0:
        return 'plain', w + ext
    if k == 1:
        return 'unicode', _rand_word(r, UNI + list(PLAIN), 1, 10) + ext
    if k == 2:
        return 'blanks', r.choice([' ', '\t', '  ', ' \t ']) + w + r.choice(['', ' ', '\t']) + ext + r.choice(['', ' ', '\t ', '  '])
    if k == 3:
        return 'dots', r.choice(['.', '..', '...', '']) + w + r.choice(['.', '..', '. .', ' .', '. ', '...   ', '.\t.'])
    if k == 4:
        return 'reserved', r.choice(RESERVED) + r.choice(['', '', ext, '.', ' ', '.txt.txt'])
    if k == 5:
        c = chr(r.randrange(1, 32))
        return 'c0-control', r.choice([w + c + w + ext, c + w + ext, w + ext + c, w + '.' + c, c, c * 3, w + '.' + c + 'x' + c])
    if k == 6:
        return 'backslash', r.choice([w + '\\' + w + ext, '\\', '..\\..\\' + w + ext, 'C:\\' + w, w + ext + '\\', w + '.\\', '\\\\srv\\' + w])
    if k == 7:
        return 'windows-illegal', ''.join(r.choice([r.choice('<>:"|?*'), r.choice(PLAIN)]) for _ in range(r.randint(1, 9))) + ext
    if k == 8:
        n = r.choice([255, 254, 251, 200])
        return 'long', r.choice([lambda: 'a' * n, lambda: 'é' * (n // 2), lambda: 'a' * (n - 4) + '.txt',
                                 lambda: '.' + 'b' * (n - 1), lambda: 'a.' + 'c' * (n - 2)])()
    if k == 9:
        return 'extension-only', r.choice(['.txt', '.', '..txt', '.t', '. ', '.\x01', '.\\', '..', '...', '.?', '.a.b'])
    if k == 10:
        return 'del-c1', w + r.choice(['\x7f', '\x80', '\x85', '\x9f']) + ext
    if k == 11:
        return 'all-illegal', _rand_word(r, list('<>:"|?*') + [chr(i) for i in range(1, 32)] + ['\\'], 1, 6)
    if k == 12:
        return 'illegal-extension', w + '.' + _rand_word(r, list('<>:"|?*\\') + [chr(i) for i in range(1, 32)], 1, 4)
    if k == 13:
        return 'slash', r.choice(['../../' + w + ext, '/' + w + ext, w + '/' + w + ext, '/', '//', w + ext + '/', w + './' + w,
                                  'a/b\\c', '/etc/passwd', w + '/.', '\\/'])
    if k == 14:
        return 'nul', r.choice(['\x00', w + '\x00' + ext, w + ext + '\x00', '\x00' + w, w + '.\x00', '\x00\x00.' + w, w + '\x00/\x00'])
    if k == 15:
        return 'newline-end', w + ext + r.choice(['\n', '.\n', ' \n', '\r\n', '\n\n', '.\r'])
    if k == 16:
        return 'surrogate', w + r.choice(['\udcff', '\ud800', '\udc80\udcfe']) + ext
    if k == 17:
        return 'very-long', _rand_word(r, HOSTILE + list(PLAIN), 300, 1200)
    if k == 18:
        return 'sandwich', r.choice(HOSTILE) + w + r.choice(HOSTILE) + ext + r.choice(HOSTILE)
    if k == 19:
        return 'multi-dot', '.'.join(_rand_word(r, HOSTILE + list(PLAIN) * 3, 0, 4) for _ in range(r.randint(2, 5)))
    if k == 20:
        # only the sanitiser's single pass separates these: removing one match creates the next pattern
        return 'nested', r.choice(['CO\x01N', 'N<UL', 'a.\x01.', ' \x02 x', 'x.\n', 'LP\\T1', 'a/.\\.', '\x1f.\x1f', 'COM1\x00'])
    return 'random', _rand_word(r, HOSTILE + list(PLAIN) * 2 + UNI, 1, 40)


def creatable(name):
    """can this be a Linux file name?"""
    if not name or name in ('.', '..') or '/' in name or '\x00' in name:
        return None
    try:
        raw = os.fsencode(name)
    except UnicodeEncodeError:
        return None
    return raw if 1 <= len(raw) <= 255 else None


def publish_name(r):
    for _ in range(200):
        kind, name = hostile_name(r)
        raw = creatable(name)
        if raw is not None:
            return kind, raw
    return 'plain', b'fallback.bin'


FIXED_NAMES = [
    ' t/-?t|.g.ext ', 'end_dot .', '.file\x00\x00', 'test n\x0eame.ext', 'COM8.ext', 'LPT2', '', 'a\\b', '\\', 'a/b', '/', '\x00',
    '\x01', '\x1f', '\t', '\n', 'x\ny', 'x.\n', 'a.b\\c', 'a.\\', '.\\', '..\\..\\boot.ini', 'C:\\Windows\\x.dll', '....', ' . . ',
    'name.', 'name..', 'name. ', 'a' * 255, 'é' * 127, '.' + 'a' * 254, 'NUL', 'nul', 'NUL.txt', 'CON.', 'con .txt', 'AUX\x00',
    'a\x7fb', 'a\x85b', 'a\u2028b', 'a\u202eb.exe', '日本語.txt', '🎬.mp4', 'x.\x01', 'x.\x01\x02', 'x.?', '???', 'a:b', 'a|b.c|d',
    '\\\\', 'x\\.y', 'x.y\\', 'x.y/', 'x/.y', '.a/b', 'a.b/c.d\\e', '\x00.\x00', 'abc.\x00txt', 'lbry_download', '\udcff.bin', '\r', 'a\rb.txt',
] + [chr(i) for i in range(0, 33)] + ['a' + chr(i) + 'b.e' + chr(i) + 'x' for i in range(0, 33)]


def check_suggested(rec, source, dirty, got, kind, extra=None):
    """R5 on one output string."""
    if not isinstance(got, str):
        rec.violation(f'C02/R5/{source}/result-not-a-string', f'suggested name for {dirty!r} is {got!r}',
                      dict(extra or {}, input=dirty, got=repr(got)))
        return
    bad = sorted({FORBIDDEN[c] for c in got if c in FORBIDDEN})
    for cls in bad:
        rec.violation(f'C02/R5/{source}/forbidden-char-in-suggested-name/{cls}',
                      f'suggested name for {dirty!r} is {got!r} (contains {cls})',
                      dict(extra or {}, input=dirty, input_utf8_hex=dirty.encode('utf8', 'surrogatepass').hex(), got=got, **{'class': kind}))
    if not got:
        rec.log('R5.empty_suggested_name')
    if got in ('.', '..'):
        rec.log('R5.suggested_name_is_dot_or_dotdot')
    if any(c == '\x7f' or '\x80' <= c <= '\x9f' for c in got):
        rec.log('R5.del_or_c1_kept')


def check_sanitize(rec, sanitize, kind, dirty):
    rec.case('n' + dirty.encode('utf8', 'surrogatepass').hex(), sample=None)
    try:
        got = sanitize(dirty)
    except Exception as e:  # noqa
        rec.violation(f'C02/R5/sanitize/raises/{type(e).__name__}', f'sanitize_file_name({dirty!r}) raised {e!r}', {'input': dirty})
        return
    rec.hit('R5.sanitize_checked')
    rec.hit('R5.class.' + kind)
    if any(c in FORBIDDEN for c in dirty):
        rec.hit('R5.input_with_forbidden_char')
    check_suggested(rec, 'sanitize', dirty, got, kind)
    return got


# ============================================================================= case generation
def gen_cases(rng, tier, shard, nshards):
    quick = tier == 'quick'
    if shard == 0:
        yield {'fam': 'fixed'}
    for part in range(FIXED_PARTS):
        # download side on the fixed hostile names: first case of its shard, so its counters never depend on the budget
        if shard == (2 + part) % nshards:
            yield {'fam': 'download', 'seed': part, 'count': 0, 'fixed': True, 'part': part}
    # big publishes first (so that a budget cut never starves the boundary classes)
    reps = 4 if quick else 24
    idx = 0
    bigs = list(BIG_SIZES)
    if not quick:
        bigs += [('4(MAX-1)+1', 4 * CH + 1), ('4(MAX-1)', 4 * CH), ('5(MAX-1)-7', 5 * CH - 7)]
    for rep in range(reps):
        for label, size in bigs:
            sub = rng.getrandbits(48)            # drawn on every shard: keeps rng streams aligned
            if idx % nshards == shard:
                c = pub_case(random.Random(sub), size, rep)
                if rep == 0:        # one instance of every boundary size is guaranteed to reach the round-trip oracle
                    c.update(content='rand', name_kind='plain', name_hex=('boundary %s.bin' % label).encode().hex())
                yield c
            idx += 1
    if shard == 1 % nshards:
        # deliberately colliding chunks: two identical plaintext chunks under one repeated IV (logged class)
        yield {'fam': 'pub', 'size': 2 * CH, 'content': 'zeros', 'cseed': 1, 'key': 'rand16', 'kseed': 2, 'iv': 'const',
               'ivseed': 3, 'old_sort': False, 'name_kind': 'plain', 'name_hex': b'zeros.bin'.hex(), 'tamper': False}
    nsmall = 60 if quick else 1000
    for j in range(nsmall):
        sub = rng.getrandbits(48)
        r = random.Random(sub)
        size = SMALL_SIZES[(j * nshards + shard) % len(SMALL_SIZES)] if j < 2 * len(SMALL_SIZES) else \
            r.choice([r.randint(1, 64), r.randint(1, 5000), r.randint(1, 200_000), 16 * r.randint(1, 4096)])
        yield pub_case(r, size, j)
        if j % 3 == 0:
            yield {'fam': 'tamper', 'seed': rng.getrandbits(48), 'nblobs': [1, 2, 3, 3, 5, 8][(j // 3) % 6],
                   'style': ['sorted', 'old'][(j // 3 + j // 18 + shard) % 2]}
        if j % 6 == 0:
            yield {'fam': 'names', 'seed': rng.getrandbits(48), 'count': 400 if quick else 2000}
        if j % 12 == 3:
            # (sub-seed derived, not drawn: the other families keep their cases)
            yield {'fam': 'download', 'seed': sub ^ 0x5d0c, 'count': 16 if quick else 60, 'fixed': False}


def pub_case(r, size, j):
    kind, raw = publish_name(r)
    return {'fam': 'pub', 'size': size, 'content': r.choice(CONTENTS), 'cseed': r.getrandbits(32),
            'key': r.choice(KEYS), 'kseed': r.getrandbits(32), 'iv': r.choice(IVS), 'ivseed': r.getrandbits(32),
            'old_sort': r.random() < 0.3, 'name_kind': kind, 'name_hex': raw.hex(),
            'tamper': size < 300_000 and j % 4 == 0 or (size >= CH and j == 0)}


def make_content(kind, seed, size):
    r = random.Random(seed)
    if kind == 'zeros':
        return bytes(size)
    if kind == 'ff':
        return b'\xff' * size
    if kind == 'text':
        unit = ('line %d of a text file\n' % seed).encode()
        return (unit * (size // len(unit) + 1))[:size]
    data = r.randbytes(size)
    if kind == 'padlike':
        k = r.randint(1, 16)
        tail = (bytes([k]) * k)[-size:]
        data = data[:size - len(tail)] + tail
    return data


def make_key(kind, seed):
    r = random.Random(seed)
    return {'rand16': lambda: r.randbytes(16), 'zero16': lambda: bytes(16), 'ff16': lambda: b'\xff' * 16,
            'ascii16': lambda: b'deadbeef' * 2, 'none': lambda: None, 'rand24': lambda: r.randbytes(24),
            'rand32': lambda: r.randbytes(32)}[kind]()


def make_ivgen(kind, seed, used):
    r = random.Random(seed)
    if kind == 'none':
        return None
    const = r.randbytes(16)
    start = r.getrandbits(127)

    def gen():
        n = 0
        while True:
            if kind == 'counter':
                iv = ((start + n) % 2 ** 128).to_bytes(16, 'big')
            elif kind == 'rand':
                iv = r.randbytes(16)
            elif kind == 'const':
                iv = const
            else:
                iv = bytes(16)
            n += 1
            used.append(iv)
            yield iv
    return gen()


# ===================================================================================== execute
def scratch():
    base = '/dev/shm' if os.path.isdir('/dev/shm') and os.access('/dev/shm', os.W_OK) else None
    return tempfile.mkdtemp(prefix='verif-c02-', dir=base)


def shard_setup(rec, tier):
    n = ref.selftest(FIXTURE)          # raises on mismatch with NIST / main-net vectors
    if n < 2:
        raise RuntimeError('fixture vectors missing')
    rec.note('reference_selftest', f'NIST SP800-38A CBC-AES128/256, SHA-384("abc"), PKCS7 cases, {n} real sd blobs: ok')


def shard_finish(rec, tier):
    import time
    w = int(time.monotonic() - rec.t0) // 60 * 60
    rec.log('shard_wall_s.%d-%d' % (w, w + 60))


def execute(rec, case):
    boot.import_lbry()
    fam = case['fam']
    if fam == 'names':
        from lbry.stream.descriptor import sanitize_file_name
        r = random.Random(case['seed'])
        last = None
        for _ in range(case['count']):
            kind, s = hostile_name(r)
            got = check_sanitize(rec, sanitize_file_name, kind, s)
            last = [kind, s.encode('utf8', 'surrogatepass').decode('utf8', 'backslashreplace'), got]
        if len(rec.samples) < 4 and last:
            rec.samples.append({'sanitize_file_name': last})
        return
    d = scratch()
    try:
        loop = asyncio.new_event_loop()
        try:
            if fam == 'pub':
                loop.run_until_complete(asyncio.wait_for(run_pub(rec, case, d), 300))
            elif fam == 'tamper':
                loop.run_until_complete(asyncio.wait_for(run_tamper_synthetic(rec, case, d), 600))
            elif fam == 'fixed':
                loop.run_until_complete(asyncio.wait_for(run_fixed(rec, case, d), 600))
            elif fam == 'download':
                loop.run_until_complete(asyncio.wait_for(run_download(rec, case, d), 600))
            else:
                raise ValueError(fam)
        finally:
            try:
                loop.run_until_complete(loop.shutdown_default_executor())
            finally:
                loop.close()
    finally:
        shutil.rmtree(d, ignore_errors=True)


def first_diff(a, b):
    n = min(len(a), len(b))
    if a[:n] == b[:n]:
        return n
    lo, hi = 0, n
    while hi - lo > 1:      # a[:lo] == b[:lo], a[:hi] != b[:hi]
        mid = (lo + hi) // 2
        if a[:mid] == b[:mid]:
            lo = mid
        else:
            hi = mid
    return lo


def size_classes(size):
    out = []
    if size in SIZE_LABEL:
        out.append(SIZE_LABEL[size])
    if size in (1, 15, 16, 17):
        out.append(str(size))
    if size % 16 == 0:
        out.append('block-aligned')
    return out


async def run_pub(rec, case, d):
    from lbry.stream.descriptor import StreamDescriptor
    from lbry.blob.blob_file import BlobFile, decrypt_blob_bytes
    from lbry.stream.downloader import StreamDownloader
    from lbry.blob.blob_manager import BlobManager
    from lbry.conf import Config
    loop = asyncio.get_running_loop()
    size = case['size']
    data = make_content(case['content'], case['cseed'], size)
    key = make_key(case['key'], case['kseed'])
    used_ivs = []
    ivgen = make_ivgen(case['iv'], case['ivseed'], used_ivs)
    raw_name = bytes.fromhex(case['name_hex'])
    name = os.fsdecode(raw_name)
    try:
        raw_name.decode('utf8')
        utf8_name = True
    except UnicodeDecodeError:
        utf8_name = False
    blob_dir, file_dir = os.path.join(d, 'blobs'), os.path.join(d, 'in')
    os.mkdir(blob_dir)
    os.mkdir(file_dir)
    file_path = os.path.join(file_dir, name)
    with open(file_path, 'wb') as f:
        f.write(data)
    info = {'size': size, 'content': case['content'], 'key': case['key'], 'iv': case['iv'], 'old_sort': case['old_sort'],
            'name': name.encode('utf8', 'surrogateescape').decode('utf8', 'backslashreplace'), 'name_kind': case['name_kind']}
    rec.case(['pub', hashlib.sha256(data).hexdigest(), case['key'], case['kseed'], case['iv'], case['ivseed'],
              case['name_hex'], case['old_sort']], sample=info)
    chunks = [data[i:i + CH] for i in range(0, size, CH)]
    repeating_iv = case['iv'] in ('const', 'zero')
    dup_chunks = repeating_iv and len(set(hashlib.sha256(c).digest() for c in chunks)) < len(chunks)
    # ------------------------------------------------------------------ publish (real code)
    try:
        desc = await StreamDescriptor.create_stream(loop, blob_dir, file_path, key=key, iv_generator=ivgen,
                                                    old_sort=case['old_sort'])
    except Exception as e:  # noqa
        if not utf8_name and isinstance(e, UnicodeError):
            rec.log('R1.publish_refused_non_utf8_file_name.' + type(e).__name__)
            return
        if dup_chunks:
            rec.log('R1.publish_refused_identical_chunks_under_repeated_iv.' + type(e).__name__)
            return
        if key is not None and len(key) != 16:
            rec.log('R1.publish_refused_key_length_%d.%s' % (len(key), type(e).__name__))
            return
        rec.violation(f'C02/R1/publish-raises/{type(e).__name__}',
                      f'create_stream raised {e!r} for a {size}-byte file named {name!r}', info)
        return
    if not utf8_name:
        rec.log('R1.published_non_utf8_file_name')
    # ------------------------------------------------------------------ R2 blobs on disk
    blobs = list(desc.blobs)
    ok = True
    if not blobs or blobs[-1].length != 0 or blobs[-1].blob_hash:
        rec.violation('C02/R2/terminator-malformed', f'published descriptor does not end with a hash-less zero-length entry ({size} bytes)',
                      dict(info, last=None if not blobs else [blobs[-1].blob_num, blobs[-1].length, blobs[-1].blob_hash]))
        return
    rec.hit('R2.terminator_checked')
    cts = []
    for i, b in enumerate(blobs[:-1]):
        w = dict(info, index=i, blob_hash=b.blob_hash, length=b.length, blob_num=b.blob_num)
        p = os.path.join(blob_dir, str(b.blob_hash))
        if not isinstance(b.blob_hash, str) or not os.path.isfile(p):
            rec.violation('C02/R2/blob-file-missing', f'data blob {i} of a {size}-byte file is not on disk under its hash', w)
            ok = False
            cts.append(None)
            continue
        with open(p, 'rb') as f:
            ct = f.read()
        cts.append(ct)
        rec.hit('R2.blob_checked')
        if len(ct) > MAX:
            rec.violation('C02/R2/blob-larger-than-2MiB', f'data blob {i} of a {size}-byte file has {len(ct)} bytes (> {MAX})', w)
            ok = False
        if len(ct) == MAX:
            rec.hit('R2.blob_of_exactly_2MiB')
        if hashlib.sha384(ct).hexdigest() != b.blob_hash:
            rec.violation('C02/R2/blob-name-not-sha384-of-ciphertext', f'data blob {i} of a {size}-byte file: file name differs from SHA-384 of its bytes',
                          dict(w, sha384=hashlib.sha384(ct).hexdigest()))
            ok = False
        if b.length != len(ct):
            rec.violation('C02/R2/length-field-differs-from-blob-file', f'data blob {i}: descriptor length {b.length}, file has {len(ct)} bytes', w)
            ok = False
        if len(ct) == 0:
            rec.violation('C02/R2/zero-length-data-blob', f'data blob {i} of a {size}-byte file is empty', w)
            ok = False
    if len(blobs) - 1 == -(-size // CH):
        rec.log('R2.chunking_is_ceil(size/(2MiB-1))')
    else:
        rec.log('R2.chunking_other')
    # ------------------------------------------------------------------ R3 descriptor commitments
    sd_path = os.path.join(blob_dir, str(desc.sd_hash))
    if not isinstance(desc.sd_hash, str) or not os.path.isfile(sd_path):
        rec.violation('C02/R3/sd-blob-missing', f'no sd blob on disk under descriptor.sd_hash ({size}-byte file)', info)
        return
    with open(sd_path, 'rb') as f:
        sd_bytes = f.read()
    rec.hit('R3.sd_hash_checked')
    if case['old_sort']:
        rec.hit('R3.old_sort_checked')
    if hashlib.sha384(sd_bytes).hexdigest() != desc.sd_hash:
        rec.violation('C02/R3/sd-hash-not-sha384-of-sd-blob', f'sd_hash differs from SHA-384 of the sd blob ({size}-byte file)',
                      dict(info, sd_hash=desc.sd_hash, sha384=hashlib.sha384(sd_bytes).hexdigest()))
        ok = False
    extra = set(os.listdir(blob_dir)) - {b.blob_hash for b in blobs[:-1]} - {desc.sd_hash}
    if extra:
        rec.log('R2.files_in_blob_dir_not_named_by_descriptor')
    try:
        doc = json.loads(sd_bytes.decode('utf8'))
        assert isinstance(doc, dict)
    except Exception:  # noqa
        rec.violation('C02/R3/sd-blob-not-a-json-object', f'published sd blob does not parse ({size}-byte file)', dict(info, sd=sd_bytes[:300]))
        return
    want = {
        'stream_name': name.encode('utf8', 'surrogateescape').hex() if utf8_name else doc.get('stream_name'),
        'suggested_file_name': desc.suggested_file_name.encode('utf8', 'surrogatepass').hex(),
        'key': key.hex() if key is not None else desc.key,
        'stream_hash': desc.stream_hash,
        'blobs': [dict({'length': b.length, 'blob_num': b.blob_num, 'iv': b.iv}, **({'blob_hash': b.blob_hash} if b.blob_hash else {}))
                  for b in blobs],
    }
    rec.hit('R3.sd_fields_checked')
    for f_, v in want.items():
        if doc.get(f_) != v:
            rec.violation(f'C02/R3/sd-json-field-differs/{f_}', f'sd blob field {f_} differs from the published stream ({size}-byte file, name {name!r})',
                          dict(info, field=f_, in_blob=doc.get(f_), expected=v))
            ok = False
    if desc.key != want['key']:
        rec.violation('C02/R3/sd-json-field-differs/key', 'descriptor.key differs from the key given to create_stream', dict(info, got=desc.key))
        ok = False
    if doc.get('stream_type') != 'lbryfile' or set(doc) != {'stream_type', 'stream_name', 'key', 'suggested_file_name', 'stream_hash', 'blobs'}:
        rec.log('R3.sd_json_other_top_level_keys')
    if ivgen is not None:
        if [b.iv for b in blobs] == [iv.hex() for iv in used_ivs[:len(blobs)]] and len(used_ivs) == len(blobs):
            rec.log('R3.ivs_are_generator_output_in_order')
        else:
            rec.log('R3.ivs_differ_from_generator_output')
    verdict, reason, _ = ref.classify(sd_bytes)
    rec.hit('R3.stream_hash_checked')
    if verdict != 'consistent':
        try:
            recomputed = ref.stream_hash(doc['stream_name'], doc['key'], doc['suggested_file_name'], doc['blobs'])
        except Exception as e:  # noqa
            recomputed = repr(e)
        rec.violation(f'C02/R3/published-descriptor-{verdict}/{reason}',
                      f'published sd blob is {verdict} ({reason}) by the reference ({size}-byte file, name {name!r})',
                      dict(info, sd=sd_bytes if len(sd_bytes) < 3000 else sd_bytes[:3000], reference_stream_hash=recomputed,
                           stated=doc.get('stream_hash')))
        ok = False
    # ------------------------------------------------------------------ load it back (real loader)
    try:
        sd_blob = BlobFile(loop, desc.sd_hash, blob_directory=blob_dir)
        loaded = await StreamDescriptor.from_stream_descriptor_blob(loop, blob_dir, sd_blob)
    except Exception as e:  # noqa
        rec.violation(f'C02/R3/published-descriptor-refused/{type(e).__name__}',
                      f'from_stream_descriptor_blob raised {e!r} on the sd blob just published ({size}-byte file, name {name!r})',
                      dict(info, sd=sd_bytes[:3000]))
        return
    rec.hit('R3.loaded_back')
    compare_loaded(rec, loaded, doc, hashlib.sha384(sd_bytes).hexdigest(), info)
    # ------------------------------------------------------------------ R5 on the published name
    rec.hit('R5.publish_name_checked')
    rec.hit('R5.class.' + case['name_kind'])
    if any(c in FORBIDDEN for c in name):
        rec.hit('R5.input_with_forbidden_char')
        rec.hit('R5.published_name_with_forbidden_char')
    check_suggested(rec, 'publish', name, desc.suggested_file_name, case['name_kind'])
    check_suggested(rec, 'publish', name, loaded.suggested_file_name, case['name_kind'])
    # ------------------------------------------------------------------ R1 decrypt in descriptor order
    if all(c is not None for c in cts):
        try:
            dkey = bytes.fromhex(loaded.key)
        except ValueError:
            dkey = None
        if dkey is None:
            rec.violation('C02/R3/sd-json-field-differs/key', 'descriptor key is not hex', dict(info, key=loaded.key))
        else:
            conf = Config(data_dir=d, wallet_dir=d, download_dir=d)
            manager = BlobManager(loop, blob_dir, None, conf)
            downloader = StreamDownloader(loop, conf, manager, loaded.sd_hash, loaded)

            async def via_downloader(i, b, ct):
                return await downloader.read_blob(b)

            async def via_blobfile(i, b, ct):
                return BlobFile(loop, b.blob_hash, b.length, blob_directory=blob_dir).decrypt(dkey, bytes.fromhex(b.iv))

            async def via_bytes(i, b, ct):
                return decrypt_blob_bytes(ct, b.length, dkey, bytes.fromhex(b.iv))

            async def via_ref(i, b, ct):
                return ref.decrypt_blob(dkey, bytes.fromhex(b.iv), ct)

            try:
                for path, fn in (('StreamDownloader.read_blob', via_downloader), ('BlobFile.decrypt', via_blobfile),
                                 ('decrypt_blob_bytes', via_bytes), ('reference', via_ref)):
                    parts, failed = [], False
                    for i, (b, ct) in enumerate(zip(loaded.blobs[:-1], cts)):
                        try:
                            parts.append(await fn(i, b, ct))
                        except Exception as e:  # noqa
                            rec.violation(f'C02/R1/decrypt-raises/{path}/{type(e).__name__}',
                                          f'{path} raised {e!r} on blob {i} of a published {size}-byte file',
                                          dict(info, index=i, blob_hash=b.blob_hash, iv_hex=b.iv, key_hex=loaded.key))
                            failed = True
                            break
                    if failed:
                        ok = False
                        continue
                    plain = b''.join(parts)
                    rec.hit('R1.via.' + path)
                    if plain != data:
                        at = first_diff(plain, data)
                        where = 'length-only' if at == min(len(plain), len(data)) else \
                            ('first-16-bytes-of-a-blob' if (at % CH) < 16 else 'elsewhere')
                        rec.violation(f'C02/R1/plaintext-differs/{path}/{where}',
                                      f'{path}: decrypting the {len(parts)} blobs of a published {size}-byte file gives {len(plain)} bytes, '
                                      f'first difference at offset {at}',
                                      dict(info, first_difference=at, got=plain[at:at + 32], expected=data[at:at + 32],
                                           got_len=len(plain), key_hex=loaded.key, ivs_hex=[b.iv for b in loaded.blobs]))
                        ok = False
            finally:
                downloader.stop()
            rec.hit('R1.stream_roundtrip_checked')
            if len(blobs) > 2:
                rec.hit('R1.multi_blob_stream')
            for c in size_classes(size):
                rec.hit('R1.size.' + c)
            rec.hit('R1.content.' + case['content'])
            rec.hit('R1.key.' + case['key'])
            rec.hit('R1.iv.' + case['iv'])
    if ok:
        rec.hit('R123.stream_fully_consistent')
    # ------------------------------------------------------------------ R4 on the published descriptor
    if case.get('tamper') and verdict == 'consistent':
        await run_catalogue(rec, loop, d, doc, 'old' if case['old_sort'] else 'sorted', random.Random(case['cseed']), 'published')


def compare_loaded(rec, loaded, doc, sd_hash, info):
    """the object returned by the loader carries exactly the fields of the JSON document."""
    try:
        got = {
            'stream_name': loaded.stream_name.encode('utf8', 'surrogatepass').hex(), 'key': loaded.key,
            'suggested_file_name': loaded.suggested_file_name.encode('utf8', 'surrogatepass').hex(),
            'stream_hash': loaded.stream_hash, 'sd_hash': loaded.sd_hash,
            'blobs': [dict({'length': b.length, 'blob_num': b.blob_num, 'iv': b.iv}, **({'blob_hash': b.blob_hash} if b.blob_hash else {}))
                      for b in loaded.blobs],
        }
    except Exception as e:  # noqa
        rec.violation(f'C02/R3/loaded-descriptor-unreadable/{type(e).__name__}', f'fields of a loaded descriptor: {e!r}', info)
        return False
    want = {k: doc[k] for k in ('stream_name', 'key', 'suggested_file_name', 'stream_hash', 'blobs')}
    want['sd_hash'] = sd_hash
    good = True
    for k in want:
        if got[k] != want[k]:
            rec.violation(f'C02/R3/loaded-field-differs/{k}', f'loaded descriptor field {k} differs from the sd blob content',
                          dict(info, field=k, loaded=got[k], in_blob=want[k]))
            good = False
    return good


# ============================================================================ R4: tampering
async def load_bytes(loop, blob_dir, sd_bytes, via_writer=False):
    """store `sd_bytes` as a genuine blob (named by its own SHA-384) and run the real loader.
    -> ('loaded', descriptor) | ('refused', exception)"""
    from lbry.stream.descriptor import StreamDescriptor
    from lbry.blob.blob_file import BlobFile
    h = hashlib.sha384(sd_bytes).hexdigest()
    p = os.path.join(blob_dir, h)
    try:
        if via_writer and sd_bytes:
            blob = BlobFile(loop, h, len(sd_bytes), blob_directory=blob_dir)
            blob.get_blob_writer().write(sd_bytes)
            await asyncio.wait_for(blob.verified.wait(), 60)
        else:
            with open(p, 'wb') as f:
                f.write(sd_bytes)
            blob = BlobFile(loop, h, blob_directory=blob_dir)
        try:
            got = await StreamDescriptor.from_stream_descriptor_blob(loop, blob_dir, blob)
        except Exception as e:  # noqa  (any exception is a refusal; the type is logged by the caller)
            return 'refused', e
        return 'loaded', got
    finally:
        if os.path.exists(p):
            os.unlink(p)


def flip_hex(r, s, pos=None):
    """another lower-case hex digit at one position."""
    if not s:
        return 'a'
    i = r.randrange(len(s)) if pos is None else pos
    c = r.choice([x for x in ref.HEXDIGITS if x != s[i].lower()])
    return s[:i] + c + s[i + 1:]


def positions(n):
    """named positions among n data blobs."""
    out = [('first', 0)]
    if n >= 3:
        out.append(('middle', n // 2))
    if n >= 2:
        out.append(('last', n - 1))
    return out


def tamperings(base, style, r):
    """-> list of (label, bytes).  label = kind[:position]@hashmode, stable across seeds."""
    out = []
    n = len(base['blobs']) - 1
    pos = positions(n)
    allpos = pos + [('terminator', n)]

    def emit(label, doc, modes=('stale', 'present', 'nonzero')):
        seen = set()
        for mode in modes:
            dd = copy.deepcopy(doc)
            if mode != 'stale':
                try:
                    dd['stream_hash'] = ref.stream_hash(dd['stream_name'], dd['key'], dd['suggested_file_name'], dd['blobs'],
                                                        'present' if mode == 'present' else 'nonzero')
                except (KeyError, TypeError, AttributeError):
                    continue
            try:
                raw = ref.serialise(dd, style)
            except (TypeError, ValueError):
                continue
            if raw in seen:
                continue
            seen.add(raw)
            out.append((f'{label}@{"rehashed" if mode != "stale" else "stale"}' + ('-nonzero-rule' if mode == 'nonzero' else ''), raw))

    def D():
        return copy.deepcopy(base)

    # --- names, key
    for f in ('stream_name', 'suggested_file_name'):
        d = D(); d[f] = flip_hex(r, d[f]); emit(f'{f}-hex-digit', d)
        d = D(); d[f] = d[f] + '41'; emit(f'{f}-append', d)
        if len(base[f]) > 2:
            d = D(); d[f] = d[f][:-2]; emit(f'{f}-truncate', d)
        d = D(); d[f] = ''; emit(f'{f}-empty', d)
        d = D(); d[f] = d[f] + 'zz'; emit(f'{f}-not-hex', d)
        d = D(); d[f] = d[f] + 'f'; emit(f'{f}-odd-hex', d)
        d = D(); d[f] = d[f] + 'ff'; emit(f'{f}-not-utf8', d)
    if base['stream_name'] != base['suggested_file_name']:
        d = D(); d['stream_name'], d['suggested_file_name'] = d['suggested_file_name'], d['stream_name']; emit('names-swapped', d)
    d = D(); d['key'] = flip_hex(r, d['key']); emit('key-hex-digit', d)
    d = D(); d['key'] = d['key'][:-2]; emit('key-truncate', d)
    d = D(); d['key'] = d['key'] + '00'; emit('key-append', d)
    if base['key'].upper() != base['key']:
        d = D(); d['key'] = d['key'].upper(); emit('key-upper-case', d)
    # --- per blob fields
    for pn, i in pos:
        d = D(); d['blobs'][i]['blob_hash'] = flip_hex(r, d['blobs'][i]['blob_hash']); emit(f'blob_hash-hex-digit:{pn}', d)
        d = D(); d['blobs'][i]['blob_hash'] = d['blobs'][i]['blob_hash'][:-1]; emit(f'blob_hash-truncate:{pn}', d)
        L = base['blobs'][i]['length']
        for nm, v in (('plus16', L + 16), ('minus16', L - 16), ('one', 1), ('random', r.randint(1, MAX)), ('plus1', L + 1),
                      ('negated', -L)):
            if v != L and (v > 0 or nm == 'negated'):
                d = D(); d['blobs'][i]['length'] = v; emit(f'length-{nm}:{pn}', d)
        d = D(); d['blobs'][i]['length'] = 0; emit(f'zero-length-data-blob:{pn}', d)
        d = D(); d['blobs'][i]['length'] = 0; del d['blobs'][i]['blob_hash']; emit(f'zero-length-data-blob-without-hash:{pn}', d)
        d = D(); del d['blobs'][i]['blob_hash']; emit(f'drop-blob_hash:{pn}', d)
    for pn, i in allpos:
        d = D(); d['blobs'][i]['iv'] = flip_hex(r, d['blobs'][i]['iv']); emit(f'iv-hex-digit:{pn}', d)
        d = D(); d['blobs'][i]['iv'] = d['blobs'][i]['iv'][:-2]; emit(f'iv-truncate:{pn}', d)
        d = D(); d['blobs'][i]['blob_num'] += 1; emit(f'blob_num-plus1:{pn}', d)
        d = D(); d['blobs'][i]['blob_num'] -= 1; emit(f'blob_num-minus1:{pn}', d)
        d = D(); d['blobs'][i]['blob_num'] = r.randint(n + 2, 10 ** 6); emit(f'blob_num-random:{pn}', d)
        d = D()
        for b in d['blobs'][i:]:
            b['blob_num'] += 1
        emit(f'blob_num-gap-from:{pn}', d)
        if i >= 1:
            d = D(); d['blobs'][i]['blob_num'] = d['blobs'][i - 1]['blob_num']; emit(f'blob_num-duplicate:{pn}', d)
        for f in ('iv', 'length', 'blob_num'):
            d = D(); del d['blobs'][i][f]; emit(f'drop-{f}:{pn}', d)
    d = D()
    for b in d['blobs']:
        b['blob_num'] += 1
    emit('blob_num-start-at-1', d)
    d = D()
    for b in d['blobs']:
        b['blob_num'] = 0
    if n >= 1:
        emit('blob_num-all-zero', d)
    if n >= 2:
        a, b_ = 0, n - 1
        d = D(); d['blobs'][a]['blob_num'], d['blobs'][b_]['blob_num'] = d['blobs'][b_]['blob_num'], d['blobs'][a]['blob_num']
        emit('blob_num-swap:first-last', d)
        d = D(); d['blobs'][a]['iv'], d['blobs'][b_]['iv'] = d['blobs'][b_]['iv'], d['blobs'][a]['iv']; emit('iv-swap:first-last', d)
        d = D(); d['blobs'][a]['blob_hash'], d['blobs'][b_]['blob_hash'] = d['blobs'][b_]['blob_hash'], d['blobs'][a]['blob_hash']
        emit('blob_hash-swap:first-last', d)
        # order
        d = D(); d['blobs'][a], d['blobs'][b_] = d['blobs'][b_], d['blobs'][a]; emit('order-swap-entries:first-last', d)
        d = D(); d['blobs'][a], d['blobs'][b_] = d['blobs'][b_], d['blobs'][a]
        for i, b in enumerate(d['blobs']):
            b['blob_num'] = i
        emit('order-swap-entries-renumbered:first-last', d)
        d = D(); d['blobs'] = d['blobs'][:n][::-1] + d['blobs'][n:]; emit('order-reverse-data', d)
        d = D(); d['blobs'] = d['blobs'][:n][::-1] + d['blobs'][n:]
        for i, b in enumerate(d['blobs']):
            b['blob_num'] = i
        emit('order-reverse-data-renumbered', d)
        d = D(); d['blobs'] = d['blobs'][1:n] + d['blobs'][:1] + d['blobs'][n:]; emit('order-rotate-data', d)
        # remove / repeat a data blob
        for pn, i in pos:
            d = D(); del d['blobs'][i]; emit(f'remove-data-blob:{pn}', d)
            d = D(); del d['blobs'][i]
            for j, b in enumerate(d['blobs']):
                b['blob_num'] = j
            emit(f'remove-data-blob-renumbered:{pn}', d)
    for pn, i in pos:
        d = D(); d['blobs'].insert(i, copy.deepcopy(d['blobs'][i])); emit(f'repeat-data-blob:{pn}', d)
        d = D(); d['blobs'].insert(i, copy.deepcopy(d['blobs'][i]))
        for j, b in enumerate(d['blobs']):
            b['blob_num'] = j
        emit(f'repeat-data-blob-renumbered:{pn}', d)
    # --- terminator
    term = base['blobs'][-1]
    d = D(); d['blobs'].pop(); emit('terminator-dropped', d)
    d = D(); d['blobs'].append({'length': 0, 'blob_num': n + 1, 'iv': flip_hex(r, term['iv'])}); emit('terminator-duplicated', d)
    d = D(); d['blobs'].append(copy.deepcopy(term)); emit('terminator-duplicated-same-number', d)
    d = D(); d['blobs'] = [d['blobs'][-1]] + d['blobs'][:-1]; emit('terminator-first', d)
    d = D(); d['blobs'] = [d['blobs'][-1]] + d['blobs'][:-1]
    for j, b in enumerate(d['blobs']):
        b['blob_num'] = j
    emit('terminator-first-renumbered', d)
    if n >= 2:
        d = D(); d['blobs'].insert(n // 2 if n // 2 else 1, {'length': 0, 'blob_num': 0, 'iv': term['iv']})
        for j, b in enumerate(d['blobs']):
            b['blob_num'] = j
        emit('terminator-inserted-in-the-middle-renumbered', d)
    d = D(); d['blobs'][-1]['blob_hash'] = r.randbytes(48).hex(); emit('terminator-with-hash', d)
    d = D(); d['blobs'][-1]['blob_hash'] = d['blobs'][n - 1]['blob_hash']; emit('terminator-with-hash-of-last-blob', d)
    d = D(); d['blobs'][-1]['blob_hash'] = ''; emit('terminator-with-empty-hash', d)
    d = D(); d['blobs'][-1]['length'] = 16; emit('terminator-nonzero-length', d)
    d = D(); d['blobs'][-1]['length'] = 16; d['blobs'][-1]['blob_hash'] = r.randbytes(48).hex(); emit('terminator-replaced-by-data-blob', d)
    d = D(); d['blobs'][-1]['length'] = -1; emit('terminator-negative-length', d)
    d = D(); d['blobs'] = []; emit('blobs-empty', d, ('stale',))
    # --- stream hash itself
    sh = base['stream_hash']
    for nm, v in (('hex-digit', flip_hex(r, sh)), ('first-digit', flip_hex(r, sh, 0)), ('last-digit', flip_hex(r, sh, len(sh) - 1)),
                  ('unrelated', hashlib.sha384(r.randbytes(8)).hexdigest()), ('upper-case', sh.upper() if sh.upper() != sh else sh[::-1]),
                  ('truncated', sh[:-1]), ('empty', ''), ('sha384-of-empty', hashlib.sha384(b'').hexdigest()),
                  ('extended', sh + '0')):
        d = D(); d['stream_hash'] = v; emit(f'stream_hash-{nm}', d, ('stale',))
    # --- missing top-level fields
    for f in ('stream_name', 'key', 'suggested_file_name', 'stream_hash', 'blobs'):
        d = D(); del d[f]; emit(f'drop-{f}', d, ('stale',))
    # --- JSON / byte level
    good = ref.serialise(base, style)
    cut = sorted({len(good) - 1, len(good) // 2, r.randrange(1, len(good)), r.randrange(1, len(good)), 1, len(good) - 2})
    for c in cut:
        out.append((f'json-truncated:{"minus1" if c == len(good) - 1 else "inner"}@stale', good[:c]))
    out.append(('json-empty-blob@stale', b''))
    out.append(('json-trailing-brace@stale', good + b'}'))
    out.append(('json-trailing-text@stale', good + b' x'))
    out.append(('json-leading-text@stale', b'x' + good))
    out.append(('json-two-documents@stale', good + good))
    out.append(('json-single-quotes@stale', good.replace(b'"', b"'")))
    out.append(('json-trailing-comma@stale', good[:-1] + b',}'))
    i = good.index(b':')
    out.append(('json-colon-removed@stale', good[:i] + good[i + 1:]))
    out.append(('json-unterminated-string@stale', good.replace(b'"', b'', 1)))
    out.append(('json-bom@stale', b'\xef\xbb\xbf' + good))
    out.append(('json-nul-appended@stale', good + b'\x00'))
    j = r.randrange(1, len(good))
    out.append(('not-utf8-ff-inserted@stale', good[:j] + b'\xff' + good[j:]))
    out.append(('not-utf8-first-byte@stale', b'\xfe' + good[1:]))
    k = good.index(b'"key"')
    out.append(('not-utf8-latin1-in-string@stale', good[:k + 1] + b'\xe9' + good[k + 1:]))
    out.append(('not-utf8-truncated-sequence@stale', good[:-1] + b'\xc3'))
    out.append(('not-utf8-utf16@stale', good.decode().encode('utf-16')))
    for nm, v in (('null', b'null'), ('list', b'[]'), ('number', b'42'), ('string', b'"lbryfile"'), ('empty-object', b'{}'),
                  ('list-of-descriptor', b'[' + good + b']')):
        out.append((f'json-is-{nm}@stale', v))
    # --- logged only: respellings and ambiguities that keep the stated criterion satisfied
    for sty in ('compact', 'indent', 'old', 'sorted'):
        if sty != style:
            out.append((f'LOG:reserialised-{sty}', ref.serialise(base, sty)))
    out.append(('LOG:whitespace-padded', b' \n' + good + b'\n '))
    d = D(); d['stream_type'] = 'other'; out.append(('LOG:stream_type-changed', ref.serialise(d, style)))
    d = D(); d.pop('stream_type', None); out.append(('LOG:stream_type-dropped', ref.serialise(d, style)))
    d = D(); d['extra'] = 1; out.append(('LOG:extra-field', ref.serialise(d, style)))
    if base['stream_name'].upper() != base['stream_name']:
        d = D(); d['stream_name'] = d['stream_name'].upper(); out.append(('LOG:stream_name-upper-case-hex', ref.serialise(d, style)))
    d = D(); d['blobs'][0]['length'] = str(d['blobs'][0]['length']); out.append(('LOG:length-as-string', ref.serialise(d, style)))
    d = D(); d['blobs'][0]['blob_num'] = '0'; out.append(('LOG:blob_num-as-string', ref.serialise(d, style)))
    d = D(); d['blobs'][-1]['length'] = False; out.append(('LOG:terminator-length-false', ref.serialise(d, style)))
    d = D(); d['blobs'][-1]['length'] = 0.0; out.append(('LOG:terminator-length-float', ref.serialise(d, style)))
    L = str(base['blobs'][0]['length'])
    if len(L) >= 2 and L[1] != '0':
        d = D(); d['blobs'][0]['iv'] += L[0]; d['blobs'][0]['length'] = int(L[1:]); out.append(('LOG:ambiguity-iv-length-digit-moved', ref.serialise(d, style)))
    if len(base['stream_name']) >= 2 and base['stream_name'][-2] in '01234567' and len(base['stream_name']) > 2:
        d = D(); d['key'] = d['stream_name'][-2:] + d['key']; d['stream_name'] = d['stream_name'][:-2]
        out.append(('LOG:ambiguity-name-key-bytes-moved', ref.serialise(d, style)))
    d = D(); d['blobs'] = [{'length': 0, 'blob_num': 0, 'iv': term['iv']}]
    d['stream_hash'] = ref.stream_hash(d['stream_name'], d['key'], d['suggested_file_name'], d['blobs'])
    out.append(('LOG:only-a-terminator-rehashed', ref.serialise(d, style)))
    return out


async def run_catalogue(rec, loop, d, base_doc, style, r, origin):
    """base_doc: parsed valid descriptor.  Applies the whole catalogue through the real loader."""
    from lbry.stream.descriptor import sanitize_file_name
    blob_dir = os.path.join(d, 'sd-' + origin)
    os.makedirs(blob_dir, exist_ok=True)
    base_bytes = ref.serialise(base_doc, style)
    v, why, _ = ref.classify(base_bytes)
    if (v, why) != ('consistent', 'ok'):
        raise RuntimeError(f'harness: base descriptor is {v}/{why}')
    outcome, got = await load_bytes(loop, blob_dir, base_bytes, via_writer=True)
    if outcome != 'loaded':
        rec.violation(f'C02/R4/valid-descriptor-refused/{type(got).__name__}',
                      f'a valid {origin} descriptor ({len(base_doc["blobs"]) - 1} data blobs, {style} key order) was refused: {got!r}',
                      {'sd': base_bytes[:4000], 'origin': origin})
        return
    rec.hit('R4.base_loaded')
    rec.hit('R4.base.' + origin)
    compare_loaded(rec, got, base_doc, hashlib.sha384(base_bytes).hexdigest(), {'origin': origin, 'sd': base_bytes[:4000]})
    for label, raw in tamperings(base_doc, style, r):
        if raw == base_bytes:
            continue
        rec.case(b't' + hashlib.sha256(raw).digest())
        verdict, reason, doc = ref.classify(raw)
        outcome, got = await load_bytes(loop, blob_dir, raw, via_writer=r.random() < 0.1)
        kind = label.split('@')[0].split(':')[0] if not label.startswith('LOG:') else label[4:]
        if label.startswith('LOG:') or verdict != 'inconsistent':
            rec.log(f'R4.not_judged.{verdict}.{reason}.{kind}.{outcome}')
            if outcome == 'loaded':
                rec.hit('R4.consistent_or_unjudged_tamper_loaded')
                if isinstance(getattr(got, 'suggested_file_name', None), str):
                    check_sanitize(rec, sanitize_file_name, 'from-loaded-descriptor', got.suggested_file_name)
            continue
        if outcome == 'loaded':
            text = raw.decode('utf8', 'backslashreplace')
            rec.violation(f'C02/R4/inconsistent-descriptor-accepted/{reason}/{label}',
                          f'{origin} descriptor tampered by {label} is inconsistent ({reason}) but from_stream_descriptor_blob returned a descriptor',
                          {'tampering': label, 'reference_reason': reason, 'sd': text if len(text) < 6000 else text[:6000],
                           'base_sd': base_bytes.decode()[:6000], 'origin': origin, 'style': style})
            continue
        rec.hit('R4.inconsistent_refused')
        rec.hit('R4.refused.' + reason)
        rec.hit('R4.kind.' + kind)
        if '@rehashed' in label and reason in ('numbering', 'terminator'):
            rec.hit('R4.structural_refused_with_matching_hash')
        if ':' in label:
            rec.hit('R4.position.' + label.split('@')[0].split(':')[1])
        rec.log('R4.refusal_type.' + type(got).__name__)


def synthetic_base(r, nblobs):
    name = hostile_name(r)[1].replace('\x00', '').encode('utf8', 'replace').decode('utf8')[:60] or 'x'
    sugg = r.choice([name, _rand_word(r, PLAIN) + '.bin'])
    blobs = []
    for i in range(nblobs):
        length = MAX if i < nblobs - 1 and r.random() < 0.8 else 16 * r.randint(1, MAX // 16)
        blobs.append({'length': length, 'blob_num': i, 'iv': r.randbytes(16).hex(), 'blob_hash': r.randbytes(48).hex()})
    blobs.append({'length': 0, 'blob_num': nblobs, 'iv': r.randbytes(16).hex()})
    hn, hs, key = name.encode().hex(), sugg.encode().hex(), r.randbytes(16).hex()
    return {'stream_type': 'lbryfile', 'stream_name': hn, 'key': key, 'suggested_file_name': hs,
            'stream_hash': ref.stream_hash(hn, key, hs, blobs), 'blobs': blobs}


async def run_tamper_synthetic(rec, case, d):
    loop = asyncio.get_running_loop()
    r = random.Random(case['seed'])
    base = synthetic_base(r, case['nblobs'])
    if len(rec.samples) < 4:
        rec.samples.append({'tamper_base': {'data_blobs': case['nblobs'], 'style': case['style'], 'stream_name_hex': base['stream_name']}})
    await run_catalogue(rec, loop, d, base, case['style'], r, 'synthetic')


async def run_fixed(rec, case, d):
    from lbry.stream.descriptor import sanitize_file_name
    loop = asyncio.get_running_loop()
    for s in FIXED_NAMES:
        check_sanitize(rec, sanitize_file_name, 'fixed-list', s)
    with open(FIXTURE) as f:
        vectors = json.load(f)['sd_vectors']
    for n, v in enumerate(vectors):
        raw = v['sd_bytes'].encode()
        rec.case(b'fx' + raw)
        outcome, got = await load_bytes(loop, d, raw)
        if outcome != 'loaded':
            rec.violation(f'C02/R4/valid-descriptor-refused/{type(got).__name__}', f'real sd blob {v["sd_hash"][:12]} refused: {got!r}',
                          {'sd': v['sd_bytes'], 'origin': v['origin']})
            continue
        rec.hit('R4.fixture_descriptor_loaded')
        if got.sd_hash != v['sd_hash'] or got.stream_hash != v['stream_hash']:
            rec.violation('C02/R3/loaded-field-differs/sd_hash', 'fixture descriptor loaded with different hashes',
                          {'sd_hash': got.sd_hash, 'stream_hash': got.stream_hash, 'want': [v['sd_hash'], v['stream_hash']]})
        style = 'old' if v['sd_bytes'].startswith('{"stream_name"') else 'sorted'
        doc = json.loads(raw)
        if ref.serialise(doc, style) != raw:
            raise RuntimeError('harness: fixture does not re-serialise to itself')
        await run_catalogue(rec, loop, d, doc, style, random.Random(n), 'fixture')


# ==================================================================== R5 / R1: the download side
# A descriptor need not come from create_stream: any publisher may commit any string as suggested_file_name (or leave it
# blank and name the file in the claim).  The stream below is built by the reference alone and is valid by the reference's
# classifier; the real ManagedStream picks the name and saves the file, in the histories the daemon goes through.
DOWNLOAD_HISTORIES = ['save_file', 'start-save-now', 'start-then-save', 'reloaded']
DOWNLOAD_PUBLISHED_IN = ['descriptor', 'descriptor+claim', 'claim-fallback', 'descriptor']
BLANKS = ['', ' ', '\t', ' \t ', '  ']
SAVE_NAME_LIMIT = 150      # UTF-8 bytes of the published name up to which the stream is also saved (file system limit: logged class)
FIXED_PARTS = 4


def foreign_stream(r):
    """-> (plaintext, key, data blob entries, {blob hash: ciphertext}); reference CBC + PKCS7, small chunks."""
    key = r.randbytes(16)
    chunks = [r.randbytes(r.choice([1, 15, 16, 17, r.randint(1, 3000)])) for _ in range(r.choice([1, 1, 2, 3]))]
    blobs, files = [], {}
    for i, chunk in enumerate(chunks):
        iv = r.randbytes(16)
        ct = ref.cbc_encrypt_raw(key, iv, ref.pkcs7_pad(chunk))
        h = hashlib.sha384(ct).hexdigest()
        files[h] = ct
        blobs.append({'length': len(ct), 'blob_num': i, 'iv': iv.hex(), 'blob_hash': h})
    return b''.join(chunks), key, blobs, files


async def run_download(rec, case, d):
    from lbry.conf import Config
    from lbry.extras.daemon.storage import SQLiteStorage
    from lbry.blob.blob_manager import BlobManager
    loop = asyncio.get_running_loop()
    r = random.Random(case['seed'])
    client, dl = os.path.join(d, 'client'), os.path.join(d, 'downloads')
    os.mkdir(client)
    os.mkdir(dl)
    plain, key, data_blobs, files = foreign_stream(r)
    for h, ct in files.items():
        with open(os.path.join(client, h), 'wb') as f:
            f.write(ct)
    if case['fixed']:
        todo = [('fixed-list', s) for s in FIXED_NAMES[case['part']::FIXED_PARTS]]
    else:
        todo = [hostile_name(r) for _ in range(case['count'])]
    conf = Config(data_dir=client, wallet_dir=client, download_dir=dl, save_files=True, fixed_peers=[], tracker_servers=[],
                  reflector_servers=[], download_timeout=4.0)
    dbpath = os.path.join(client, 'lbrynet.sqlite')
    storage = SQLiteStorage(conf, dbpath)
    await storage.open()
    manager = BlobManager(loop, client, storage, conf)
    await manager.setup()
    env = {'root': d, 'client': client, 'dl': dl, 'conf': conf, 'manager': manager, 'plain': plain, 'key_hex': key.hex(),
           'data_blobs': data_blobs, 'fixed': case['fixed'], 'streams': {}}
    try:
        for n, (kind, name) in enumerate(todo):
            if rec.out_of_time():
                break
            await download_one(rec, loop, env, r, n, kind, name)
    finally:
        manager.stop()
        await storage.close()
    # ---- what the next start of the daemon would use as file name (read by the harness, not through lbry)
    try:
        con = sqlite3.connect(dbpath)
        try:
            rows = con.execute('select stream_hash, file_name from file').fetchall()
        finally:
            con.close()
    except sqlite3.Error as e:
        rec.log('R5.download.stored_rows_unreadable.' + type(e).__name__)
        rows = []
    for stream_hash, hex_name in rows:
        if hex_name is None or stream_hash not in env['streams']:
            continue
        kind, name, info = env['streams'][stream_hash]
        try:
            stored = bytes.fromhex(hex_name).decode('utf8')
        except ValueError:
            rec.log('R5.download.stored_file_name_not_hex_utf8')
            continue
        rec.hit('R5.download_stored_name_checked')
        check_suggested(rec, 'stored-file-name', name, stored, kind, info)


async def download_one(rec, loop, env, r, n, kind, name):
    from lbry.stream.managed_stream import ManagedStream
    from lbry.extras.daemon.storage import StoredContentClaim
    from lbry.schema.claim import Claim
    try:
        raw_name = name.encode('utf8')
    except UnicodeEncodeError:
        rec.log('R5.download.name_not_utf8_not_driven')      # a descriptor / claim carries the UTF-8 bytes of a name
        return
    conf, manager, dl = env['conf'], env['manager'], env['dl']
    if env['fixed']:
        published_in, history = DOWNLOAD_PUBLISHED_IN[n % 4], DOWNLOAD_HISTORIES[(n // 4 + n) % 4]
    else:
        published_in, history = r.choice(DOWNLOAD_PUBLISHED_IN), r.choice(DOWNLOAD_HISTORIES)
    if published_in == 'descriptor' and not name.strip():
        published_in = 'descriptor+claim'      # blank name and no claim at all: nothing could be suggested (not driven)
    if published_in == 'claim-fallback':
        in_descriptor, in_claim = r.choice(BLANKS), name
    elif published_in == 'descriptor+claim':
        in_descriptor, in_claim = name, r.choice(['', 'claimed.bin', 'cl/aim\\ed\x02.bin'])
    else:
        in_descriptor, in_claim = name, None
    save = len(raw_name) <= SAVE_NAME_LIMIT
    # ---- a valid descriptor (reference commitments), stored as a genuine blob
    hs, hn = in_descriptor.encode('utf8').hex(), (r.choice([raw_name, b'']) or b'stream').hex()
    blobs = copy.deepcopy(env['data_blobs']) + [{'length': 0, 'blob_num': len(env['data_blobs']), 'iv': r.randbytes(16).hex()}]
    doc = {'stream_type': 'lbryfile', 'stream_name': hn, 'key': env['key_hex'], 'suggested_file_name': hs,
           'stream_hash': ref.stream_hash(hn, env['key_hex'], hs, blobs), 'blobs': blobs}
    sd = ref.serialise(doc, r.choice(['sorted', 'old']))
    v, why, _ = ref.classify(sd)
    if (v, why) != ('consistent', 'ok'):
        raise RuntimeError(f'harness: download descriptor is {v}/{why}')
    sd_hash = hashlib.sha384(sd).hexdigest()
    with open(os.path.join(env['client'], sd_hash), 'wb') as f:
        f.write(sd)
    info = {'name': name, 'name_utf8_hex': raw_name.hex(), 'published_in': published_in, 'history': history,
            'descriptor_suggested_file_name': in_descriptor, 'claim_source_name': in_claim, 'data_blobs': len(blobs) - 1}
    rec.case(['dl', sd_hash, history, in_claim], sample=info)
    env['streams'][doc['stream_hash']] = (kind, name, info)
    claim = None
    if in_claim is not None:       # as download_from_uri does: the claim known from resolve, before anything is stored
        c = Claim()
        c.stream.source.name = in_claim
        c.stream.source.sd_hash = sd_hash
        claim = StoredContentClaim(outpoint='%064x:0' % (n + 1), claim_id='%040x' % (n + 1), name='claim-%d' % n, amount=1, height=1,
                                   serialized=c.to_bytes().hex())

    async def real(what, awaitable):
        """one call into lbry; an exception is logged (the statement does not promise that saving succeeds)."""
        try:
            await awaitable
            return True
        except Exception as e:  # noqa
            rec.log(f'R5.download.{what}_raised.{type(e).__name__}')
            return False

    def observe(stream):
        for attr in ('suggested_file_name', 'file_name'):
            try:
                got = getattr(stream, attr)
            except Exception as e:  # noqa
                rec.log(f'R5.download.{attr}_raised.{type(e).__name__}')
                continue
            rec.hit('R5.download_name_checked')
            if published_in == 'claim-fallback':
                rec.hit('R5.download_claim_fallback_checked')
            check_suggested(rec, 'ManagedStream.' + attr, name, got, kind, info)

    rec.hit('R5.download.history.' + history)
    rec.hit('R5.download.published_in.' + published_in)
    if any(ch in FORBIDDEN for ch in name):
        rec.hit('R5.download_input_with_forbidden_char')
    before = set(os.listdir(dl))
    stream = ManagedStream(loop, conf, manager, sd_hash, dl, claim=claim)
    try:
        if history == 'start-save-now':
            if not await real('start', stream.start(save_now=True)):
                return
            observe(stream)
        elif history != 'save_file' or not save:
            if not await real('start', stream.start()):
                return
            if history == 'reloaded':       # what StreamManager does with a stored stream after a restart
                await stream.stop_tasks()
                descriptor = await manager.get_stream_descriptor(sd_hash)
                stream = ManagedStream(loop, conf, manager, sd_hash, dl, claim=claim, descriptor=descriptor, rowid=stream.rowid)
            observe(stream)
        if not save:
            rec.log('R5.download.long_name_not_saved')
            return
        if not await real('save_file', stream.save_file()):
            observe(stream)
            return
        task, saved = stream.file_output_task, False
        if task is None:
            rec.log('R5.download.save_not_started')
        else:
            saved = await real('save_task', asyncio.wait_for(task, 60))
        observe(stream)
        # ---- what was written (the harness lists the directories itself)
        new = sorted(set(os.listdir(dl)) - before)
        if set(os.listdir(env['root'])) != {'client', 'downloads'} or not all(os.path.isfile(os.path.join(dl, fn)) for fn in new):
            rec.violation('C02/R5/saved-file/written-outside-download-directory',
                          f'saving the stream named {name!r} created entries other than a file in the download directory',
                          dict(info, top_level=sorted(os.listdir(env['root'])), new_entries=new))
        if len(new) != 1:
            rec.log('R5.download.new_entries_in_download_directory.%d' % min(len(new), 2))
        for fn in new:
            rec.hit('R5.download_saved_file_checked')
            check_suggested(rec, 'saved-file', name, fn, kind, info)
        if saved and len(new) == 1 and os.path.isfile(os.path.join(dl, new[0])):
            with open(os.path.join(dl, new[0]), 'rb') as f:
                got = f.read()
            rec.hit('R1.via.ManagedStream.save_file')
            if got != env['plain']:
                at = first_diff(got, env['plain'])
                where = 'length-only' if at == min(len(got), len(env['plain'])) else 'content'
                rec.violation(f'C02/R1/plaintext-differs/ManagedStream.save_file/{where}',
                              f'the file saved for a {len(env["plain"])}-byte foreign stream has {len(got)} bytes, first difference at offset {at}',
                              dict(info, first_difference=at, got=got[at:at + 32], expected=env['plain'][at:at + 32], got_len=len(got)))
    finally:
        await stream.stop_tasks()
